"""E2: an independent s-expression reader for the repo's .hy sources.

Covers the syntax the core .hy files use; anything else raises SexpError
(-> ANALYSIS-ERROR), never a silent partial parse.
"""
from __future__ import annotations


class SexpError(Exception):
    pass


class Node:
    __slots__ = ("kind", "val", "items", "line", "prefix", "_parent")

    def __init__(self, kind, val=None, items=None, line=0, prefix=""):
        self.kind = kind  # sym kw str num expr list dict tuple set
        self.val = val
        self.items = items if items is not None else []
        self.line = line
        self.prefix = prefix
        self._parent = None

    # convenience -----------------------------------------------------------
    def is_sym(self, name=None):
        return self.kind == "sym" and (name is None or self.val == name)

    def is_kw(self, name=None):
        return self.kind == "kw" and (name is None or self.val == name)

    def head(self):
        if self.kind == "expr" and self.items and self.items[0].kind == "sym":
            return self.items[0].val
        return None

    def is_form(self, head):
        return self.head() == head

    def walk(self):
        yield self
        for c in self.items:
            yield from c.walk()

    def find(self, head):
        return [n for n in self.walk() if n.kind == "expr" and n.head() == head]

    def syms(self):
        return [n.val for n in self.walk() if n.kind == "sym"]

    def src(self):
        if self.kind == "sym":
            return self.val
        if self.kind == "kw":
            return ":" + self.val
        if self.kind == "str":
            return self.prefix + '"' + self.val.replace("\\", "\\\\").replace('"', '\\"') + '"'
        if self.kind == "num":
            return self.val
        o, c = {"expr": "()", "list": "[]", "dict": "{}", "tuple": ("#(", ")"), "set": ("#{", "}")}[self.kind]
        return o + " ".join(i.src() for i in self.items) + c

    def __repr__(self):
        return f"<{self.kind} {self.src()[:60]} @{self.line}>"


_WS = " \t\n\r\f\v"
_NON_IDENT = set("()[]{};\"'`~")
_CLOSE = {"(": ")", "[": "]", "{": "}"}


class _Reader:
    def __init__(self, text):
        self.t = text
        self.i = 0
        self.line = 1

    def peek(self, n=1):
        return self.t[self.i : self.i + n]

    def adv(self, n=1):
        s = self.t[self.i : self.i + n]
        self.line += s.count("\n")
        self.i += n
        return s

    def skip(self):
        while self.i < len(self.t):
            c = self.t[self.i]
            if c in _WS:
                self.adv()
            elif c == ";":
                while self.i < len(self.t) and self.t[self.i] != "\n":
                    self.i += 1
            else:
                break

    def read_all(self):
        out = []
        while True:
            self.skip()
            if self.i >= len(self.t):
                return out
            n = self.read()
            if n is not None:
                out.append(n)

    def read_seq(self, closer, kind, line):
        items = []
        while True:
            self.skip()
            if self.i >= len(self.t):
                raise SexpError(f"unclosed {kind} opened at line {line}")
            if self.peek() == closer:
                self.adv()
                break
            if self.peek() in ")]}":
                raise SexpError(f"mismatched closer {self.peek()!r} at line {self.line}")
            n = self.read()
            if n is not None:
                items.append(n)
        node = Node(kind, items=items, line=line)
        for it in items:
            it._parent = node
        return node

    def wrap(self, head, line, *items):
        node = Node("expr", items=[Node("sym", head, line=line), *items], line=line)
        for it in node.items:
            it._parent = node
        return node

    def read_form(self):
        while True:
            self.skip()
            if self.i >= len(self.t):
                raise SexpError("unexpected end of input after prefix")
            n = self.read()
            if n is not None:
                return n

    def read(self):
        line = self.line
        c = self.peek()
        if c == "(":
            self.adv()
            return self.read_seq(")", "expr", line)
        if c == "[":
            self.adv()
            return self.read_seq("]", "list", line)
        if c == "{":
            self.adv()
            return self.read_seq("}", "dict", line)
        if c in ")]}":
            raise SexpError(f"unexpected {c!r} at line {line}")
        if c == "'":
            self.adv()
            return self.wrap("quote", line, self.read_form())
        if c == "`":
            self.adv()
            return self.wrap("quasiquote", line, self.read_form())
        if c == "~":
            self.adv()
            if self.peek() == "@":
                self.adv()
                return self.wrap("unquote-splice", line, self.read_form())
            return self.wrap("unquote", line, self.read_form())
        if c == '"':
            return self.read_string("", line)
        if c == "#":
            two = self.peek(2)
            if two == "#(":
                self.adv(2)
                return self.read_seq(")", "tuple", line)
            if two == "#{":
                self.adv(2)
                return self.read_seq("}", "set", line)
            if two == "#_":
                self.adv(2)
                self.read_form()
                return None
            if self.peek(3) == "#**":
                self.adv(3)
                return self.wrap("unpack-mapping", line, self.read_form())
            if two == "#*":
                self.adv(2)
                return self.wrap("unpack-iterable", line, self.read_form())
            if two == "#^":
                self.adv(2)
                typ = self.read_form()
                target = self.read_form()
                return self.wrap("annotate", line, target, typ)
            if two == "#[":
                self.adv(2)
                j = self.t.find("[", self.i)
                if j < 0:
                    raise SexpError(f"bad bracket string at line {line}")
                delim = self.t[self.i : j]
                close = "]" + delim + "]"
                k = self.t.find(close, j + 1)
                if k < 0:
                    raise SexpError(f"unclosed bracket string at line {line}")
                body = self.t[j + 1 : k]
                self.adv(k + len(close) - self.i)
                if body.startswith("\n"):
                    body = body[1:]
                return Node("str", body, line=line, prefix="#[" + delim)
            raise SexpError(f"unsupported reader macro {self.peek(4)!r} at line {line}")
        # identifier-ish
        j = self.i
        while j < len(self.t) and self.t[j] not in _WS and self.t[j] not in _NON_IDENT:
            j += 1
        tok = self.t[self.i : j]
        if not tok:
            raise SexpError(f"cannot read at line {line}: {self.peek(10)!r}")
        if j < len(self.t) and self.t[j] == '"' and set(tok) <= set("bfrt"):
            self.adv(len(tok))
            return self.read_string(tok, line)
        self.adv(len(tok))
        if tok.startswith(":"):
            return Node("kw", tok[1:], line=line)
        if _looks_numeric(tok):
            return Node("num", tok, line=line)
        return Node("sym", tok, line=line)

    def read_string(self, prefix, line):
        assert self.peek() == '"'
        self.adv()
        out = []
        while True:
            if self.i >= len(self.t):
                raise SexpError(f"unclosed string at line {line}")
            c = self.adv()
            if c == "\\":
                out.append(c)
                out.append(self.adv())
                continue
            if c == '"':
                break
            out.append(c)
        raw = "".join(out)
        if "r" not in prefix:
            try:
                val = bytes(raw, "utf-8").decode("unicode_escape") if "\\" in raw and raw.isascii() else raw.replace('\\"', '"').replace("\\\\", "\\") if "\\" in raw else raw
            except Exception:
                val = raw
        else:
            val = raw
        return Node("str", val, line=line, prefix=prefix)


def _looks_numeric(tok):
    t = tok.replace(",", "").replace("_", "")
    try:
        int(t, 0)
        return True
    except ValueError:
        pass
    try:
        float(t)
        return tok not in ("Inf", "NaN", "-Inf") or True
    except ValueError:
        return False


class HyFile:
    def __init__(self, rel, text):
        self.rel = rel
        self.text = text
        self.forms = _Reader(text).read_all()

    def walk(self):
        for f in self.forms:
            yield from f.walk()

    def top(self, head, name=None):
        out = []
        for f in self.forms:
            if f.kind == "expr" and f.head() == head:
                if name is None or (len(f.items) > 1 and f.items[1].kind == "sym" and f.items[1].val == name):
                    out.append(f)
        return out

    def defn(self, name):
        for head in ("defn", "defmacro", "defop"):
            r = self.top(head, name)
            if r:
                return r[0]
        return None

    def find(self, head):
        return [n for n in self.walk() if n.kind == "expr" and n.head() == head]


def lambda_list_arity(ll):
    """[min, max] positional arity of a Hy lambda list node (a `list` Node)."""
    lo = hi = 0
    inf = float("inf")
    for it in ll.items:
        if it.kind == "sym":
            if it.val in ("/", "*"):
                if it.val == "*":
                    break
                continue
            lo += 1
            hi += 1
        elif it.kind == "list":
            hi += 1
        elif it.kind == "expr" and it.head() == "unpack-iterable":
            hi = inf
        elif it.kind == "expr" and it.head() == "unpack-mapping":
            pass
        elif it.kind == "expr" and it.head() == "annotate":
            inner = it.items[1]
            if inner.kind == "sym":
                lo += 1
                hi += 1
            elif inner.kind == "list":
                hi += 1
        else:
            raise SexpError(f"unrecognised lambda-list item {it!r}")
    return lo, hi


# ---------------------------------------------------------------------------------------------------------------
# Partial evaluation of small Hy bodies on the *number of arguments*
# ---------------------------------------------------------------------------------------------------------------

class _Unknown(Exception):
    pass


def _arity_test(n, rest, count):
    """Truth value of a test form when the rest-parameter `rest` holds `count` values; raises _Unknown otherwise."""
    if n.kind == "sym":
        if n.val == rest:
            return count > 0
        if n.val in ("True", "False"):
            return n.val == "True"
        if n.val == "None":
            return False
        raise _Unknown(n.src())
    if n.kind == "num":
        try:
            return bool(int(n.val))
        except ValueError:
            raise _Unknown(n.src())
    if n.kind == "kw" and n.val == "else":
        return True
    if n.kind != "expr" or not n.items:
        raise _Unknown(n.src())
    h = n.head()
    a = n.items[1:]
    if h == "not" and len(a) == 1:
        return not _arity_test(a[0], rest, count)
    if h == "and":
        return all(_arity_test(x, rest, count) for x in a)
    if h == "or":
        return any(_arity_test(x, rest, count) for x in a)
    if h in ("=", "!=", "<", ">", "<=", ">=") and len(a) == 2:
        x, y = (_arity_num(v, rest, count) for v in a)
        return {"=": x == y, "!=": x != y, "<": x < y, ">": x > y, "<=": x <= y, ">=": x >= y}[h]
    raise _Unknown(n.src())


def _arity_num(n, rest, count):
    if n.kind == "num":
        try:
            return int(n.val)
        except ValueError:
            raise _Unknown(n.src())
    if n.kind == "expr" and n.head() == "len" and len(n.items) == 2 and n.items[1].is_sym(rest):
        return count
    raise _Unknown(n.src())


def value_for_count(body, rest, count):
    """The form whose value `body` returns when the rest-parameter `rest` holds `count` values, following
    if / cond / when / unless on tests about `rest` only.  -> Node, or None when a test cannot be decided."""
    n = body
    try:
        for _ in range(40):
            h = n.head() if n.kind == "expr" else None
            a = n.items[1:] if h else []
            if h == "if" and len(a) in (2, 3):
                if _arity_test(a[0], rest, count):
                    n = a[1]
                elif len(a) == 3:
                    n = a[2]
                else:
                    return Node("sym", "None", line=n.line)
            elif h == "cond" and len(a) % 2 == 0:
                for t, v in zip(a[::2], a[1::2]):
                    if _arity_test(t, rest, count):
                        n = v
                        break
                else:
                    return Node("sym", "None", line=n.line)
            elif h in ("when", "unless") and len(a) >= 2:
                if _arity_test(a[0], rest, count) == (h == "when"):
                    n = a[-1]
                else:
                    return Node("sym", "None", line=n.line)
            elif h == "do" and a:
                n = a[-1]
            elif h == "reduce" and len(a) == 3 and a[1].is_sym(rest) and count == 0:
                n = a[2]            # reduce over no elements gives the initial value
            else:
                return n
    except _Unknown:
        return None
    return None
