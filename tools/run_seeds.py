#!/venv/bin/python
"""Apply each kept seeded change to /repo, run every built check (quick, no evidence
written), undo the change, and print which checks caught it."""
import glob, json, os, subprocess, sys

os.chdir("/verif")
only = sys.argv[1:]
rows = []
assert subprocess.run(["git", "-C", "/repo", "status", "--porcelain"], capture_output=True, text=True).stdout.strip() == "", "/repo not clean"
for d in sorted(glob.glob("/verif/seeded/*/")):
    name = os.path.basename(d.rstrip("/"))
    if only and not any(name.startswith(o) for o in only):
        continue
    patch = os.path.join(d, "patch.diff")
    r = subprocess.run(["git", "-C", "/repo", "apply", patch], capture_output=True, text=True)
    if r.returncode != 0:
        rows.append((name, "PATCH-FAILS", r.stderr.strip()[:80]))
        continue
    try:
        out = subprocess.run(["/venv/bin/python", "-m", "hyverif", "all", "--no-write"], capture_output=True, text=True, timeout=600).stdout
    finally:
        subprocess.run(["git", "-C", "/repo", "checkout", "--", "."], check=True)
    viol = sorted({l.split("property=")[1].split()[0] for l in out.splitlines() if l.startswith("VIOLATION")})
    errs = sorted({l.split("property=")[1].split()[0] for l in out.splitlines() if l.startswith("ANALYSIS-ERROR")})
    first = [l for l in out.splitlines() if ": [" in l][:2]
    rows.append((name, ",".join(viol) or "-", ("ERR:" + ",".join(errs) + " " if errs else "") + " | ".join(x[:150] for x in first)))
for r in rows:
    print("%-8s caught_by=%-16s %s" % r)
caught = sum(1 for r in rows if r[1] not in ("-", "PATCH-FAILS"))
print(f"{caught}/{len(rows)} caught")
