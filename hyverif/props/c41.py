"""C41 — the hy command (thin: option termination, action selection order, sys.argv per mode)."""
import ast

from .. import pyq
from ..pysrc import dotted, fold, norm

REL = "hy/cmdline.py"


def check(ctx, src):
    ctx.rule("CMD-TERMINATE", "exactly -c and -m carry `terminate` and take an argument; proc_opt returns 'terminate' for them and both option loops stop on it; the first non-option is put back and ends option processing; `--` ends it too")
    ctx.rule("CMD-OPTARG", "an option's argument is the rest of its own word when there is one (`-cCODE`, `-c=CODE`), otherwise the next word")
    ctx.rule("CMD-ACTION", "the action is chosen in this order: -c, -m, `-` (stdin), file, REPL/stdin — so arguments after -c / -m are never interpreted")
    ctx.rule("CMD-ARGV", "in every mode sys.argv is assigned, with the documented first element, before the program runs")
    m = src.py(REL)
    f = m.func("cmdline_handler")
    ctx.require(f is not None, "cmdline_handler not found")
    defs = pyq.contains(f, lambda n: isinstance(n, ast.Assign) and norm(n.targets[0]) == "defs" and isinstance(n.value, ast.List))
    ctx.require(defs is not None, "option table not found")
    term, dest = [], []
    for d in defs.value.elts:
        kw = {k.arg: k.value for k in d.keywords}
        names = fold(kw["name"])
        if "terminate" in kw and getattr(kw["terminate"], "value", None) is True:
            term.append((names, getattr(kw.get("dest"), "value", None)))
        if "dest" in kw:
            dest.append(names[0])
    ctx.check(sorted(term) == [(["-c"], "command"), (["-m"], "mod")], "CMD-TERMINATE", f"{REL}|defs|terminate", f"options with terminate are {term}", REL, defs.lineno,
              witness="hy -c CODE -i: -i is read as a hy option instead of being passed to the program", detail="-c (command), -m (mod)")
    po = m.func("cmdline_handler.proc_opt")
    ctx.require(po is not None, "proc_opt not found")
    t = " ".join(ast.unparse(po).split())
    ctx.check("if 'terminate' in match: return 'terminate'" in t and t.rstrip().endswith("return 'dest' in match"), "CMD-TERMINATE", f"{REL}|proc_opt|returns", "proc_opt must return 'terminate' for terminating options and otherwise whether an argument was taken", REL, po.lineno, detail="'terminate' / has-dest")
    ctx.check("if arg: pass elif i is not None and i + 1 < len(item): arg = item[i + 1 + (item[i + 1] == '='):] elif argv: arg = argv.pop(0) else: err(" in t, "CMD-OPTARG", f"{REL}|proc_opt|argument source",
              "an option's argument must be: the given one, else the rest of the word after the option letter (minus one '='), else the next word", REL, po.lineno,
              witness="hy -Bc CODE ARGS takes an empty command and passes CODE to the program", detail="arg | item[i+1…] | argv.pop(0)")
    loop = next((n for n in f.body if isinstance(n, ast.While) and norm(n.test) == "argv"), None)
    ctx.require(loop is not None, "option loop not found")
    t = " ".join(ast.unparse(loop).split())
    ctx.check("item = argv.pop(0) if item == '--': break" in t, "CMD-TERMINATE", f"{REL}|loop|double dash", "`--` must end option processing", REL, loop.lineno, detail="break")
    ctx.check("if proc_opt(opt, arg=arg) == 'terminate': break" in t, "CMD-TERMINATE", f"{REL}|loop|long option", "a terminating long option must end option processing", REL, loop.lineno, detail="break")
    ctx.check("for i in range(1, len(item)): x = proc_opt('-' + item[i], item=item, i=i) if x: break if x == 'terminate': break" in t, "CMD-TERMINATE", f"{REL}|loop|short options",
              "in a cluster of short options, an option that takes an argument ends the cluster and a terminating one ends option processing", REL, loop.lineno, detail="inner break on argument; outer break on terminate")
    ctx.check("else: argv.insert(0, item) break" in t and "elif item.startswith('-') and item != '-':" in t, "CMD-TERMINATE", f"{REL}|loop|first non-option", "the first non-option (including a lone `-`) must be put back and end option processing", REL, loop.lineno, detail="insert back; break")
    # --- action selection order
    act = pyq.contains(f, lambda n: isinstance(n, ast.Assign) and norm(n.targets[0]) in ("(action, action_arg)", "action, action_arg"))
    ctx.require(act is not None, "action selection not found")
    order = []
    e = act.value
    while isinstance(e, ast.IfExp):
        order.append((norm(e.test), fold(e.body.elts[0]) if isinstance(e.body, ast.List) else None))
        e = e.orelse
    order.append(("else", fold(e.elts[0]) if isinstance(e, ast.List) else None))
    want = [("'command' in options", "eval_string"), ("'mod' in options", "run_module"), ("argv and argv[0] == '-'", "run_script_stdin"), ("argv", "run_script_file"), ("sys.stdin.isatty()", "just_repl"), ("else", "run_script_stdin")]
    ctx.check(order == want, "CMD-ACTION", f"{REL}|action order", f"actions are selected as {order}", REL, act.lineno, witness="hy -c CODE - x reads the program from stdin and ignores CODE", detail=str([a for _, a in want]))
    # --- sys.argv per mode
    chain = next((n for n in f.body if isinstance(n, ast.If) and norm(n.test) == "action == 'eval_string'"), None)
    ctx.require(chain is not None, "action dispatch not found")
    want_argv = {"eval_string": "['-c'] + argv", "run_module": "[program] + argv", "run_script_stdin": "argv", "run_script_file": "argv"}
    runners = {"eval_string": "run_command", "run_module": "runpy.run_module", "run_script_stdin": "run_command", "run_script_file": "runhy.run_path"}
    n = chain
    while isinstance(n, ast.If):
        mode = fold(n.test.comparators[0]) if isinstance(n.test, ast.Compare) else None
        if mode in want_argv:
            asg = next((s for s in n.body if isinstance(s, ast.Assign) and norm(s.targets[0]) == "sys.argv"), None)
            run = pyq.contains(n.body, lambda x: isinstance(x, ast.Call) and dotted(x.func) == runners[mode])
            ok = asg is not None and norm(asg.value) == want_argv[mode] and run is not None and asg.lineno < run.lineno
            ctx.check(ok, "CMD-ARGV", f"{REL}|{mode}|sys.argv", f"in mode {mode} sys.argv must be set to `{want_argv[mode]}` before {runners[mode]} runs (found `{norm(asg.value) if asg else None}`)", REL, n.lineno,
                      witness="the program sees hy's own options in sys.argv", detail=want_argv[mode])
        n = n.orelse[0] if n.orelse and isinstance(n.orelse[0], ast.If) else None
    prog = pyq.contains(f, lambda n: isinstance(n, ast.Assign) and norm(n) == "program = argv[0]")
    rest = pyq.contains(f, lambda n: isinstance(n, ast.Assign) and norm(n) == "argv = list(argv[1:])")
    ctx.check(prog is not None and rest is not None and prog.lineno < rest.lineno, "CMD-ARGV", f"{REL}|program name", "the program name must be split off before options are processed", REL, f.lineno, detail="program = argv[0]; argv = argv[1:]")
    ctx.assume("equality of output and exit status across the four modes is a run-time relation and is not decided")
    ctx.floor("CMD-TERMINATE", 6)


SELFTESTS = [
    dict(name="stdin before -c", file=REL, rule="CMD-ACTION", key="action order", edits=[
        ('        ["eval_string", options["command"]]\n            if "command" in options else\n        ["run_module", options["mod"]]\n            if "mod" in options else\n', ''),
        ('        ["run_script_stdin", None]\n            if argv and argv[0] == "-" else\n', '        ["run_script_stdin", None]\n            if argv and argv[0] == "-" else\n        ["eval_string", options["command"]]\n            if "command" in options else\n        ["run_module", options["mod"]]\n            if "mod" in options else\n')]),
    dict(name="cluster argument", file=REL, old="            elif i is not None and i + 1 < len(item):\n                arg = item[i + 1 + (item[i + 1] == \"=\") :]", new="            elif item is not None and len(item) > 2:\n                arg = item[i + 1 :].removeprefix(\"=\")", rule="CMD-OPTARG", key="argument source"),
    dict(name="-i terminates", file=REL, old='            name=["-i"],\n            action="store_true",', new='            name=["-i"],\n            terminate=True,\n            action="store_true",', rule="CMD-TERMINATE", key="defs|terminate"),
    dict(name="argv for -m", file=REL, old="        sys.argv = [program] + argv\n", new="        sys.argv = argv\n", rule="CMD-ARGV", key="run_module"),
]
