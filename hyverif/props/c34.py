"""C34 — one Hy name, one Python identifier: R-ID-MANGLE at every identifier sink."""
CANON = True
STRICT = {"R-ID-MANGLE", "R-ID-MANGLE-STORE", "R-ID-MANGLE-RT"}

import ast

from .. import compq, idflow, pyq
from ..pysrc import dotted, norm

ALLOWED_LITERALS = {
    "hy": "the hy module itself", "models": "attribute of hy", "Keyword": "attribute of hy.models", "items": "dict method used for #** in dfor",
    "__debug__": "Python builtin constant guarding assert", "*": "star import", "__future__": "module name", "": "empty prefix = no alias",
}


def run_sinks(ctx, src, rule, comp=None, want=("RAW",)):
    """Shared by C34 / C12 / C14: classify all identifier sinks. Returns list of (mod, fn_qual, call, classes, field, tags)."""
    comp = comp or compq.Compiler(src)
    world = idflow.World(comp.mods, comp.macro_funcs)
    pv = idflow.Prov(world)
    out = []
    for m in (comp.rm, comp.cp, comp.sc):
        for call, classes, field, val in idflow.sinks(m):
            f = m.enclosing_func(call)
            q = m.qual_of(call)
            if f is None:
                continue
            tags = pv.prov(val, world.fn(m, f))
            out.append((m, q, call, classes, field, val, tags))
    return comp, world, pv, out


def check(ctx, src):
    ctx.rule("R-ID-MANGLE", "every identifier-typed AST field the compiler writes (Name.id, Attribute.attr, arg.arg, keyword.arg, alias.name/asname, "
             "def/class names, ImportFrom.module, Global/Nonlocal names, ExceptHandler.name, Match*.name/rest/kwd_attrs, type-parameter names) "
             "gets text that went through mangle()/module_name_str(), is a reserved compiler name, a copy of an existing node's identifier, None, "
             "or an allow-listed literal; text taken from a user model without mangling is a report")
    ctx.rule("R-ID-MANGLE-STORE", "later stores to identifier attributes (Result.rename: var.id / var.name) use a mangled name")
    ctx.rule("R-ID-MANGLE-RT", "the non-AST name sites mangle too: install_macro, macroexpand's lookup key, Keyword.__call__, ScopeLet.add, local_macro_name, require")
    comp, world, pv, sinks = run_sinks(ctx, src, "R-ID-MANGLE")
    for m, q, call, classes, field, val, tags in sinks:
        ctx.functions.add(f"{m.rel}:{q}")
        key = f"{m.rel}|{q}|{'/'.join(classes)}.{field}|{norm(val)}"
        raw = sorted(t for t in tags if t.startswith("RAW"))
        unk = sorted(t for t in tags if t.startswith("UNK"))
        lits = sorted(t[4:] for t in tags if t.startswith("LIT:"))
        badlit = [l for l in lits if l not in ALLOWED_LITERALS]
        if raw:
            ctx.bad("R-ID-MANGLE", key, f"field {field} of {'/'.join(classes)} receives unmangled user text ({raw[0][4:]})", m.rel, call.lineno,
                    witness="use a name that mangling changes (e.g. `my-x` or `is-ok?`) in this position: the emitted identifier differs from (hy.mangle name)")
        elif unk:
            ctx.unres("R-ID-MANGLE", key, "; ".join(unk))
        elif badlit:
            ctx.unres("R-ID-MANGLE", key, f"literal {badlit} not on the allow-list (decided under C12)")
        else:
            ctx.ok("R-ID-MANGLE", key, ",".join(sorted(tags)), nontrivial=bool(tags - {"NONE"}) and not all(t.startswith("LIT") for t in tags))
    ctx.floor("R-ID-MANGLE", 45)
    resolved = ctx.count("R-ID-MANGLE")
    ctx.need(len(ctx.unresolved) <= 6, f"too many identifier sinks are unresolved ({len(ctx.unresolved)}): the provenance analysis no longer understands the code")

    # --- later stores in Result.rename --------------------------------------------------------
    rn = comp.cp.func("Result.rename")
    ctx.require(rn is not None, "Result.rename not found")
    fnr = world.fn(comp.cp, rn)
    stores = [n for n in ast.walk(rn) if isinstance(n, ast.Assign) and isinstance(n.targets[0], ast.Attribute) and n.targets[0].attr in ("id", "name")]
    ctx.need(len(stores) >= 2, "Result.rename no longer stores to .id/.name")
    for st in stores:
        tags = pv.prov(st.value, fnr)
        key = f"{comp.cp.rel}|Result.rename|{norm(st.targets[0])}"
        ctx.check(tags == {"MANGLED"}, "R-ID-MANGLE-STORE", key, f"renamed identifier is not mangled ({sorted(tags)})", comp.cp.rel, st.lineno,
                  witness="(setv my-var (if c (do (f) 1) 2)) assigns to `my-var` literally", detail="mangle(new_name)")

    # --- run-time / macro name sites ------------------------------------------------------------
    def has_mangle_of(func, argname_pred, what, mod, wit):
        """The value picked by argname_pred is passed through mangle() in func - or in a helper of the same module that
        func forwards it to (followed two levels deep).  Not finding the value at all is 'not recognised', not a violation."""
        def search(f, pred, depth):
            seen_value = False
            for n in ast.walk(f):
                if isinstance(n, ast.expr) and pred(n):
                    seen_value = True
            for c in pyq.calls(f):
                if dotted(c.func) in ("mangle", "hy.mangle") and c.args and pred(c.args[0]):
                    return c, True
            if depth < 2:
                for c in pyq.calls(f):
                    idx = next((i for i, a in enumerate(c.args) if pred(a)), None)
                    if idx is None:
                        continue
                    d = dotted(c.func) or ""
                    callee = None
                    if d.startswith("self.") and d.count(".") == 1:
                        cls = mod.qual_of(f).rsplit(".", 1)[0] if "." in mod.qual_of(f) else None
                        callee = mod.func(f"{cls}.{d[5:]}") if cls else None
                        skip = 1
                    elif d and "." not in d:
                        callee = mod.func(d)
                        skip = 0
                    if callee is not None and len(callee.args.args) > idx + skip:
                        pname = callee.args.args[idx + skip].arg
                        hit, _ = search(callee, lambda a, pn=pname: isinstance(a, ast.Name) and a.id == pn, depth + 1)
                        if hit is not None:
                            return hit, True
            return None, seen_value

        found, seen_value = search(func, argname_pred, 0)
        verdict = True if found is not None else (False if seen_value else None)
        ctx.decide("R-ID-MANGLE-RT", f"{mod.rel}|{mod.qual_of(func)}|{what}", verdict, f"{what}: the name is not passed through mangle()", mod.rel, func.lineno,
                   witness=wit, detail=norm(found) if found else "")

    im = comp.mc.func("install_macro")
    ctx.require(im is not None, "install_macro not found")
    has_mangle_of(im, lambda a: isinstance(a, ast.Name) and a.id == "name", "install_macro key", comp.mc, "(defmacro my-mac [] 1) (my_mac) does not find the macro")
    me = comp.mc.func("macroexpand")
    ctx.require(me is not None, "macroexpand not found")
    fns_me = [me] + [comp.mc.func(c.func.id) for c in pyq.calls(me) if isinstance(c.func, ast.Name) and comp.mc.func(c.func.id) is not None and c.func.id != "macroexpand"]
    n_m = [c for fn_ in fns_me for c in pyq.calls(fn_) if dotted(c.func) == "mangle" or (dotted(c.func) == "map" and c.args and dotted(c.args[0]) == "mangle")]
    ctx.check(len(n_m) >= 2, "R-ID-MANGLE-RT", f"{comp.mc.rel}|macroexpand|lookup key", "macroexpand does not mangle the head symbol (and dotted head) before the lookup",
              comp.mc.rel, me.lineno, witness="(my-mac) and (my_mac) resolve differently", detail=f"{len(n_m)} mangle sites")
    rq = comp.mc.func("require")
    ctx.require(rq is not None, "require not found")
    rq_m = [norm(c) for c in pyq.calls(rq) if dotted(c.func) == "mangle"]
    ctx.check("mangle(name)" in rq_m and "mangle(prefix + alias)" in rq_m, "R-ID-MANGLE-RT", f"{comp.mc.rel}|require|names",
              f"require must mangle both the source name and the prefixed alias (found {rq_m})", comp.mc.rel, rq.lineno,
              witness="(require m [my-mac :as other-mac]) installs an unmangled key", detail=str(rq_m))
    lm = comp.mc.func("local_macro_name")
    ctx.require(lm is not None, "local_macro_name not found")
    has_mangle_of(lm, lambda a: isinstance(a, ast.Name) and a.id == "original", "local_macro_name", comp.mc, "local macro `my-mac` is stored under an unmangled variable name")
    mo = src.py("hy/models.py")
    kc = mo.func("Keyword.__call__")
    ctx.require(kc is not None, "Keyword.__call__ not found")
    has_mangle_of(kc, lambda a: norm(a) == "self.name", "Keyword.__call__ key", mo, "(:my-key obj) looks up 'my-key' instead of 'my_key'")
    la = comp.sc.func("ScopeLet.add")
    ctx.require(la is not None, "ScopeLet.add not found")
    has_mangle_of(la, lambda a: isinstance(a, ast.Name) and a.id == "target", "ScopeLet.add binding key", comp.sc, "(let [my-x 1] my-x) does not find its binding")
    # compile_symbol / compile_attribute_access / keyword args: covered by the sink rule; c_ops keys and get_c_op both mangle
    gc = comp.rm.func("get_c_op")
    ctx.require(gc is not None, "get_c_op not found")
    has_mangle_of(gc, lambda a: isinstance(a, ast.Name), "get_c_op key", comp.rm, "(chainc a is-not b) is rejected")


SELFTESTS = [
    dict(name="attribute access without mangle", file=compq.RM,
         old="            ret += asty.Attribute(\n                attr, value=ret.force_expr, attr=mangle(attr), ctx=ast.Load()\n            )",
         new="            ret += asty.Attribute(\n                attr, value=ret.force_expr, attr=str(attr), ctx=ast.Load()\n            )",
         rule="R-ID-MANGLE", key="compile_attribute_access"),
    dict(name="keyword arg without mangle", file=compq.CP, old="asty.keyword(expr, arg=mangle(arg), value=compiled_value.force_expr)",
         new="asty.keyword(expr, arg=arg, value=compiled_value.force_expr)", rule="R-ID-MANGLE", key="_compile_collect"),
    dict(name="import alias without mangle", file=compq.RM, old="asname = None if v == k else mangle(v)))", new="asname = None if v == k else str(v)))",
         rule="R-ID-MANGLE", key="compile_import"),
    dict(name="rename without mangle", file=compq.CP, old="        new_name = mangle(new_name)\n        for var in self.temp_variables:", new="        new_name = str(new_name)\n        for var in self.temp_variables:",
         rule="R-ID-MANGLE-STORE", key="Result.rename"),
    dict(name="Keyword call without mangle", file="hy/models.py", old="return data[mangle(self.name)]", new="return data[self.name]", rule="R-ID-MANGLE-RT", key="Keyword.__call__"),
    dict(name="alias mangle twin", file=compq.RM, kind="twin", edits=[("attr=mangle(attr), ctx=ast.Load()\n            )\n        elif isinstance(attr, Expression):",
                                                                   "attr=mangle(str(attr)), ctx=ast.Load()\n            )\n        elif isinstance(attr, Expression):")]),
]
