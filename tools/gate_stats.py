#!/venv/bin/python
"""For every finding raised on seeds / neutrals: the edit size of the function it is about (to choose gate thresholds)."""
import concurrent.futures as cf, glob, os, re, shutil, subprocess, sys, tempfile
def one(d):
    name = os.path.basename(d.rstrip("/"))
    tmp = tempfile.mkdtemp(prefix="hygs-", dir="/tmp")
    try:
        subprocess.run(["rsync", "-a", "--exclude", ".git", "--exclude", "__pycache__", "/repo/", tmp + "/"], check=True)
        r = subprocess.run(["git", "apply", os.path.join(d, "patch.diff")], cwd=tmp, capture_output=True)
        if r.returncode:
            subprocess.run(["patch", "-p1", "-s", "-i", os.path.join(d, "patch.diff")], cwd=tmp, capture_output=True)
        out = subprocess.run(["/venv/bin/python", "-m", "hyverif", "all", "--no-write", "--repo", tmp], capture_output=True, text=True, cwd="/verif",
                             env={**os.environ, "HYVERIF_EDIT_STATS": "1", "VERIF_TIER": ""}).stdout
    finally:
        shutil.rmtree(tmp, ignore_errors=True)
    res = []
    for l in out.splitlines():
        m = re.match(r"\S+?:\d+: \[([^\]]+)\] (.*?): .*\[\[edit=(.*?)\]\]", l)
        if m:
            res.append((m.group(1), m.group(2)[:70], m.group(3)))
    return name, sorted(set(res))
D = sys.argv[1]
dirs = sorted(glob.glob(f"/verif/{D}/*/"))
with cf.ThreadPoolExecutor(16) as ex:
    for name, res in ex.map(one, dirs):
        for r in res:
            print(D, name, *r, sep=" | ")
