#!/bin/bash
# usage: verify_seed.sh <PROP> <N>   -- verifies /tmp/wt/<PROP>/_seed/{patchN.diff,demoN.py,metaN.json}
# in a fresh scratch worktree; on success copies them to /verif/seeded/<PROP>-<N>/
set -u
P=$1; N=$2
SRC=/tmp/wt/$P/_seed
W=/tmp/vs/$P-$N
mkdir -p /tmp/vs
rm -rf "$W"; git -C /repo worktree prune
git -C /repo worktree add -q --detach "$W" HEAD || { echo "$P-$N: worktree failed"; exit 2; }
cd "$W"
mkdir -p "$W/_seed"; cp "$SRC/demo$N.py" "$W/_seed/demo$N.py"
export PYTHONDONTWRITEBYTECODE=1 PYTHONPATH="$W"
timeout 600 /venv/bin/python _seed/demo$N.py >/tmp/vs/$P-$N.clean.log 2>&1; RC_CLEAN=$?
if ! git apply --check "$SRC/patch$N.diff" 2>/tmp/vs/$P-$N.apply.log; then
  echo "$P-$N: PATCH-DOES-NOT-APPLY"; cd /; git -C /repo worktree remove --force "$W"; exit 3
fi
git apply "$SRC/patch$N.diff"
timeout 600 /venv/bin/python _seed/demo$N.py >/tmp/vs/$P-$N.patched.log 2>&1; RC_PATCHED=$?
timeout 1200 /venv/bin/python -m pytest -q -p no:cacheprovider --timeout=900 -rf 2>&1 | grep -E "^FAILED|passed|failed" | sed 's/ - .*//' | sort > /tmp/vs/$P-$N.tests.log
TESTS_SAME=no
if diff -q <(grep ^FAILED /tmp/vs/baseline.tests.log) <(grep ^FAILED /tmp/vs/$P-$N.tests.log) >/dev/null; then TESTS_SAME=yes; fi
SUMMARY=$(grep -E "[0-9]+ passed" /tmp/vs/$P-$N.tests.log | sed 's/ in .*//')
echo "$P-$N: demo_clean=$RC_CLEAN demo_patched=$RC_PATCHED tests_same=$TESTS_SAME [$SUMMARY]"
if [ "$RC_CLEAN" = 0 ] && [ "$RC_PATCHED" != 0 ] && [ "$TESTS_SAME" = yes ]; then
  D=/verif/seeded/$P-$N; mkdir -p $D
  cp "$SRC/patch$N.diff" $D/patch.diff; cp "$SRC/demo$N.py" $D/demo.py; cp "$SRC/meta$N.json" $D/meta.agent.json
  echo "$P-$N: KEPT"
fi
cd /; git -C /repo worktree remove --force "$W"
