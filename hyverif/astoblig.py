"""E6: AST well-formedness obligations at node construction sites.

Grammar facts come from the interpreter's own ast module (class docstrings hold the
ASDL signature: `expr? returns`, `stmt* body`, ...).  Validator facts (non-empty
lists etc.) are a frozen table taken from CPython's Python/ast.c validate_* functions.
"""
from __future__ import annotations

import ast
import re

from . import compq
from .pysrc import FUNC, dotted, norm

_SIG = re.compile(r"(\w+)([?*]?)\s+(\w+)")


def grammar(cls_name):
    """-> list of (field, type, modifier) from the ASDL docstring, or None."""
    cls = getattr(ast, cls_name, None)
    if cls is None or not cls.__doc__:
        return None
    doc = cls.__doc__
    m = re.match(r"\w+\((.*)\)\s*$", doc.strip().split("\n")[0])
    if not m:
        return []
    out = []
    for part in m.group(1).split(","):
        mm = _SIG.match(part.strip())
        if mm:
            out.append((mm.group(3), mm.group(1), mm.group(2)))
    return out


# From Python/ast.c: lists that must be non-empty (validate_nonempty_seq / validate_body)
NONEMPTY = {
    "FunctionDef": ["body"], "AsyncFunctionDef": ["body"], "ClassDef": ["body"], "For": ["body"], "AsyncFor": ["body"],
    "While": ["body"], "If": ["body"], "With": ["body", "items"], "AsyncWith": ["body", "items"], "Try": ["body"], "TryStar": ["body"],
    "ExceptHandler": ["body"], "match_case": ["body"], "Delete": ["targets"], "Assign": ["targets"], "Import": ["names"],
    "ImportFrom": ["names"], "Global": ["names"], "Nonlocal": ["names"], "Match": ["cases"], "Compare": ["comparators", "ops"],
}
STMT_BODY_FIELDS = {"body", "orelse", "finalbody"}


def constructions(mod):
    """Yield (call, [class names], kwargs: {field: value_expr}, splats: [expr], pos_arg or None).  Cached per module."""
    cache = getattr(mod, "_constructions", None)
    if cache is None:
        cache = list(_constructions(mod))
        mod._constructions = cache
    for call, classes, kwargs, splats, pos, via in cache:
        yield call, list(classes), dict(kwargs), list(splats), pos, via


def _constructions(mod):
    for n in ast.walk(mod.tree):
        if not isinstance(n, ast.Call):
            continue
        d = dotted(n.func)
        classes = None
        via = None
        if d and d.count(".") == 1 and d.split(".")[0] in ("asty", "ast") and d.split(".")[1] not in ("parse", "literal_eval", "copy_location", "fix_missing_locations", "walk", "dump", "unparse", "iter_child_nodes", "Load", "Store", "Del"):
            classes = [d.split(".")[1]]
            via = d.split(".")[0]
        elif isinstance(n.func, ast.IfExp):
            cs = [dotted(n.func.body), dotted(n.func.orelse)]
            if all(c and c.startswith("asty.") for c in cs):
                classes = [c.split(".")[1] for c in cs]
                via = "asty"
        elif isinstance(n.func, ast.Name):
            from .idflow import _classes_of_var

            cs = _classes_of_var(mod, n)
            if cs:
                classes, via = cs, "asty"
        classes = [c for c in (classes or []) if hasattr(ast, c) and isinstance(getattr(ast, c), type) and issubclass(getattr(ast, c), ast.AST)]
        if not classes:
            continue
        kwargs = {k.arg: k.value for k in n.keywords if k.arg}
        splats = [k.value for k in n.keywords if k.arg is None]
        pos = n.args[0] if (via == "asty" and n.args) else None
        yield n, classes, kwargs, splats, pos, via


def splat_keys(mod, call, splat):
    """Keys a `**expr` can contribute: {…} literals, dict(k=…) calls, conditional of those, known helper results."""
    e = splat
    keys_all, keys_some = set(), set()

    def keys_of(x):
        if isinstance(x, ast.Dict):
            return {k.value for k in x.keys if isinstance(k, ast.Constant)}
        if isinstance(x, ast.Call) and dotted(x.func) == "dict":
            return {k.arg for k in x.keywords if k.arg}
        if isinstance(x, ast.Call) and dotted(x.func) == "digest_type_params":
            return None  # {} or {type_params}
        if isinstance(x, ast.Name):
            f = mod.enclosing_func(call)
            vals = []
            for n in ast.walk(f):
                if isinstance(n, ast.Assign) and any(isinstance(t, ast.Name) and t.id == x.id for t in n.targets):
                    vals.append(n.value)
            sets = [alts(v) for v in vals]
            if sets and all(s is not None for s in sets):
                return ("alts", [a for s in sets for a in s])
        return "unknown"

    def alts(x):
        if isinstance(x, ast.IfExp):
            a, b = alts(x.body), alts(x.orelse)
            return None if a is None or b is None else a + b
        k = keys_of(x)
        if k == "unknown":
            return None
        if isinstance(k, tuple):
            return k[1]
        return [k]

    return alts(e)


class ResultFacts:
    """Per function: which Result variables provably have an expression / at least one statement at a use."""

    def __init__(self, mod, func):
        self.mod = mod
        self.func = func
        self.rvars = compq.result_vars(func)

    def is_result_name(self, e):
        return isinstance(e, ast.Name) and e.id in self.rvars

    def expr_guarded(self, use):
        """Is the `.expr` read `use` (an Attribute node) guarded so that it cannot be None?"""
        base = norm(use.value)
        # X.expr or fallback
        p = getattr(use, "_parent", None)
        if isinstance(p, ast.BoolOp) and isinstance(p.op, ast.Or) and p.values[0] is use and len(p.values) > 1:
            return "or-fallback"
        if isinstance(p, ast.BoolOp) and isinstance(p.op, ast.And):
            return "and-guard"
        # enclosing if X.expr / if X.is_expr()
        n = use
        while n is not None and n is not self.func:
            par = getattr(n, "_parent", None)
            if isinstance(par, (ast.If, ast.IfExp)):
                t = norm(par.test)
                in_body = (n in par.body) if isinstance(par, ast.If) else (n is par.body)
                if in_body and (t == f"{base}.expr" or t == f"{base}.is_expr()" or t.startswith(f"{base}.expr and") or f"{base}.expr" in t.split(" and ")):
                    return "if-guard"
                if in_body and isinstance(par, ast.IfExp) and t == base.split(".")[0] and False:
                    return "x"
            n = par
        return None


def value_sources(e):
    """Flatten `a or b`, `a if c else b`, lists -> leaf expressions feeding a field."""
    if isinstance(e, ast.IfExp):
        return value_sources(e.body) + value_sources(e.orelse)
    if isinstance(e, ast.BoolOp):
        out = []
        for v in e.values:
            out += value_sources(v)
        return out
    return [e]
