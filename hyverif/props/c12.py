"""C12 — compiler-introduced names are reserved (`hy` / `_hy_…`) and fresh."""
CANON = True
STRICT = {"R-ID-RESERVED", "R-ID-FRESH", "R-TEMPLATE", "R-ANON-OWNER"}

import ast
import re

from .. import compq, idflow, pyq
from ..pysrc import dotted, norm
from .c34 import ALLOWED_LITERALS, run_sinks

TEMPLATE_OK = {"__class__": "attribute of a literal in the empty-sfor template"}


def _template_strings(call, comp):
    """All strings the template argument of asty.parse(pos, TEMPLATE, ...) can take; holes become _hy_HOLE."""
    if len(call.args) < 2:
        return None
    t = call.args[1]
    return _strs(t)


def _strs(t):
    if isinstance(t, ast.Constant) and isinstance(t.value, str):
        return [t.value]
    if isinstance(t, ast.JoinedStr):
        out = ""
        for v in t.values:
            out += v.value if isinstance(v, ast.Constant) else "_hy_HOLE"
        return [out]
    if isinstance(t, ast.IfExp):
        a, b = _strs(t.body), _strs(t.orelse)
        return None if a is None or b is None else a + b
    if isinstance(t, ast.Subscript) and isinstance(t.value, ast.Dict):
        out = []
        for v in t.value.values:
            s = _strs(v)
            if s is None:
                return None
            out += s
        return out
    if isinstance(t, ast.Call) and isinstance(t.func, ast.Attribute) and t.func.attr == "format" and isinstance(t.func.value, ast.Constant):
        fmt = t.func.value.value
        # holes may stand for brackets: keep only the identifier-like words of the constant text
        words = [w for w in re.findall(r"[A-Za-z_][A-Za-z0-9_]*", re.sub(r"\{[^}]*\}", " ", fmt))]
        import keyword

        return ["[" + ", ".join(w for w in words if not keyword.iskeyword(w)) + "]"]
    return None


def check(ctx, src):
    ctx.rule("R-ID-RESERVED", "every identifier the compiler writes that is not derived from the user's program is `hy`, an attribute hanging off "
             "`hy`, starts with `_hy_`, or is on a reasoned allow-list (" + ", ".join(sorted(ALLOWED_LITERALS)) + ")")
    ctx.rule("R-ID-FRESH", "reserved names used for bindings come from get_anon_var (whose counter makes them distinct) — a `_hy_…` literal "
             "or a reused earlier name is a report (exception: local_macro_name, deliberately one name per macro)")
    ctx.rule("R-TEMPLATE", "names inside asty.parse templates are holes filled with reserved names, or allow-listed")
    ctx.rule("R-ANON-OWNER", "anon_var_count is written only by __init__ (=0) and get_anon_var (+=1 before use); the counter is part of the returned "
             "`_hy_`-prefixed name; temp_if only ever holds None or a get_anon_var() value")
    comp, world, pv, sinks = run_sinks(ctx, src, "R-ID-RESERVED")
    for m, q, call, classes, field, val, tags in sinks:
        ctx.functions.add(f"{m.rel}:{q}")
        key = f"{m.rel}|{q}|{'/'.join(classes)}.{field}|{norm(val)}"
        lits = sorted(t[4:] for t in tags if t.startswith("LIT:"))
        badlit = [l for l in lits if l not in ALLOWED_LITERALS]
        if badlit:
            ctx.bad("R-ID-RESERVED", key, f"the compiler introduces the unreserved name {badlit[0]!r} into the output", m.rel, call.lineno,
                    witness=f"a program that has its own variable `{badlit[0]}` around this construct")
        elif "RESERVED_LIT" in tags:
            ctx.bad("R-ID-FRESH", key, "a reserved name built from a `_hy_` literal (no counter) is used for a binding: two instances of this construct share one variable",
                    m.rel, call.lineno, witness="nest or repeat this construct with the same user name: the inner instance clobbers/unbinds the outer one")
        elif any(t.startswith("UNK") for t in tags):
            ctx.unres("R-ID-RESERVED", key, ";".join(sorted(tags)))
        else:
            ctx.ok("R-ID-RESERVED", key, ",".join(sorted(tags)), nontrivial="RESERVED" in tags or bool(lits))
    ctx.floor("R-ID-RESERVED", 45)

    # --- ScopeLet.add: fresh name per binding ------------------------------------------------------
    la = comp.sc.func("ScopeLet.add")
    ctx.require(la is not None, "ScopeLet.add not found")
    fresh_ok = True
    srcs = []
    for n in ast.walk(la):
        if isinstance(n, ast.Assign) and any(isinstance(t, ast.Name) and t.id == "new_name" for t in n.targets):
            srcs.append(n.value)
    ctx.need(len(srcs) >= 1, "ScopeLet.add no longer assigns new_name")
    for v in srcs:
        good = isinstance(v, ast.Call) and isinstance(v.func, ast.Attribute) and v.func.attr == "get_anon_var"
        ctx.check(good, "R-ID-FRESH", f"{comp.sc.rel}|ScopeLet.add|new_name = {norm(v)}",
                  "a let binding's hidden name does not always come from get_anon_var: an earlier name can be reused", comp.sc.rel, v.lineno,
                  witness="(let [x 1  f (fn [] x)  x 2] [(f) x]) -> both bindings of x share one variable", detail="fresh get_anon_var name")
    st = [n for n in ast.walk(la) if isinstance(n, ast.Assign) and isinstance(n.targets[0], ast.Subscript) and "bindings" in norm(n.targets[0])]
    ctx.check(len(st) == 1 and norm(st[0].value) == "new_name", "R-ID-FRESH", f"{comp.sc.rel}|ScopeLet.add|bindings-store", "bindings[name] is not set to the new name",
              comp.sc.rel, la.lineno, detail="bindings[name] = new_name")
    # callers that pass an explicit new_name must pass a fresh one
    for m, f, call in world.call_sites("add"):
        if isinstance(call.func, ast.Attribute) and "scope" in norm(call.func.value) and len(call.args) == 2:
            tags = pv.prov(call.args[1], world.fn(m, f))
            ctx.check(tags == {"RESERVED"}, "R-ID-FRESH", f"{m.rel}|{m.qual_of(call)}|scope.add(…, {norm(call.args[1])})",
                      f"the explicit hidden name is not a fresh get_anon_var() name ({sorted(tags)})", m.rel, call.lineno,
                      witness="a try nested in an except body, both binding the same name: the inner handler unbinds the outer handler's variable",
                      detail="get_anon_var(...)")

    # --- templates ------------------------------------------------------------------------------------
    for m in (comp.rm, comp.cp):
        for c in pyq.calls(m.tree):
            if dotted(c.func) != "asty.parse":
                continue
            q = m.qual_of(c)
            if q in ("compile_inline_python",):
                continue  # user-supplied Python text
            strs = _template_strings(c, comp)
            key = f"{m.rel}|{q}|asty.parse|{norm(c.args[1])[:60] if len(c.args) > 1 else ''}"
            if strs is None:
                ctx.unres("R-TEMPLATE", key, "template not statically known")
                continue
            for s in strs:
                try:
                    tree = ast.parse(s.strip() or "None")
                except SyntaxError:
                    ctx.unres("R-TEMPLATE", key, f"template {s!r} does not parse")
                    continue
                names = {n.id for n in ast.walk(tree) if isinstance(n, ast.Name)} | {n.attr for n in ast.walk(tree) if isinstance(n, ast.Attribute)}
                bad = sorted(n for n in names if not n.startswith("_hy_") and n not in TEMPLATE_OK and n not in ALLOWED_LITERALS and n not in ("None", "True", "False"))
                ctx.check(not bad, "R-TEMPLATE", key + f"|{s}", f"template {s!r} introduces the unreserved name(s) {bad}", m.rel, c.lineno,
                          witness="the name appears in compiled code although the program never mentions it", detail=f"names {sorted(names)}")
            # the holes must be reserved
            holes = []
            t = c.args[1]
            for x in ast.walk(t):
                if isinstance(x, ast.FormattedValue):
                    holes.append(x.value)
                if isinstance(x, ast.Call) and isinstance(x.func, ast.Attribute) and x.func.attr == "format":
                    holes.extend(a for a in x.args)
            f = m.enclosing_func(c)
            for h in holes:
                tags = pv.prov(h, world.fn(m, f))
                txt = {t[4:] for t in tags if t.startswith("LIT:")}
                oktxt = all(re.fullmatch(r"[^A-Za-z0-9_]*|async", x) for x in txt)
                rest = {t for t in tags if not t.startswith("LIT:")}
                if rest <= {"RESERVED"} and oktxt:
                    ctx.ok("R-TEMPLATE", key + f"|hole {norm(h)}", ",".join(sorted(tags)))
                elif any(t.startswith("UNK") for t in tags):
                    ctx.unres("R-TEMPLATE", key + f"|hole {norm(h)}", ";".join(sorted(tags)))
                else:
                    ctx.bad("R-TEMPLATE", key + f"|hole {norm(h)}", f"template hole is filled with a non-reserved name ({sorted(tags)})", m.rel, c.lineno)
    ctx.floor("R-TEMPLATE", 6)

    # --- counter ownership ------------------------------------------------------------------------------
    writes = []
    for rel in src.py_files("hy"):
        mm = src.py(rel)
        for n in ast.walk(mm.tree):
            tg = None
            if isinstance(n, ast.Assign):
                tg = n.targets[0]
            elif isinstance(n, ast.AugAssign):
                tg = n.target
            if isinstance(tg, ast.Attribute) and tg.attr == "anon_var_count":
                writes.append((rel, mm.qual_of(n), n))
    for rel in src.hy_files("hy"):
        if "anon_var_count" in src.text(rel) or "anon-var-count" in src.text(rel):
            ctx.bad("R-ANON-OWNER", f"{rel}|anon_var_count", "the anonymous-variable counter is touched from a .hy file", rel, 0)
    for rel, q, n in writes:
        okw = (q == "HyASTCompiler.__init__" and isinstance(n, ast.Assign) and isinstance(n.value, ast.Constant) and n.value.value == 0) or \
              (q == "HyASTCompiler.get_anon_var" and isinstance(n, ast.AugAssign) and isinstance(n.op, ast.Add) and isinstance(n.value, ast.Constant) and n.value.value == 1)
        ctx.check(okw, "R-ANON-OWNER", f"{rel}|{q}|{norm(n)}", "anon_var_count is written outside __init__/get_anon_var or not by `= 0` / `+= 1`", rel, n.lineno,
                  witness="two temporaries of one compilation unit get the same number", detail=norm(n))
    ctx.need(len(writes) >= 2, "anon_var_count writes not found")
    ga = comp.cp.func("HyASTCompiler.get_anon_var")
    ctx.require(ga is not None, "get_anon_var not found")
    body = pyq.body_without_doc(ga)
    inc_i = next((i for i, st in enumerate(body) if isinstance(st, ast.AugAssign)), None)
    ret = [st for st in body if isinstance(st, ast.Return)]
    okret = False
    if ret and isinstance(ret[0].value, ast.JoinedStr):
        js = ret[0].value
        first = js.values[0]
        okret = isinstance(first, ast.Constant) and first.value.startswith("_hy_") and any(
            isinstance(v, ast.FormattedValue) and norm(v.value) == "self.anon_var_count" for v in js.values) and \
            isinstance(js.values[-1], ast.FormattedValue) and norm(js.values[-1].value) == "self.anon_var_count"
    ctx.check(okret and inc_i is not None and body.index(ret[0]) > inc_i, "R-ANON-OWNER", f"{comp.cp.rel}|HyASTCompiler.get_anon_var|name",
              "get_anon_var must increment the counter first and return an f-string that starts with `_hy_` and ends with the counter", comp.cp.rel, ga.lineno,
              witness="two calls return the same name / the name is not reserved", detail=norm(ret[0].value) if ret else "")
    lm = comp.mc.func("local_macro_name")
    ctx.require(lm is not None, "local_macro_name not found")
    r = [n for n in ast.walk(lm) if isinstance(n, ast.Return)]
    okl = r and isinstance(r[0].value, ast.BinOp) and isinstance(r[0].value.left, ast.Constant) and str(r[0].value.left.value).startswith("_hy_")
    ctx.check(bool(okl), "R-ANON-OWNER", f"{comp.mc.rel}|local_macro_name|prefix", "local macro variables no longer start with `_hy_`", comp.mc.rel, lm.lineno,
              detail="'_hy_local_macro__' + …")
    # temp_if
    for m in comp.mods:
        for n in ast.walk(m.tree):
            if isinstance(n, ast.Assign) and isinstance(n.targets[0], ast.Attribute) and n.targets[0].attr == "temp_if":
                v = n.value
                vals = v.values if isinstance(v, ast.BoolOp) else [v]
                good = all((isinstance(x, ast.Constant) and x.value is None) or (isinstance(x, ast.Attribute) and x.attr == "temp_if")
                           or (isinstance(x, ast.Call) and isinstance(x.func, ast.Attribute) and x.func.attr == "get_anon_var") for x in vals)
                ctx.check(good, "R-ANON-OWNER", f"{m.rel}|{m.qual_of(n)}|{norm(n)}", "temp_if receives something other than None / get_anon_var()", m.rel, n.lineno, detail=norm(n))
    # the deliberate reuse of temp_if is only reachable for a head symbol that nothing produces
    ci = comp.rm.func("compile_if")
    ctx.require(ci is not None, "compile_if not found")
    heads = []
    for n in ast.walk(ci):
        if isinstance(n, ast.If) and pyq.contains(n.body, lambda x: isinstance(x, ast.Assign) and isinstance(x.targets[0], ast.Attribute) and x.targets[0].attr == "temp_if"):
            for c in ast.walk(n.test):
                if isinstance(c, ast.Call) and dotted(c.func) == "Symbol" and c.args and isinstance(c.args[0], ast.Constant):
                    heads.append(c.args[0].value)
    if heads:
        live = [h for h in heads if h in comp.all_macro_names() or h in ("cond", "when")]
        ctx.check(not live, "R-ID-FRESH", f"{comp.rm.rel}|compile_if|shared temp_if for head {heads}",
                  f"nested ifs headed by {live} now share one temporary; the sharing path skips the store of the inner result when the inner `if` "
                  "compiles to an expression, and sibling ifs inside one expression overwrite each other", comp.rm.rel, ci.lineno,
                  witness="(if a 1 (if (do (f) b) 2 3)) and (+ (if c (do (f) 1) 2) (if d (do (f) 10) 20)) inside an else-branch",
                  detail=f"temp reuse only for head {heads}, which no reader or macro produces (dead path)")


SELFTESTS = [
    dict(name="with temp without _hy_", file=compq.CP, old='return f"_hy_{base}{name}_{self.anon_var_count}"', new='return f"_h_{base}{name}_{self.anon_var_count}"',
         rule="R-ANON-OWNER", key="get_anon_var"),
    dict(name="exc var without counter", file=compq.RM, old='name = scope.add(name, compiler.get_anon_var("exc", name))', new='name = scope.add(name, "_hy_exc_" + name)',
         rule="R-ID-FRESH", key="scope.add"),
    dict(name="let reuse", file=compq.SC, old='                new_name = self.compiler.get_anon_var("let", name)',
         new='                new_name = self.bindings.get(name) or self.compiler.get_anon_var("let", name)', rule="R-ID-FRESH", key="ScopeLet.add"),
    dict(name="literal temp name", file=compq.RM, old="    temp_var = compiler.get_anon_var()\n    name = asty.Name(expr, id=mangle(temp_var), ctx=ast.Store())\n    # Initialize the tempvar",
         new="    temp_var = \"with_result\"\n    name = asty.Name(expr, id=mangle(temp_var), ctx=ast.Store())\n    # Initialize the tempvar", rule="R-ID-RESERVED", key="compile_with_expression"),
    dict(name="if* -> if", file=compq.RM, old='and orel_expr[0] == Symbol("if*")', new='and orel_expr[0] == Symbol("if")', rule="R-ID-FRESH", key="compile_if"),
    dict(name="anon base twin", file=compq.CP, old='def get_anon_var(self, base="anon", name=""):', new='def get_anon_var(self, base="tmp", name=""):', kind="twin"),
]
