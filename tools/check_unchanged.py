#!/venv/bin/python
"""On the unchanged tree every rule instance must be decided: lists rule instances that are 'not recognised' today."""
import importlib, sys
sys.path.insert(0, '/verif')
from hyverif import core
bad = 0
only = [x.lower() for a in sys.argv[1:] for x in a.split(',')]
for i in range(1, 42):
    p = f"c{i:02d}"
    if only and p not in only:
        continue
    try:
        m = importlib.import_module(f"hyverif.props.{p}")
    except ModuleNotFoundError:
        continue
    s = core.Src('/repo', canon=bool(getattr(m, "CANON", False)))
    ctx = core.Ctx(p.upper(), lenient=bool(getattr(m, "CANON", False)) and getattr(m, "LENIENT", True))
    ctx.strict_rules = set(getattr(m, "STRICT", ()))
    ctx.src = s
    try:
        core.run_check(m, ctx, s)
    except core.Unresolved as e:
        print(p, "NEED:", e); bad += 1
    except core.AnalysisError as e:
        print(p, "AERR:", e); bad += 1
    except Exception as e:
        import traceback; traceback.print_exc(); print(p, "EXC:", e); bad += 1
    for u in ctx.unresolved:
        if u["why"].startswith(("construct not recognised", "skipped", "only ")) or u["rule"] == "NEED":
            print(p, u["rule"], u["key"][:110], "::", u["why"][:120]); bad += 1
    for f in ctx.findings:
        if f.ident() not in core.known_for(p.upper()):
            print(p, "FINDING", f.ident()[:140]); bad += 1
print("not decided today:", bad)
sys.exit(1 if bad else 0)
