"""E8: hash-order taint.  Finds every expression of (Python) set type in the given
modules and classifies each use as order-insensitive, order-sensitive (a report)
or unresolved.  Also finds per-process entropy sources (id/hash/time/random/...)
used outside membership contexts."""
from __future__ import annotations

import ast

from .pysrc import FUNC, dotted, norm, parents

SET_RETURNING_METHODS = {"intersection", "union", "difference", "symmetric_difference", "copy"}
SET_SAFE_METHODS = SET_RETURNING_METHODS | {
    "add", "update", "discard", "remove", "issuperset", "issubset", "isdisjoint",
    "difference_update", "intersection_update", "symmetric_difference_update",
    "clear", "__contains__",
}
ORDER_FREE_FUNCS = {"len", "bool", "sorted", "set", "frozenset", "any", "all", "min", "max", "isinstance", "type", "id"}
ORDER_SENS_FUNCS = {"list", "tuple", "iter", "next", "enumerate", "zip", "map", "filter", "reversed", "str", "repr", "print"}
SET_ARG_SAFE_METHODS = {
    "issuperset", "issubset", "isdisjoint", "intersection", "union", "difference",
    "symmetric_difference", "difference_update", "intersection_update", "update",
}
ORDER_FREE_STMT_METHODS = {"add", "discard", "remove", "update", "pop", "setdefault", "define", "clear"}


def _is_set_literal_ctor(node):
    if isinstance(node, (ast.Set, ast.SetComp)):
        return True
    if isinstance(node, ast.Call):
        fn = dotted(node.func)
        if fn in ("set", "frozenset"):
            return True
    return False


class SetFacts:
    """Whole-package facts: which attribute names / global names / function names are set-typed."""

    def __init__(self, modules):
        self.modules = modules
        self.set_attrs = {}
        self.nonset_attrs = set()
        self.set_globals = {}  # rel -> {name}
        self.set_funcs = set()
        self._collect()

    def _collect(self):
        for m in self.modules:
            self.set_globals[m.rel] = set()
            for st in m.tree.body:
                if isinstance(st, ast.Assign) and _is_set_literal_ctor(st.value):
                    for t in st.targets:
                        if isinstance(t, ast.Name):
                            self.set_globals[m.rel].add(t.id)
            for n in ast.walk(m.tree):
                if isinstance(n, ast.Assign):
                    for t in n.targets:
                        if isinstance(t, ast.Attribute) and isinstance(t.value, ast.Name) and t.value.id in ("self", "cls"):
                            if _is_set_literal_ctor(n.value):
                                self.set_attrs.setdefault(t.attr, []).append(f"{m.rel}:{n.lineno}")
                            elif isinstance(n.value, (ast.List, ast.Dict, ast.ListComp, ast.DictComp, ast.Tuple)):
                                self.nonset_attrs.add(t.attr)
                if isinstance(n, ast.ClassDef):
                    for st in n.body:
                        if isinstance(st, ast.Assign) and _is_set_literal_ctor(st.value):
                            for t in st.targets:
                                if isinstance(t, ast.Name):
                                    self.set_attrs.setdefault(t.id, []).append(f"{m.rel}:{st.lineno}")
        # functions returning sets: fixpoint, by simple name
        changed = True
        rounds = 0
        while changed and rounds < 4:
            changed = False
            rounds += 1
            for m in self.modules:
                for q, f in m.funcs.items():
                    if f.name in self.set_funcs:
                        continue
                    typer = FuncTyper(self, m, f)
                    for n in ast.walk(f):
                        if isinstance(n, ast.Return) and n.value is not None and m.enclosing_func(n) is f:
                            if typer.is_set(n.value):
                                self.set_funcs.add(f.name)
                                changed = True
                                break


class FuncTyper:
    def __init__(self, facts, mod, func):
        self.facts = facts
        self.mod = mod
        self.func = func
        self.local_sets = set()
        self.shadowed = set()
        if func is not None:
            self._locals()

    def _locals(self):
        f = self.func
        assigns = []
        for n in ast.walk(f):
            if isinstance(n, ast.Assign):
                for t in n.targets:
                    if isinstance(t, ast.Name):
                        assigns.append((t.id, n.value))
                        self.shadowed.add(t.id)
            elif isinstance(n, ast.AnnAssign) and isinstance(n.target, ast.Name) and n.value is not None:
                assigns.append((n.target.id, n.value))
            elif isinstance(n, ast.NamedExpr):
                assigns.append((n.target.id, n.value))
            elif isinstance(n, ast.AugAssign) and isinstance(n.target, ast.Name):
                assigns.append((n.target.id, n.value))
        for _ in range(3):
            for name, val in assigns:
                if name not in self.local_sets and self.is_set(val):
                    self.local_sets.add(name)

    def is_set(self, n):
        if _is_set_literal_ctor(n):
            return True
        if isinstance(n, ast.Name):
            if n.id in self.local_sets:
                return True
            if n.id in self.facts.set_globals.get(self.mod.rel, ()) and n.id not in self.shadowed:
                return True
            return False
        if isinstance(n, ast.Attribute):
            return n.attr in self.facts.set_attrs and n.attr not in self.facts.nonset_attrs
        if isinstance(n, ast.BinOp) and isinstance(n.op, (ast.BitOr, ast.BitAnd, ast.Sub, ast.BitXor)):
            return self.is_set(n.left) or self.is_set(n.right)
        if isinstance(n, ast.IfExp):
            return self.is_set(n.body) or self.is_set(n.orelse)
        if isinstance(n, ast.BoolOp):
            return any(self.is_set(v) for v in n.values)
        if isinstance(n, ast.Call):
            if isinstance(n.func, ast.Attribute):
                if n.func.attr in SET_RETURNING_METHODS and self.is_set(n.func.value):
                    return True
                if n.func.attr in self.facts.set_funcs:
                    return True
            elif isinstance(n.func, ast.Name) and n.func.id in self.facts.set_funcs:
                return True
        return False


def _order_free_consumer(call, arg):
    """Is `call` a consumer whose result does not depend on the iteration order of `arg`?"""
    if not isinstance(call, ast.Call):
        return False
    fn = dotted(call.func)
    if fn in ORDER_FREE_FUNCS and any(a is arg for a in call.args):
        return True
    if isinstance(call.func, ast.Attribute) and call.func.attr in SET_ARG_SAFE_METHODS and any(a is arg for a in call.args):
        if call.func.attr == "update":
            return "set-or-dict-update"
        return True
    return False


def _order_free_body(stmts):
    for st in stmts:
        if isinstance(st, ast.Expr) and isinstance(st.value, ast.Call) and isinstance(st.value.func, ast.Attribute):
            if st.value.func.attr in ORDER_FREE_STMT_METHODS:
                continue
            return False
        if isinstance(st, ast.If):
            if _order_free_body(st.body) and _order_free_body(st.orelse):
                continue
            return False
        if isinstance(st, (ast.Pass, ast.Continue)):
            continue
        return False
    return True


def classify_use(typer, e):
    """-> (verdict, how) with verdict in ok / report / unresolved."""
    p = getattr(e, "_parent", None)
    if p is None:
        return "unresolved", "no parent"
    if isinstance(p, ast.Compare):
        return "ok", "comparison/membership"
    if isinstance(p, ast.Attribute) and p.value is e:
        gp = getattr(p, "_parent", None)
        if isinstance(gp, ast.Call) and gp.func is p:
            if p.attr in SET_SAFE_METHODS:
                return "ok", f".{p.attr}()"
            if p.attr == "pop":
                return "report", "set.pop() returns a hash-order-dependent element"
            return "unresolved", f"method .{p.attr}()"
        return "unresolved", f"attribute .{p.attr}"
    if isinstance(p, ast.Call):
        if any(a is e for a in p.args):
            fn = dotted(p.func)
            of = _order_free_consumer(p, e)
            if of:
                return "ok", f"order-free consumer {fn}"
            if fn in ORDER_SENS_FUNCS:
                gp = getattr(p, "_parent", None)
                if isinstance(gp, ast.Call) and _order_free_consumer(gp, p):
                    return "ok", f"{fn}() of a set, consumed by order-free {dotted(gp.func)}"
                return "report", f"{fn}() of a set yields hash order"
            if isinstance(p.func, ast.Attribute) and p.func.attr in ("join", "extend", "extendleft", "fromkeys"):
                return "report", f".{p.func.attr}() of a set yields hash order"
            if fn and (fn.startswith("asty.") or fn.startswith("ast.")):
                return "report", f"a set is stored in AST node {fn}"
            return "unresolved", f"argument of {fn}"
    if isinstance(p, ast.keyword):
        call = getattr(p, "_parent", None)
        fn = dotted(call.func) if isinstance(call, ast.Call) else None
        if fn and (fn.startswith("asty.") or fn.startswith("ast.")):
            return "report", f"a set is stored in field {p.arg} of {fn}"
        return "unresolved", f"keyword {p.arg} of {fn}"
    if isinstance(p, ast.Starred):
        return "report", "unpacking a set yields hash order"
    if isinstance(p, ast.comprehension) and p.iter is e:
        comp = getattr(p, "_parent", None)
        if isinstance(comp, ast.SetComp):
            return "ok", "set comprehension over a set"
        gp = getattr(comp, "_parent", None)
        if isinstance(gp, ast.Call):
            of = _order_free_consumer(gp, comp)
            if of:
                return "ok", f"comprehension consumed by order-free {dotted(gp.func)}"
        return "report", f"{type(comp).__name__} over a set yields hash order"
    if isinstance(p, (ast.For, ast.AsyncFor)) and p.iter is e:
        if _order_free_body(p.body):
            return "ok", "for-loop with order-free body"
        return "report", "for-loop over a set runs in hash order"
    if isinstance(p, ast.Assign) and any(isinstance(t, ast.Subscript) and isinstance(t.slice, ast.Slice) for t in p.targets):
        return "report", "slice assignment from a set fills the list in hash order"
    if isinstance(p, (ast.Assign, ast.AnnAssign, ast.AugAssign, ast.NamedExpr, ast.Return)):
        return "ok", "propagated by typing"
    if isinstance(p, ast.BoolOp) or (isinstance(p, ast.UnaryOp) and isinstance(p.op, ast.Not)):
        gp = getattr(p, "_parent", None)
        return "ok", "truthiness"
    if isinstance(p, (ast.If, ast.While, ast.IfExp, ast.Assert)) and getattr(p, "test", None) is e:
        return "ok", "truthiness"
    if isinstance(p, ast.IfExp):
        return "ok", "propagated by typing"
    if isinstance(p, ast.BinOp):
        return "ok", "set algebra"
    if isinstance(p, ast.Expr):
        return "ok", "discarded"
    if isinstance(p, (ast.FormattedValue, ast.JoinedStr)):
        return "report", "formatting a set prints hash order"
    if isinstance(p, (ast.YieldFrom,)):
        return "report", "yield from a set yields hash order"
    if isinstance(p, ast.comprehension):
        return "ok", "condition"
    return "unresolved", f"use in {type(p).__name__}"


def scan_module(facts, mod):
    """Yield (func_qual, node, verdict, how) for every set-typed expression use."""
    seen = set()
    units = list(mod.funcs.items())
    # top-level functions only (nested closures are walked with their parent)
    tops = [(q, f) for q, f in units if not isinstance(getattr(f, "_parent", None), FUNC)
            and not any(isinstance(pp, FUNC) for pp in parents(f))]
    module_typer = FuncTyper(facts, mod, None)
    covered = set()
    for q, f in tops:
        typer = FuncTyper(facts, mod, f)
        for n in ast.walk(f):
            covered.add(id(n))
            if isinstance(n, ast.expr) and typer.is_set(n):
                v, how = classify_use(typer, n)
                yield q, n, v, how
    for n in ast.walk(mod.tree):
        if id(n) in covered:
            continue
        if isinstance(n, ast.expr) and module_typer.is_set(n):
            v, how = classify_use(module_typer, n)
            yield "<module>", n, v, how


ENTROPY_CALLS = {
    "id", "hash", "time.time", "time.time_ns", "time.monotonic", "time.perf_counter",
    "random.random", "random.randint", "random.choice", "random.shuffle", "random.sample",
    "os.urandom", "os.getpid", "uuid.uuid4", "uuid.uuid1", "object.__hash__",
    "datetime.now", "datetime.datetime.now", "os.times", "threading.get_ident",
    "secrets.token_hex", "os.listdir", "os.scandir", "glob.glob",
}
MEMBERSHIP_METHODS = {"add", "remove", "discard", "__contains__"}


def scan_entropy(mod):
    for n in ast.walk(mod.tree):
        if isinstance(n, ast.Call):
            fn = dotted(n.func)
            if fn in ENTROPY_CALLS:
                p = getattr(n, "_parent", None)
                ok = False
                how = ""
                if isinstance(p, ast.Compare):
                    ok, how = True, "membership/comparison"
                elif isinstance(p, ast.Call) and isinstance(p.func, ast.Attribute) and p.func.attr in MEMBERSHIP_METHODS:
                    ok, how = True, f".{p.func.attr}()"
                elif isinstance(p, ast.Assign) and len(p.targets) == 1 and isinstance(p.targets[0], ast.Name):
                    # bound to a local: every use of that local must itself be a membership use
                    v = p.targets[0].id
                    f = p
                    while f is not None and not isinstance(f, FUNC):
                        f = getattr(f, "_parent", None)
                    uses = [x for x in ast.walk(f) if isinstance(x, ast.Name) and x.id == v and isinstance(x.ctx, ast.Load)] if f is not None else []
                    def member(x):
                        q = getattr(x, "_parent", None)
                        return isinstance(q, ast.Compare) or (isinstance(q, ast.Call) and isinstance(q.func, ast.Attribute) and q.func.attr in MEMBERSHIP_METHODS and x in q.args)
                    if uses and all(member(x) for x in uses):
                        ok, how = True, f"bound to `{v}`, which is only used for membership"
                    else:
                        ok, how = None, "assigned"
                else:
                    ok, how = None, f"used in {type(p).__name__}"
                yield n, fn, ok, how
        elif isinstance(n, ast.Attribute) and dotted(n) == "os.environ":
            yield n, "os.environ", None, "environment read"
