"""C24 — f-strings (error and table clauses only): conversions, `=` debugging, brace escapes, named escapes, compilation wiring."""
import ast

from .. import compq, pyq, readerq
from ..pysrc import dotted, fold, norm, flat
from ..readerq import HR
from .c19 import check as _c19  # noqa: F401  (EOF clauses are decided under C19)


def check(ctx, src):
    ctx.rule("FS-CONV", "compile_fcomponent accepts exactly the conversions None s r a (else a Hy syntax error) and maps them to -1 / ord(c)")
    ctx.rule("FS-DEBUG", "`=` emits the verbatim field text before the value and adds conversion r exactly when there is no explicit conversion and no `:` format spec at all")
    ctx.rule("FS-BRACES", "`{{` and `}}` are literal braces, a single `}` is an error, `\\N{…}` is skipped as a named escape only in non-raw strings, a `{` otherwise starts a field")
    ctx.rule("FS-FIELD", "a field ends at `}` (after optional spaces, `=`, `!c`, `:spec`); the spec is read as nested f-string components; malformed endings raise reader errors (EOF cases: C19)")
    ctx.rule("FS-COMPILE", "FormattedValue gets the compiled value (force_expr), the conversion code and a JoinedStr of the spec components; adjacent literal strings of an FString are joined")
    rq = readerq.Reader(src)
    comp = compq.Compiler(src)
    cf = comp.cp.func("HyASTCompiler.compile_fcomponent")
    ctx.require(cf is not None, "compile_fcomponent not found")
    g = pyq.contains(cf, lambda n: isinstance(n, ast.If) and "fcomponent.conversion not in" in norm(n.test))
    ok = g is not None and set(fold(g.test.comparators[0])) == {None, "s", "r", "a"} and "_syntax_error" in norm(g.body[0])
    ctx.check(ok, "FS-CONV", f"{compq.CP}|compile_fcomponent|allowed", "the accepted conversion characters are not exactly None, s, r, a (or the rejection is not a Hy syntax error)", compq.CP, cf.lineno,
              witness='f"{x !z}" compiles with conversion 122 -> ValueError from compile()', detail="None s r a")
    cv = pyq.contains(cf, lambda n: isinstance(n, ast.Assign) and norm(n.targets[0]) == "conversion")
    ctx.check(cv is not None and norm(cv.value) == "ord(fcomponent.conversion) if fcomponent.conversion else -1", "FS-CONV", f"{compq.CP}|compile_fcomponent|code", "conversion code must be ord(c) or -1", compq.CP, cf.lineno, detail="ord(c) / -1")
    node = pyq.contains(cf, lambda n: isinstance(n, ast.Call) and isinstance(n.func, ast.IfExp) and "asty.FormattedValue" in norm(n.func))
    kw = {k.arg: norm(k.value) for k in node.keywords if k.arg} if node is not None else {}
    ctx.check(kw == {"value": "value.force_expr", "conversion": "conversion", "format_spec": "spec"}, "FS-COMPILE", f"{compq.CP}|compile_fcomponent|fields", f"FormattedValue fields are {kw}", compq.CP, cf.lineno, detail=str(kw))
    sp = pyq.contains(cf, lambda n: isinstance(n, ast.If) and norm(n.test) == "elts")
    ctx.check(sp is not None and norm(sp.body[0]) == "spec = asty.JoinedStr(fcomponent, values=elts)" and norm(sp.orelse[0]) == "spec = None", "FS-COMPILE", f"{compq.CP}|compile_fcomponent|spec", "the format spec must be a JoinedStr of the remaining components, or None", compq.CP, cf.lineno, detail="JoinedStr / None")
    split = pyq.contains(cf, lambda n: isinstance(n, ast.Assign) and norm(n) == "root, *rest = fcomponent")
    ctx.check(split is not None, "FS-COMPILE", f"{compq.CP}|compile_fcomponent|value-then-spec", "the first child is the value, the rest the spec", compq.CP, cf.lineno, detail="root, *rest")
    fs = src.py("hy/models.py").func("FString.__new__")
    ctx.require(fs is not None, "FString.__new__ not found")
    t = flat(fs)
    ctx.check("groupby(s, lambda x: isinstance(x, String))" in t and "[reduce(operator.add, components)] if is_string else components" in t, "FS-COMPILE", "hy/models.py|FString.__new__|join", "adjacent String components are no longer joined", "hy/models.py", fs.lineno, detail="groupby + reduce(add)")
    # --- reader: field
    rf = rq.methods["read_fcomponent"][1]
    b = rf.body
    tx = [norm(s) for s in b]
    fmt = next((s for s in b if isinstance(s, ast.If) and norm(s.test) == "self.peek_and_getc(':')"), None)
    ctx.require(fmt is not None, "read_fcomponent: format-spec branch not found")
    dbg = [s for s in fmt.orelse if isinstance(s, ast.If) and norm(s.test) == "has_debug and conversion is None"]
    ctx.check(len(dbg) == 1 and norm(dbg[0].body[0]) == "conversion = 'r'" and not pyq.contains(fmt.body, lambda n: isinstance(n, ast.Assign) and norm(n.targets[0]) == "conversion"), "FS-DEBUG", f"{HR}|read_fcomponent|implicit r",
              "the implicit `!r` of `=` must be added exactly in the branch without any `:` (not merely when the spec is empty)", HR, fmt.lineno, witness='f"{s =:}" gives s=\'a\' instead of s=a', detail="else-branch of peek_and_getc(':')")
    others = [n for n in ast.walk(rf) if isinstance(n, ast.Assign) and norm(n.targets[0]) == "conversion" and n not in [dbg[0].body[0]] + []] if dbg else []
    ctx.check(sorted(norm(o.value) for o in others) == ["None", "self.getc()"], "FS-DEBUG", f"{HR}|read_fcomponent|conversion sources", f"conversion is assigned from {[norm(o.value) for o in others]}", HR, rf.lineno, detail="None; getc() after '!'")
    dp = pyq.contains(rf, lambda n: isinstance(n, ast.If) and norm(n.test) == "self.peek_and_getc('=')")
    ctx.check(dp is not None and "dbg_prefix = space_before + form_text + space_between + '=' + space_after" in [norm(s) for s in dp.body] and "values.append(self.fill_pos(String(dbg_prefix), start))" in [norm(s) for s in dp.body], "FS-DEBUG",
              f"{HR}|read_fcomponent|verbatim text", "`=` must emit the field text verbatim (with its surrounding spaces) before the value", HR, rf.lineno, detail="space_before + form_text + space_between + '=' + space_after")
    sav = pyq.contains(rf, lambda n: isinstance(n, ast.With) and "self.saving_chars() as form_text" in norm(n) and norm(n.body[0]) == "model = self.parse_one_form()")
    ctx.check(sav is not None, "FS-FIELD", f"{HR}|read_fcomponent|one form", "a field holds exactly one form, read with its text saved", HR, rf.lineno, detail="with saving_chars(): parse_one_form()")
    ctx.check(pyq.contains(fmt.body, lambda n: isinstance(n, ast.Assign) and norm(n) == "format_components = self.read_fcomponents_until(component_closing, prefix, 'f')") is not None, "FS-FIELD", f"{HR}|read_fcomponent|nested spec",
              "the format spec must be read as nested f-string components up to `}`", HR, fmt.lineno, detail="read_fcomponents_until(component_closing, prefix, 'f')")
    junk = pyq.contains(fmt.orelse, lambda n: isinstance(n, ast.Raise) and "trailing junk in field" in norm(n))
    ctx.check(junk is not None, "FS-FIELD", f"{HR}|read_fcomponent|junk", "anything but `}` after the field must be a LexException", HR, fmt.lineno, detail="trailing junk")
    fc = pyq.contains(rf, lambda n: isinstance(n, ast.Call) and dotted(n.func) == "FComponent")
    kw = {k.arg: norm(k.value) for k in fc.keywords} if fc is not None else {}
    ctx.check(fc is not None and norm(fc.args[0]) == "(model, *format_components)" and kw == {"conversion": "conversion", "expression": "form_text", "is_tstring": "fstring_mode == 't'"}, "FS-FIELD", f"{HR}|read_fcomponent|component",
              f"FComponent is built with {kw}", HR, rf.lineno, detail="(model, *spec), conversion, expression, is_tstring")
    # --- braces
    rc = rq.methods["read_chars_until"][1]
    t = flat(rc)
    ctx.check("if 'r' not in prefix and s[-3:] == ['\\\\', 'N', '{']: in_named_escape = True" in t, "FS-BRACES", f"{HR}|read_chars_until|named escape", "`\\N{` starts a named escape only in non-raw strings", HR, rc.lineno,
              witness='rf"\\N{x}" keeps the text \\N{x} instead of evaluating x', detail="'r' not in prefix and s[-3:] == \\N{")
    ctx.check("elif not self.peek_and_getc('{'): s.pop() break" in t, "FS-BRACES", f"{HR}|read_chars_until|open brace", "`{{` is a literal brace; a single `{` ends the literal chunk and starts a field", HR, rc.lineno, detail="{{ vs {")
    ctx.check("elif not self.peek_and_getc('}'): raise SyntaxError" in t and "if in_named_escape: in_named_escape = False" in t, "FS-BRACES", f"{HR}|read_chars_until|close brace", "`}}` is a literal brace; a single `}` is an error unless it closes a named escape", HR, rc.lineno, detail="}} vs }")
    ru = rq.methods["read_fcomponents_until"][1]
    lp = next((s for s in ru.body if isinstance(s, ast.While)), None)
    tl = [norm(s) for s in lp.body] if lp else []
    ctx.check(tl == ["(s, closed) = self.read_chars_until(closing, prefix, fstring_mode=fstring_mode)", "if s: components.append(self.fill_pos(String(s), start))", "if closed: break", "components.extend(self.read_fcomponent(prefix, fstring_mode))"] or
              tl == ["s, closed = self.read_chars_until(closing, prefix, fstring_mode=fstring_mode)", "if s: components.append(self.fill_pos(String(s), start))", "if closed: break", "components.extend(self.read_fcomponent(prefix, fstring_mode))"],
              "FS-FIELD", f"{HR}|read_fcomponents_until|alternation", f"component loop is {tl}", HR, ru.lineno, detail="text chunk; stop if closed; else a field")
    ctx.assume("the evaluated string of an f-string is Python's FormattedValue/JoinedStr semantics and is not decided")
    ctx.floor("FS-FIELD", 4)


SELFTESTS = [
    dict(name="implicit r when spec empty", file=HR, rule="FS-DEBUG", key="implicit r", edits=[
        ("        else:\n            if has_debug and conversion is None:\n                conversion = \"r\"\n", "        else:\n"),
        ("        return values + [\n            self.fill_pos(FComponent(", "        if has_debug and conversion is None and not format_components:\n            conversion = \"r\"\n        return values + [\n            self.fill_pos(FComponent(")]),
    dict(name="named escape in raw", file=HR, old='                    if "r" not in prefix and s[-3:] == ["\\\\", "N", "{"]:', new='                    if s[-3:] == ["\\\\", "N", "{"]:', rule="FS-BRACES", key="named escape"),
    dict(name="conversion z allowed", file=compq.CP, old="if fcomponent.conversion not in (None, 's', 'r', 'a'):", new="if fcomponent.conversion not in (None, 's', 'r', 'a', 'z'):", rule="FS-CONV", key="allowed"),
    dict(name="spec dropped", file=compq.CP, old="            spec = asty.JoinedStr(fcomponent, values=elts)", new="            spec = None", rule="FS-COMPILE", key="spec"),
]
