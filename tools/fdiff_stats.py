#!/venv/bin/python
"""For every patch under seeded/ and neutral/: which reviewed functions change, by how many canonical statements."""
import concurrent.futures as cf, glob, os, shutil, subprocess, sys, tempfile, json
sys.path.insert(0, "/verif")
def one(d):
    name = os.path.basename(d.rstrip("/"))
    tmp = tempfile.mkdtemp(prefix="hyfd-", dir="/tmp")
    try:
        subprocess.run(["rsync", "-a", "--exclude", ".git", "--exclude", "__pycache__", "/repo/hy", tmp + "/"], check=True)
        r = subprocess.run(["git", "apply", os.path.join(d, "patch.diff")], cwd=tmp, capture_output=True, text=True)
        if r.returncode:
            r = subprocess.run(["patch", "-p1", "-s", "-i", os.path.join(d, "patch.diff")], cwd=tmp, capture_output=True, text=True)
        out = subprocess.run(["/venv/bin/python", "-c", """
import sys, glob, os
sys.path.insert(0, '/verif')
from hyverif import core, fdiff
root = sys.argv[1]
src = core.Src(root, canon=True)
res = []
for p in sorted(glob.glob(os.path.join(root, 'hy/**/*.py'), recursive=True)):
    rel = os.path.relpath(p, root)
    try: m = src.py(rel)
    except Exception as e:
        print('ERR', rel, e); continue
    rev = fdiff.reviewed().get(rel, {})
    for q, f in m.funcs.items():
        d = fdiff.distance(rel, q, f)
        if d is None: res.append((q, 'new', 0))
        elif d[0]: res.append((q, d[0], d[1]))
    for q in rev:
        if q not in m.funcs: res.append((q, 'gone', len(rev[q])))
print(res)
""", tmp], capture_output=True, text=True).stdout.strip()
    finally:
        shutil.rmtree(tmp, ignore_errors=True)
    return d.split("/")[-3] if False else name, out
for D in sys.argv[1:] or ["seeded", "neutral"]:
    dirs = sorted(glob.glob(f"/verif/{D}/*/"))
    with cf.ThreadPoolExecutor(8) as ex:
        for name, out in ex.map(one, dirs):
            print(D, name, out[:300])
