"""CLI: python -m hyverif <ID>|all|selftest [--tier quick|thorough]

exit 0 = held (KNOWN-FINDING lines allowed), 1 = VIOLATION, 2 = ANALYSIS-ERROR.
"""
import argparse
import importlib
import os
import sys

from . import core


def load(prop):
    try:
        return importlib.import_module(f"hyverif.props.{prop.lower()}")
    except ModuleNotFoundError as e:
        if e.name and e.name.endswith(prop.lower()):
            return None
        raise


def run_one(prop, tier, seed, src=None, write=True, out=sys.stdout):
    mod = load(prop)
    if mod is None:
        print(f"ANALYSIS-ERROR property={prop} no check is built for this property", file=out)
        return 2, None

    def fn(ctx, s):
        core.run_check(mod, ctx, s)
        if tier == "thorough":
            from . import selfval

            selfval.run(prop, mod, ctx, s)

    src = (src or core.Src(core.REPO)).variant(bool(getattr(mod, "CANON", False)))
    # a runaway analysis must end as an analysis error, never hang the caller
    import signal

    def _alarm(signum, frame):
        raise core.AnalysisError(f"the analysis of {prop} did not finish within its time budget")

    limit = 300 if tier == "thorough" else 120
    old = signal.signal(signal.SIGALRM, _alarm)
    signal.alarm(limit)
    try:
        return core.run_property(prop, fn, tier, seed, src=src, write=write, out=out, mod=mod)
    finally:
        signal.alarm(0)
        signal.signal(signal.SIGALRM, old)


def main(argv=None):
    ap = argparse.ArgumentParser(prog="hyverif")
    ap.add_argument("prop")
    ap.add_argument("--tier", default="quick", choices=["quick", "thorough"])
    ap.add_argument("--repo", default=None)
    ap.add_argument("--no-write", action="store_true")
    a = ap.parse_args(argv)
    tier = os.environ.get("VERIF_TIER") or a.tier
    if tier not in ("quick", "thorough"):
        tier = a.tier
    try:
        seed = int(os.environ.get("VERIF_SEED", "0"))
    except ValueError:
        seed = 0
    if a.repo:
        core.REPO = a.repo
    src = core.Src(core.REPO)
    if a.prop == "all" or "," in a.prop:
        worst = 0
        for p in ([f"C{i:02d}" for i in range(1, 42)] if a.prop == "all" else a.prop.upper().split(",")):
            if load(p) is None:
                continue
            st, _ = run_one(p, tier, seed, core.Src(core.REPO), write=not a.no_write)
            worst = max(worst, st)
        return worst
    st, _ = run_one(a.prop.upper(), tier, seed, src, write=not a.no_write)
    return st


if __name__ == "__main__":
    try:
        rc = main()
    except SystemExit:
        raise
    except BaseException as e:  # never let a traceback look like a violation
        print(f"ANALYSIS-ERROR hyverif crashed: {type(e).__name__}: {e}")
        rc = 2
    sys.stdout.flush()
    sys.exit(rc)
