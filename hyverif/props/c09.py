"""C09 — try/except/else/finally and with: which clause's code lands in which field, for every raise point at once."""
CANON = True
STRICT = {"TRY-EXCVAR", "TRY-ELSE", "WITH-TEMP"}

import ast

from .. import boolfn, compq, idflow, placement, pyq
from ..pysrc import dotted, norm
from .c01 import check_rtemp


def _is_assign_to(n, var):
    return isinstance(n, ast.Call) and dotted(n.func) == "asty.Assign" and any(
        k.arg == "targets" and isinstance(k.value, ast.List) and len(k.value.elts) == 1 and norm(k.value.elts[0]) == var for k in n.keywords)


def check(ctx, src):
    ctx.rule("PLACEMENT", "body / handler / else / finally statements reach Try.body / ExceptHandler.body / Try.orelse (or the body when there is no handler) / Try.finalbody and nothing else; "
             "with: first manager at top level, later managers inside the enclosing With body, body in With.body (frozen table re-derived by Result-flow)")
    ctx.rule("TRY-RETVAR", "the result variable is assigned in the body exactly when there is no else, in every handler and in else, and never in finally")
    ctx.rule("TRY-ELSE", "else is folded into the body only when there are no except clauses")
    ctx.rule("TRY-EXCVAR", "each except clause gets its own ScopeLet with a fresh reserved name for the exception variable, and its body is compiled inside that scope")
    ctx.rule("TRY-KIND", "except and except* cannot be mixed; TryStar is chosen exactly when except* was seen")
    ctx.rule("WITH-TEMP", "with initialises its temporary to None before the With statement, stores the body's value into it on every arm (also the nested ones), and does not expose it for renaming")
    ctx.rule("R-TEMP", "renameable temporaries (shared with C01)")
    comp = compq.Compiler(src)
    placement.check_placement(ctx, src, ["compile_try_expression", "compile_with_expression", "compile_raise_expression"], "PLACEMENT", comp)
    rm = comp.rm
    t = rm.func("compile_try_expression")
    ctx.require(t is not None, "compile_try_expression not found")
    R = compq.RM

    # --- else folding ---------------------------------------------------------------------------
    fold = pyq.contains(t, lambda n: isinstance(n, ast.AugAssign) and norm(n.target) == "body" and isinstance(n.value, ast.Call) and dotted(n.value.func) in ("list", "tuple") and "orelse" in norm(n.value))
    ctx.need(fold is not None, "compile_try_expression: the else-into-body fold was not found")
    g = fold._parent
    AT = boolfn.Atoms(O="orelse is None", C="catchers")
    v, why = boolfn.decide([fold], t, AT, lambda e: (not e["O"]) and not e["C"], must_depend_on=("C",))
    ctx.decide_tt("TRY-ELSE", f"{R}|compile_try_expression|fold-guard", v, f"else forms are appended to the body under another condition than `else present and no except clause` ({why}); "
               "otherwise an exception raised in else is caught by this try's own handlers", R, fold.lineno,
               witness="(try 1 (except [ValueError] \"caught\") (else (raise (ValueError))))", detail="orelse is not None and not catchers")
    reset = isinstance(g, ast.If) and any(norm(s) == "orelse = None" for s in g.body)
    ctx.check(reset, "TRY-ELSE", f"{R}|compile_try_expression|fold-reset", "after folding, orelse must be cleared (else the forms run twice)", R, fold.lineno, detail="orelse = None")

    # --- return variable ---------------------------------------------------------------------------
    rv = pyq.contains(t, lambda n: isinstance(n, ast.Assign) and isinstance(n.targets[0], ast.Name) and isinstance(n.value, ast.Call) and dotted(n.value.func) == "asty.Name"
                      and "get_anon_var" in norm(n.value))
    ctx.need(rv is not None, "compile_try_expression: result variable not found")
    var = rv.targets[0].id
    sites = {}
    for n in ast.walk(t):
        if isinstance(n, ast.AugAssign) and isinstance(n.target, ast.Name):
            if pyq.contains(n.value, lambda x: _is_assign_to(x, var)) is not None:
                sites.setdefault(n.target.id, []).append(n)
    ctx.check("ebody" in sites or any(k for k in sites if k not in ("body", "orelse", "finalbody")), "TRY-RETVAR", f"{R}|compile_try_expression|handler-assign",
              "handlers no longer store their value in the result variable", R, t.lineno, witness="(try (raise E) (except [E] 5)) returns None", detail="ebody += Assign(return_var)")
    ctx.check("orelse" in sites, "TRY-RETVAR", f"{R}|compile_try_expression|else-assign", "else no longer stores its value in the result variable", R, t.lineno,
              witness="(try 1 (except [E] 2) (else 3)) returns 1", detail="orelse += Assign(return_var)")
    ctx.check("finalbody" not in sites, "TRY-RETVAR", f"{R}|compile_try_expression|no-finally-assign", "finally stores into the result variable: try would return finally's value",
              R, t.lineno, witness="(try 1 (finally 2)) returns 2", detail="no Assign(return_var) in finalbody")
    b = sites.get("body", [])
    okb = False
    if len(b) == 1 and isinstance(b[0].value, ast.IfExp):
        v = b[0].value
        okb = norm(v.test) == "orelse" and "expr_as_stmt" in norm(v.body) and _is_assign_to(v.orelse, var) and "body.force_expr" in norm(v.orelse)
    ctx.check(okb, "TRY-RETVAR", f"{R}|compile_try_expression|body-assign", "the body must store its value exactly when there is no else clause (with else, its value is discarded as a statement)",
              R, t.lineno, witness="(try 1 (except [E] 2)) returns None / (try 1 (except [E] 2) (else 3)) returns 1", detail="expr_as_stmt() if orelse else Assign(return_var, body value)")
    for k, ns in sites.items():
        for n in ns:
            call = pyq.contains(n.value, lambda x: _is_assign_to(x, var))
            val = next((kw.value for kw in call.keywords if kw.arg == "value"), None)
            ctx.check(val is not None and norm(val) == f"{k}.force_expr", "TRY-RETVAR", f"{R}|compile_try_expression|{k} stores own value",
                      f"`{k}` stores `{norm(val) if val is not None else None}` instead of its own value", R, n.lineno, detail=f"{k}.force_expr")

    # --- except variable scope -------------------------------------------------------------------------
    loop = next((n for n in pyq.walk_no_nested(t) if isinstance(n, ast.For) and norm(n.iter) == "catchers"), None)
    ctx.need(loop is not None, "compile_try_expression: handler loop not found")
    w = next((n for n in ast.walk(loop) if isinstance(n, ast.With) and any("scope.create(ScopeLet)" in norm(i.context_expr) for i in n.items)), None)
    outside = [n for n in pyq.walk_no_nested(t) if isinstance(n, (ast.With, ast.Assign)) and "scope.create(ScopeLet)" in norm(n) and not any(n is x for x in ast.walk(loop))]
    ctx.decide("TRY-EXCVAR", f"{R}|compile_try_expression|scope-per-handler", w is not None and not outside,
              "the ScopeLet for the except variable is not created afresh inside the handler loop: one handler's renaming stays active in later handlers",
              R, loop.lineno, witness="(try … (except [e KeyError] …) (except [ValueError] (print e))) : `e` of the outer scope is renamed to the hidden variable of the first handler",
              detail="with compiler.scope.create(ScopeLet) inside the loop")
    if w is not None:
        inside = pyq.contains(w.body, lambda n: isinstance(n, ast.Call) and isinstance(n.func, ast.Attribute) and n.func.attr == "_compile_branch")
        ctx.check(inside is not None, "TRY-EXCVAR", f"{R}|compile_try_expression|body-in-scope", "the handler body is compiled outside the except variable's scope", R, w.lineno,
                  witness="(except [e E] e) refers to an unbound outer `e`", detail="_compile_branch(ebody) inside the with")
        add = pyq.contains(w.body, lambda n: isinstance(n, ast.Call) and isinstance(n.func, ast.Attribute) and n.func.attr == "add" and len(n.args) == 2)
        ctx.check(add is not None and "get_anon_var" in norm(add.args[1]), "TRY-EXCVAR", f"{R}|compile_try_expression|fresh-name", "the except variable is not renamed to a fresh reserved name",
                  R, w.lineno, witness="a same-named outer variable is clobbered and then deleted by Python at the end of the handler", detail=norm(add) if add else "")
    eh = pyq.contains(loop, lambda n: isinstance(n, ast.Call) and dotted(n.func) == "asty.ExceptHandler")
    ctx.need(eh is not None, "ExceptHandler construction not found")
    kw = {k.arg: norm(k.value) for k in eh.keywords}
    ctx.check(str(kw.get("type", "")).endswith(".expr") and isinstance(kw.get("name").node if kw.get("name") is not None else None, ast.Name) and ".stmts" in str(kw.get("body", "")), "TRY-EXCVAR", f"{R}|compile_try_expression|handler-fields",
              f"ExceptHandler fields are {kw}", R, eh.lineno, detail=str(kw), strict=False)

    # --- kinds ---------------------------------------------------------------------------------------------
    excl = pyq.contains(loop, lambda n: isinstance(n, ast.If) and norm(n.test) == "len(except_syms_seen) > 1" and "_syntax_error" in norm(n))
    ctx.check(excl is not None, "TRY-KIND", f"{R}|compile_try_expression|exclusive", "mixing except and except* is no longer rejected", R, loop.lineno, detail="syntax error")
    node = pyq.contains(t, lambda n: isinstance(n, ast.IfExp) and {norm(n.body), norm(n.orelse)} == {"asty.TryStar", "asty.Try"})
    ctx.check(node is not None and norm(node.test) == "'except*' in except_syms_seen" and norm(node.body) == "asty.TryStar", "TRY-KIND", f"{R}|compile_try_expression|node-choice",
              "TryStar must be chosen exactly when except* was seen", R, t.lineno, detail="TryStar if 'except*' seen else Try")
    early = pyq.contains(t, lambda n: isinstance(n, ast.If) and norm(n.test) == "not (catchers or finalbody)" and n.body and isinstance(n.body[-1], ast.Return) and norm(n.body[-1].value) == "body")
    ctx.check(early is not None, "TRY-KIND", f"{R}|compile_try_expression|bare-try", "a try with neither except nor finally must compile like `do`", R, t.lineno, detail="returns body")

    # --- with ---------------------------------------------------------------------------------------------------
    wf = rm.func("compile_with_expression")
    ctx.require(wf is not None, "compile_with_expression not found")
    body = wf.body
    init = pyq.contains(wf, lambda n: isinstance(n, ast.Assign) and norm(n.targets[0]) == "initial_assign")
    ret0 = pyq.contains(wf, lambda n: isinstance(n, ast.Assign) and norm(n.targets[0]) == "ret" and norm(n.value) == "Result(stmts=[initial_assign])")
    ok = init is not None and _is_assign_to(init.value, "name") and "asty.Constant(expr, value=None)" in norm(init.value) and ret0 is not None
    ctx.check(ok, "WITH-TEMP", f"{R}|compile_with_expression|init-none", "the temporary is not initialised to None as the first emitted statement", R, wf.lineno,
              witness="a with whose manager suppresses an exception leaves its result variable unbound: NameError instead of None", detail="ret = Result(stmts=[name = None])", strict=False)
    # the two assignments to the result temporary that `with` emits - `tmp = None` before everything, `tmp = <body value>` as
    # the last statement of the innermost body - are built unconditionally (every arm of the nesting logic needs both)
    def _assign_calls(pred):
        return [c for c in pyq.calls(wf) if dotted(c.func) == "asty.Assign" and pred(next((k.value for k in c.keywords if k.arg == "value"), None))]
    inits = _assign_calls(lambda v: isinstance(v, ast.Call) and dotted(v.func) == "asty.Constant" and any(k.arg == "value" and isinstance(k.value, ast.Constant) and k.value.value is None for k in v.keywords))
    stores = _assign_calls(lambda v: isinstance(v, ast.Attribute) and v.attr == "force_expr")
    for what, sites, wit in (("init-unconditional", inits, "a with nested because of a later statement-bearing manager leaves its result unbound when an outer manager suppresses an exception raised while computing the later manager"),
                             ("store-unconditional", stores, "(with [a (A) b (do (s) (B))] (+ a b)) returns None")):
        cond = [c for c in sites if [g for g in pyq.guards(c, wf, siblings=False)]]
        ctx.decide("WITH-TEMP", f"{R}|compile_with_expression|{what}", None if not sites else not cond,
                   f"the assignment `{norm(cond[0])[:60] if cond else ''}` of the with's result temporary is built only under {[str(norm(t_)) for t_, _ in pyq.guards(cond[0], wf, siblings=False)] if cond else []}; it is needed on every arm",
                   R, (cond[0].lineno if cond else wf.lineno), witness=wit, detail="unconditional", robust=True)
    store = [n for n in wf.body if isinstance(n, ast.AugAssign) and norm(n.target) == "cbody" and _is_assign_to(n.value, "name")]
    node_i = next((i for i, n in enumerate(wf.body) if isinstance(n, ast.AugAssign) and norm(n.target) == "ret" and "body=cbody.stmts" in norm(n.value)), None)
    ok = len(store) == 1 and node_i is not None and wf.body.index(store[0]) < node_i and "cbody.force_expr" in norm(store[0].value)
    ctx.check(ok, "WITH-TEMP", f"{R}|compile_with_expression|store-every-arm",
              "the body's value is not stored into the temporary unconditionally before the With is built: on the nested arms (statement-bearing later manager, mixed sync/async) the form returns None",
              R, wf.lineno, witness="(with [a (nullcontext 1) b (do (setv z 0) (nullcontext 2))] (+ a b)) returns None", detail="cbody += Assign(name, cbody value) at top level", strict=False)
    exposes = [n for n in ast.walk(wf) if (isinstance(n, ast.keyword) and n.arg == "temp_variables" and not (isinstance(n.value, (ast.List, ast.Tuple)) and not n.value.elts))
               or (isinstance(n, ast.Assign) and isinstance(n.targets[0], ast.Attribute) and n.targets[0].attr == "temp_variables" and not (isinstance(n.value, ast.List) and not n.value.elts))]
    ctx.decide("WITH-TEMP", f"{R}|compile_with_expression|not-renameable", not exposes,
               "with exposes its temporary for renaming although it initialises it before the managers are evaluated", R, wf.lineno,
               witness="(setv x 1) (setv x (with [c (f x)] ...)): the initial `x = None` clobbers x before (f x) is evaluated", detail="no temp_variables")
    # a manager's own statements may be placed at the level of the `with` only for the first manager (later managers are
    # evaluated after the earlier ones were entered); decided on the truth table of the conditions around `ret += ctx`
    lp = next((n for n in pyq.walk_no_nested(wf) if isinstance(n, ast.For)), None)
    if lp is not None and isinstance(lp.target, ast.Tuple) and len(lp.target.elts) == 2 and isinstance(lp.target.elts[0], ast.Name) and isinstance(lp.target.elts[1], ast.Tuple):
        iv = lp.target.elts[0].id
        mv = lp.target.elts[1].elts[-1].id if isinstance(lp.target.elts[1].elts[-1], ast.Name) else None
        tops = [n for n in ast.walk(lp) if isinstance(n, ast.AugAssign) and isinstance(n.target, ast.Name) and isinstance(n.value, ast.Name) and n.value.id == mv]
        ATW = boolfn.Atoms(Z=f"{iv} == 0", N=f"isinstance({mv}, Result)")
        v, why = boolfn.decide(tops, wf, ATW, lambda e: e["Z"] and not e["N"], must_depend_on=("Z",), ignore=("was_async is None", "is_async != was_async", "is_async == was_async", "was_async is not None"))
        ctx.decide_tt("WITH-TEMP", f"{R}|compile_with_expression|first-manager-only", v, f"the statements of a manager expression are placed in front of the whole `with` under another condition than `first manager` ({why}): "
                   "a later manager's statements then run before the earlier managers are entered", R, wf.lineno,
                   witness="(with [_ (A) _ (do (side-effect) (B))] …): side-effect runs before A is entered and outside its protection", detail="ret += ctx only when i == 0")
    # nested arms recurse with the remaining managers and the same body, then break
    rec = [c for c in pyq.calls(wf) if dotted(c.func) == "compile_with_expression"]
    ctx.check(len(rec) == 2 and all(norm(c.args[-1]) == "body" for c in rec), "WITH-TEMP", f"{R}|compile_with_expression|nesting",
              "the two nesting arms must recurse with the remaining managers and the whole body", R, wf.lineno, detail="2 recursive calls, body passed inward", strict=False)
    for c in rec:
        st = c
        while not isinstance(st, ast.stmt):
            st = st._parent
        sibs = st._parent.body
        nxt = sibs[sibs.index(st) + 1] if sibs.index(st) + 1 < len(sibs) else None
        ctx.check(isinstance(nxt, ast.Break), "WITH-TEMP", f"{R}|compile_with_expression|break-after-nest@{norm(c.args[3])[:30]}", "after starting a nested with, the loop must stop (else managers are entered twice)",
                  R, c.lineno, detail="break", strict=False)
    check_rtemp(ctx, comp)
    ctx.floor("TRY-RETVAR", 6)


_R = compq.RM
SELFTESTS = [
    dict(name="else always folded", file=_R, old="    if orelse is not None and not catchers:", new="    if orelse is not None:", rule="TRY-ELSE", key="fold-guard"),
    dict(name="finally assigns result", file=_R, old="        finalbody += finalbody.expr_as_stmt()\n", new="        finalbody += asty.Assign(expr, targets=[return_var], value=finalbody.force_expr)\n        finalbody += finalbody.expr_as_stmt()\n",
         rule="TRY-RETVAR", key="no-finally-assign"),
    dict(name="body/handlers swapped", file=_R, old="expr, body=body, handlers=handlers, orelse=orelse, finalbody=finalbody", new="expr, body=body, handlers=handlers, orelse=finalbody, finalbody=orelse",
         rule="PLACEMENT", key="compile_try_expression"),
    dict(name="one scope for all handlers", file=_R, old="        with compiler.scope.create(ScopeLet) as scope:\n            if name:", new="        with exc_scope as scope:\n            if name:",
         rule="TRY-EXCVAR", key="scope-per-handler"),
    dict(name="with store only on plain arm", file=_R, rule="WITH-TEMP", key="store-every-arm", edits=[
        ("    if not cbody:\n        cbody = compiler._compile_branch(body)\n", "    if not cbody:\n        cbody = compiler._compile_branch(body)\n        cbody += asty.Assign(expr, targets=[name], value=cbody.force_expr)\n"),
        ("    # tempvar, which we copy into ours.\n    cbody += asty.Assign(expr, targets=[name], value=cbody.force_expr)\n", "    # tempvar, which we copy into ours.\n")]),
    dict(name="with manager in body", file=_R, old="            if i == 0:\n                ret += ctx\n            elif ctx.stmts:", new="            if i == 0:\n                pass\n            elif ctx.stmts or i == 0:",
         rule="PLACEMENT", key="compile_with_expression"),
]
