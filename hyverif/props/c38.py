"""C38 — hy.gensym: lock discipline around the shared counter, reserved prefix, mangled result."""
CANON = True
LENIENT = True   # .hy rules: a failed test is believed only for armed instances in a nearly-unchanged form (fdiff.hy_small_edit)

import re

REL = "hy/core/util.hy"
COUNTER = "_gensym_counter"
LOCK = "_gensym_lock"


def _is_method_call(n, meth, recv):
    return (n.kind == "expr" and len(n.items) >= 2 and n.items[0].is_sym("." + meth) and n.items[1].is_sym(recv))


def _inside(node, anc):
    while node is not None:
        if node is anc:
            return True
        node = node._parent
    return False


def check(ctx, src):
    ctx.rule("LOCK-REGION", "every read/write of the gensym counter other than its initialisation lies inside the region "
             "protected by the lock (acquire immediately before a try whose finally releases, or a `with` on the lock)")
    ctx.rule("LOCK-UPDATE", "the locked region both advances the counter and copies it to a function-local variable, and the "
             "symbol name is built from that local copy, not from the shared counter")
    ctx.rule("LOCK-OWNER", "the counter and the lock are referenced by no other module and the lock is created exactly once at module level")
    ctx.rule("GENSYM-NAME", "the name is a literal `_hy_gensym_` template with the argument and the counter copy, passed through hy.mangle, "
             "and the `_hyx_` fix-up re-establishes the `_hy_` prefix")
    hf = src.hy(REL)
    g = hf.defn("gensym")
    ctx.need(g is not None, "defn gensym not found in hy/core/util.hy")
    ctx.functions.add(f"{REL}:gensym")
    body = g.items[3:] if g.items[2].kind == "list" else g.items[2:]

    # --- find the protected regions, anywhere in the module (the counter may be advanced in a helper) -------------
    region = []
    how = None
    for blk_owner in hf.walk():
        if blk_owner.kind != "expr":
            continue
        items = blk_owner.items
        for i, f in enumerate(items):
            if _is_method_call(f, "acquire", LOCK):
                nxt = items[i + 1] if i + 1 < len(items) else None
                if nxt is not None and nxt.kind == "expr" and nxt.head() == "try":
                    fin = [c for c in nxt.items[1:] if c.kind == "expr" and c.head() == "finally"]
                    if fin and any(_is_method_call(x, "release", LOCK) for x in fin[0].items[1:]):
                        region += [c for c in nxt.items[1:] if not (c.kind == "expr" and c.head() in ("finally", "except", "else"))]
                        how = "acquire; try/finally release"
                        ctx.ok("LOCK-REGION", f"{REL}|{_fn_of(f)}|acquire-try-finally", "release is in the finally of the try that directly follows acquire")
                    else:
                        ctx.bad("LOCK-REGION", f"{REL}|{_fn_of(f)}|acquire-try-finally",
                                "the try following (.acquire _gensym_lock) has no finally that releases the lock", REL, f.line,
                                witness="an exception (e.g. KeyboardInterrupt) inside the region leaves the lock held; later gensym calls never return")
                        region += [c for c in nxt.items[1:]]
                else:
                    ctx.bad("LOCK-REGION", f"{REL}|{_fn_of(f)}|acquire-try-finally",
                            "(.acquire _gensym_lock) is not immediately followed by a try/finally that releases it", REL, f.line,
                            witness="an exception between acquire and release leaves the lock held")
        if blk_owner.head() == "with" and len(items) > 1 and items[1].kind == "list" and any(x.is_sym(LOCK) for x in items[1].items):
            region += items[2:]
            how = how or "with lock"
            ctx.ok("LOCK-REGION", f"{REL}|{_fn_of(blk_owner)}|with-lock", "region is the body of (with [_gensym_lock] ...)")
    if not region:
        ctx.bad("LOCK-REGION", f"{REL}|gensym|region", "no region of hy/core/util.hy is protected by _gensym_lock", REL, g.line,
                witness="two threads interleave read/increment/write of the counter and obtain the same number")

    # --- every counter reference is inside the region --------------------------
    inits = 0
    for n in hf.walk():
        if n.is_sym(COUNTER):
            par = n._parent
            top = par in hf.forms or par is None
            if par is not None and par.head() == "setv" and par in hf.forms:
                inits += 1
                continue
            key = f"{REL}|{_fn_of(n)}|{par.src()[:70] if par is not None else ''}"
            if par is not None and par.head() == "global":
                ctx.ok("LOCK-REGION", key, "declaration only", nontrivial=False)
                continue
            if any(_inside(n, r) for r in region):
                ctx.ok("LOCK-REGION", key, f"inside locked region ({how})")
            else:
                ctx.bad("LOCK-REGION", key, f"`{COUNTER}` is accessed outside the region protected by `{LOCK}`", REL, n.line,
                        witness="thread A reads the counter here while thread B is between its increment and its copy: both get the same number", local=True)
    ctx.need(inits == 1, f"expected exactly one module-level initialisation of {COUNTER}, found {inits}")

    # --- region advances the counter and copies it ----------------------------------
    advance = copyvar = None
    for r in region:
        for n in r.walk():
            if n.kind == "expr" and n.head() in ("+=",) and len(n.items) > 1 and n.items[1].is_sym(COUNTER):
                advance = n
            if n.kind == "expr" and n.head() == "setv":
                its = n.items[1:]
                for t, v in zip(its[::2], its[1::2]):
                    if t.is_sym(COUNTER) and COUNTER in v.syms():
                        advance = n
                    elif t.kind == "sym" and v.is_sym(COUNTER):
                        copyvar = t.val
    ctx.check(advance is not None, "LOCK-UPDATE", f"{REL}|gensym|advance", "the locked region never advances the counter", REL, g.line,
              witness="every call returns the same number", detail="counter advanced inside region")
    ctx.check(copyvar is not None, "LOCK-UPDATE", f"{REL}|gensym|copy", "the locked region does not copy the counter into a local", REL, g.line,
              witness="the name is built from the shared counter after release", detail=f"copied to local `{copyvar}`")
    owner = g
    if region:
        o = region[0]
        while o is not None and not (o.kind == "expr" and o.head() == "defn"):
            o = o._parent
        owner = o or g
    globs = {s.val for f in owner.find("global") for s in f.items[1:] if s.kind == "sym"}
    globs |= {s.val for f in owner.find("nonlocal") for s in f.items[1:] if s.kind == "sym"}
    if copyvar:
        ctx.check(copyvar not in globs, "LOCK-UPDATE", f"{REL}|gensym|copy-local",
                  f"the copy `{copyvar}` is declared global, so it is shared between threads", REL, g.line,
                  witness="thread B overwrites the copy before thread A formats its name", detail="copy is function-local")
        # the local must not be re-assigned outside the region
        for f in owner.find("setv"):
            its = f.items[1:]
            for t, v in zip(its[::2], its[1::2]):
                if t.is_sym(copyvar) and not any(_inside(f, r) for r in region):
                    ctx.bad("LOCK-UPDATE", f"{REL}|gensym|copy-reassigned", f"`{copyvar}` is re-assigned outside the locked region", REL, f.line)

    # --- ownership -------------------------------------------------------------
    lock_inits = [f for f in hf.find("setv") if any(t.is_sym(LOCK) for t in f.items[1::2])]
    ctx.check(len(lock_inits) == 1 and lock_inits[0] in hf.forms, "LOCK-OWNER", f"{REL}|{LOCK}|init",
              f"`{LOCK}` must be created exactly once at module level (found {len(lock_inits)} assignment(s), "
              f"{sum(1 for f in lock_inits if f in hf.forms)} at module level)", REL, lock_inits[0].line if lock_inits else 0,
              witness="a lock created per call protects nothing", detail="one module-level lock")
    if lock_inits:
        its = lock_inits[0].items[1:]
        val = dict(zip([t.val for t in its[::2] if t.kind == "sym"], its[1::2])).get(LOCK)
        is_lock = val is not None and val.kind == "expr" and val.head() in ("Lock", "RLock", "threading.Lock", "threading.RLock")
        ctx.check(is_lock, "LOCK-OWNER", f"{REL}|{LOCK}|type", f"`{LOCK}` is not a threading Lock: {val.src() if val else None}", REL,
                  lock_inits[0].line, detail="threading.Lock()")
        imports = [f for f in hf.top("import") if "threading" in f.syms() or "threading.Lock" in f.syms()]
        ctx.check(bool(imports), "LOCK-OWNER", f"{REL}|{LOCK}|import", "Lock is not imported from threading", REL, 0, detail="imported from threading")
    others = 0
    for rel in src.py_files("hy") + src.hy_files("hy"):
        if rel == REL:
            continue
        t = src.text(rel)
        for name in (COUNTER, LOCK):
            if re.search(r"(?<![\w-])" + re.escape(name) + r"(?![\w-])", t) or name.replace("_", "-") in t:
                others += 1
                ctx.bad("LOCK-OWNER", f"{rel}|{name}", f"`{name}` is referenced outside hy/core/util.hy, bypassing the lock discipline", rel, 0)
    if not others:
        ctx.ok("LOCK-OWNER", "whole-repo|references", f"no other file under hy/ mentions {COUNTER} or {LOCK}")

    # --- the name -----------------------------------------------------------------
    fmts = [n for n in g.walk() if n.kind == "expr" and n.head() == ".format"]
    ctx.need(len(fmts) >= 1, "gensym no longer builds its name with .format (anchor vanished)")
    f = fmts[0]
    tmpl = f.items[1]
    args = f.items[2:]
    param = None
    ll = g.items[2]
    if ll.kind == "list" and ll.items:
        p0 = ll.items[0]
        param = p0.items[0].val if p0.kind == "list" else p0.val
    ok_t = tmpl.kind == "str" and tmpl.val.startswith("_hy_gensym_") and tmpl.val.count("{}") == 2
    ctx.check(ok_t, "GENSYM-NAME", f"{REL}|gensym|template", f"name template {tmpl.src()} must start with `_hy_gensym_` and have two fields",
              REL, f.line, witness="(hy.gensym) no longer starts with the reserved prefix", detail=tmpl.src())
    gl = {s.val for f in g.find("global") for s in f.items[1:] if s.kind == "sym"}
    ok_a = len(args) == 2 and args[0].is_sym(param) and copyvar is not None and args[1].kind == "sym" and not args[1].is_sym(COUNTER) and args[1].val not in gl
    ctx.check(ok_a, "GENSYM-NAME", f"{REL}|gensym|fields", f"template fields must be the argument `{param}` and the counter copy `{copyvar}`, got "
              + " ".join(a.src() for a in args), REL, f.line, witness="two calls with the same argument return the same symbol", detail="fields (g, n)")
    par = f._parent
    ctx.check(par is not None and par.head() == "hy.mangle", "GENSYM-NAME", f"{REL}|gensym|mangled",
              "the formatted name is not passed through hy.mangle", REL, f.line,
              witness='(hy.gensym "a-b") is not already mangled', detail="hy.mangle applied")
    # fix-up: (if (.startswith g "_hyx_") (+ "_" (cut g (len "_hyx_") None)) g)
    # literal strings bound to locals of gensym (so that the prefix may be named)
    consts = {}
    for f2 in g.find("setv"):
        its = f2.items[1:]
        for t, v in zip(its[::2], its[1::2]):
            if t.kind == "sym" and v.kind == "str":
                consts[t.val] = v.val

    def strval(n):
        return n.val if n.kind == "str" else consts.get(n.val) if n.kind == "sym" else None

    fix = [n for n in g.walk() if n.kind == "expr" and n.head() == ".startswith" and len(n.items) > 2 and strval(n.items[2]) == "_hyx_"]
    good = None
    if fix:
        good = False
        iff = fix[0]._parent
        negated = False
        if iff is not None and iff.head() == "not":
            negated, iff = True, iff._parent
        if iff is not None and iff.head() == "if" and len(iff.items) == 4:
            then = iff.items[3] if negated else iff.items[2]
            other = iff.items[2] if negated else iff.items[3]
            cutok = (then.kind == "expr" and then.head() == "+" and then.items[1].kind == "str" and then.items[1].val == "_"
                     and then.items[2].kind == "expr" and then.items[2].head() == "cut" and len(then.items[2].items) >= 3
                     and then.items[2].items[2].kind == "expr" and then.items[2].items[2].head() == "len" and strval(then.items[2].items[2].items[1]) == "_hyx_")
            good = cutok and other.kind == "sym" and other.val == fix[0].items[1].val
    ctx.decide("GENSYM-NAME", f"{REL}|gensym|hyx-fixup", good,
              "the `_hyx_` fix-up that keeps the reserved `_hy_` prefix is missing or altered", REL, g.line,
              witness='(hy.gensym "a!") starts with `_hyx_` instead of `_hy_`', detail='"_" + g[len("_hyx_"):]')
    ctx.floor("LOCK-REGION", 4)


def _fn_of(n):
    while n is not None:
        if n.kind == "expr" and n.head() in ("defn", "defmacro") and len(n.items) > 1:
            return n.items[1].val
        n = n._parent
    return "<module>"


_G = "  (.acquire _gensym_lock)\n  (try\n    (global _gensym_counter)\n    (+= _gensym_counter 1)\n    (setv n _gensym_counter)\n    (finally (.release _gensym_lock)))"
SELFTESTS = [
    dict(name="copy after release", file=REL, old=_G,
         new="  (.acquire _gensym_lock)\n  (try\n    (global _gensym_counter)\n    (+= _gensym_counter 1)\n    (finally (.release _gensym_lock)))\n  (setv n _gensym_counter)",
         rule="LOCK-REGION", key="setv n"),
    dict(name="no finally", file=REL, old=_G,
         new="  (.acquire _gensym_lock)\n  (global _gensym_counter)\n  (+= _gensym_counter 1)\n  (setv n _gensym_counter)\n  (.release _gensym_lock)",
         rule="LOCK-REGION", key="acquire-try-finally"),
    dict(name="with-lock twin", file=REL, old=_G,
         new="  (with [_gensym_lock]\n    (global _gensym_counter)\n    (+= _gensym_counter 1)\n    (setv n _gensym_counter))", kind="twin"),
    dict(name="prefix changed", file=REL, old='"_hy_gensym_{}_{}"', new='"_hygensym_{}_{}"', rule="GENSYM-NAME", key="template"),
    dict(name="mangle dropped", file=REL, old='(setv g (hy.mangle (.format "_hy_gensym_{}_{}" g n)))', new='(setv g (.format "_hy_gensym_{}_{}" g n))',
         rule="GENSYM-NAME", key="mangled"),
]
