"""C01 — compiled code means what the program means: placement discipline of the statement-lifting transformation."""
CANON = True
STRICT = {"R-LIN-ANON", "R-LIN-VAR", "R-LIN-PATH", "R-EXPR-STORE", "R-REC-FWD"}

import ast

from .. import compq, idflow, placement, pyq, rflow
from ..pysrc import dotted, norm

CORE = [
    "compile_do", "compile_if", "compile_logical_or_and_and_operator", "compile_def_expression", "compile_assign", "compile_let",
    "compile_function_lambda", "compile_function_def", "compile_function_node", "compile_lambda_list", "compile_arguments_set",
    "compile_expression", "_compile_collect", "_compile_branch", "compile_maths_expression", "compile_compare_op_expression",
    "compile_chained_comparison", "compile_unary_operator", "compile_augassign_expression", "compile_index_expression",
    "compile_attribute_access", "compile_while_expression", "compile_comprehension", "compile_with_expression", "compile_try_expression",
    "compile_raise_expression", "compile_return", "compile_list", "compile_dict", "compile_tuple", "compile_fstring", "compile_fcomponent",
    "compile_unpack_iterable", "compile_del_expression", "compile_assert_expression", "compile_class_expression", "compile_yield_expression",
    "compile_yield_from_or_await_expression", "compile_basic_annotation", "compile_deftype", "compile_quote", "compile_eval_foo_compile",
    "compile_macro_def",
]

# (function, slot index) whose forms have a documented left-to-right order and must go through _compile_branch
SEQ_SLOTS = [
    ("compile_do", 0), ("compile_eval_foo_compile", 0), ("compile_while_expression", 1), ("compile_while_expression", 2),
    ("compile_comprehension", 1), ("compile_with_expression", 1), ("compile_try_expression", 0), ("compile_try_expression", 1),
    ("compile_try_expression", 2), ("compile_try_expression", 3), ("compile_match_expression", 1), ("compile_function_lambda", 3),
    ("compile_function_def", 5), ("compile_class_expression", 3),
]

# who may expose temporaries to compile_assign's rename optimisation, and under which condition
TEMP_EXPOSERS = {
    "compile_if": "each store is the last statement of its branch; nothing of the user's runs between the store and the end of the construct",
    "compile_try_expression": "only without a finally clause (`[] if finalbody else [return_var]`)",
    "compile_function_node": "the FunctionDef of an anonymous `fn` (compile_function_def strips it for user-named functions)",
}


def check_rtemp(ctx, comp, rule="R-TEMP"):
    """Renameable temporaries: only the reviewed sites may put nodes into Result.temp_variables."""
    rm = comp.rm
    seen = {}
    for n in ast.walk(rm.tree):
        q = rm.qual_of(n) if isinstance(n, (ast.Call, ast.Assign)) else None
        if isinstance(n, ast.Call) and (dotted(n.func) or "").split(".")[-1] == "Result":
            for k in n.keywords:
                if k.arg == "temp_variables":
                    seen.setdefault(q.split(".")[0], []).append((n, k.value))
        if isinstance(n, ast.Call) and isinstance(n.func, ast.Attribute) and n.func.attr in ("append", "extend") and isinstance(n.func.value, ast.Attribute) \
                and n.func.value.attr == "temp_variables":
            seen.setdefault(rm.qual_of(n).split(".")[0], []).append((n, n.args[0] if n.args else None))
    for fn, sites in sorted(seen.items()):
        for node, val in sites:
            key = f"{compq.RM}|{fn}|temp_variables={norm(val)[:50] if val is not None else ''}"
            if fn not in TEMP_EXPOSERS:
                f = rm.func(fn)
                init_store = f is not None and pyq.contains(f, lambda x: isinstance(x, ast.Call) and dotted(x.func) == "asty.Assign" and any(
                    k.arg == "value" and isinstance(k.value, ast.Call) and dotted(k.value.func) == "asty.Constant" for k in x.keywords)) is not None
                ctx.bad(rule, key, f"`{fn}` exposes a temporary to compile_assign's rename optimisation; it is not one of the reviewed exposers "
                        f"({', '.join(TEMP_EXPOSERS)})" + ("; the function also initialises a temporary at top level, which then clobbers the renamed-to variable "
                                                           "before the user's sub-forms are evaluated" if init_store else ""), compq.RM, node.lineno,
                        witness="(setv x <old>) (setv x (FORM … x …)): the sub-form sees the new/None value of x instead of <old>")
            elif fn == "compile_try_expression":
                ok = isinstance(val, ast.IfExp) and norm(val.test) == "finalbody" and isinstance(val.body, ast.List) and not val.body.elts
                ctx.check(ok, rule, key, "try exposes its result variable for renaming even when there is a finally clause, whose statements run after the store",
                          compq.RM, node.lineno, witness="(setv x 0) (setv x (try 1 (finally (setv seen x)))) -> seen == 1", detail="[] if finalbody else [return_var]")
            else:
                ctx.ok(rule, key, TEMP_EXPOSERS[fn])
    # the user-named def must strip what compile_function_node exposes
    fd = rm.func("compile_function_def")
    ctx.require(fd is not None, "compile_function_def not found")
    strip = pyq.contains(fd, lambda n: isinstance(n, ast.Assign) and isinstance(n.targets[0], ast.Attribute) and n.targets[0].attr == "temp_variables"
                         and isinstance(n.value, ast.List) and not n.value.elts)
    rets = [r for r in pyq.walk_no_nested(fd) if isinstance(r, ast.Return)]
    direct = any(r.value is not None and "compile_function_node" in norm(r.value) for r in rets)
    ctx.check(strip is not None and not direct, rule, f"{compq.RM}|compile_function_def|strips temp_variables",
              "defn returns compile_function_node's Result with its temp_variables: compile_assign then renames the user's function", compq.RM, fd.lineno,
              witness="(setv x (defn f [] 1)) defines x instead of f", detail="temp_variables = [] before return")
    # and/or: with more than one operand nothing may be exposed
    lo = rm.func("compile_logical_or_and_and_operator")
    ctx.require(lo is not None, "compile_logical_or_and_and_operator not found")
    clear = pyq.contains(lo, lambda n: isinstance(n, ast.If) and norm(n.test) == "len(args) > 1" and pyq.contains(
        n.body, lambda x: isinstance(x, ast.Assign) and norm(x.targets[0]) == "ret.temp_variables" and isinstance(x.value, ast.List) and not x.value.elts) is not None)
    ctx.check(clear is not None, rule, f"{compq.RM}|compile_logical_or_and_and_operator|clears temp_variables",
              "and/or with several operands keeps the first operand's temporaries exposed: compile_assign renames them and drops the rest of the operation",
              compq.RM, lo.lineno, witness="(setv x (and (or a (do (s) b)) c)) loses `and c`", detail="cleared when len(args) > 1")
    for fn in ("compile_with_expression", "compile_match_expression"):
        ctx.check(fn not in seen, rule, f"{compq.RM}|{fn}|withholds its temporary",
                  f"{fn} initialises its temporary to None before the user's sub-forms run, so the temporary must not be renameable", compq.RM, 0,
                  witness="(setv x 5) (setv x (match x 5 \"five\" _ \"other\")) -> \"other\"", detail="not exposed")
    ctx.floor(rule, 6)


def check(ctx, src):
    ctx.rule("PLACEMENT", "for every compile function, the statements and the value of each sub-form slot reach exactly the reviewed places of the emitted AST "
             "(frozen table of 218 facts re-derived by the Result-flow analysis): nothing is hoisted out of its branch, swapped between fields, or lost")
    ctx.rule("R-SEQ", "every body slot with a documented left-to-right order is compiled by _compile_branch, which turns the previous form's value into a statement before compiling the next form")
    ctx.rule("R-TEMP", "only the reviewed sites expose temporaries to compile_assign's rename optimisation (`if`; `try` without finally; the FunctionDef of an anonymous fn)")
    ctx.rule("R-ASSIGN", "compile_assign evaluates the value before the target, renames temporaries only for a plain symbol target, and returns None for setv / the value for setx")
    comp = compq.Compiler(src)
    facts = placement.check_placement(ctx, src, CORE, "PLACEMENT", comp)
    ctx.floor("PLACEMENT", 150)

    # --- R-SEQ ------------------------------------------------------------------------------
    W = rflow.FlowWorld(comp)
    for fn, slot in SEQ_SLOTS:
        f = comp.rm.func(fn)
        ctx.require(f is not None, f"{fn} not found")
        R = rflow.Roles(comp.rm, f, world=W)
        pname = R.slots[slot] if slot < len(R.slots) else None
        ctx.need(pname is not None, f"{fn}: slot {slot} vanished")
        hit = False
        for c in pyq.calls(f):
            if isinstance(c.func, ast.Attribute) and c.func.attr == "_compile_branch" and c.args:
                if pname in R.model_slot(c.args[0]):
                    hit = True
        ctx.check(hit, "R-SEQ", f"{compq.RM}|{fn}|slot {slot}:{pname}", f"the forms of `{pname}` are no longer compiled by _compile_branch (their order / exactly-once evaluation is not guaranteed)",
                  compq.RM, f.lineno, witness="(FORM (print 1) (print 2)) may evaluate out of order or drop the first form's value without running it", detail="_compile_branch")
    let = comp.rm.func("compile_let")
    ctx.require(let is not None, "compile_let not found")
    ctx.check(pyq.contains(let, lambda n: isinstance(n, ast.Call) and dotted(n.func) == "mkexpr" and n.args and isinstance(n.args[0], ast.Constant) and n.args[0].value == "do"
                           and any(isinstance(a, ast.Starred) and norm(a.value) == "body" for a in n.args)) is not None,
              "R-SEQ", f"{compq.RM}|compile_let|body as (do …)", "let no longer compiles its body as a `do`", compq.RM, let.lineno, detail="mkexpr('do', *body)")
    cb = comp.cp.func("HyASTCompiler._compile_branch")
    ctx.require(cb is not None, "_compile_branch not found")
    loop = next((n for n in pyq.walk_no_nested(cb) if isinstance(n, ast.For)), None)
    ctx.need(loop is not None, "_compile_branch: loop not found")
    texts = [norm(s) for s in loop.body]
    want = ["if last is not None: result += last.expr_as_stmt()", "last = self.compile(node)", "result += last"]
    ctx.check(texts == want and norm(loop.iter) == "exprs", "R-SEQ", f"{compq.CP}|_compile_branch|loop",
              f"_compile_branch's loop is {texts}; expected {want}", compq.CP, loop.lineno,
              witness="(do (f) (g)) : (f) is dropped, duplicated, or evaluated after (g)", detail="; ".join(want))
    ret = [r for r in pyq.walk_no_nested(cb) if isinstance(r, ast.Return)]
    ctx.check(len(ret) == 1 and norm(ret[0].value) == "result", "R-SEQ", f"{compq.CP}|_compile_branch|return", "_compile_branch must return the accumulated result", compq.CP, cb.lineno, detail="return result")
    eas = comp.cp.func("Result.expr_as_stmt")
    ctx.require(eas is not None, "Result.expr_as_stmt not found")
    ctx.check(pyq.contains(eas, lambda n: isinstance(n, ast.Call) and dotted(n.func) == "asty.Expr" and any(k.arg == "value" and norm(k.value) == "self.expr" for k in n.keywords)) is not None,
              "R-SEQ", f"{compq.CP}|Result.expr_as_stmt|Expr", "expr_as_stmt no longer wraps the expression in an Expr statement", compq.CP, eas.lineno, detail="Expr(value=self.expr)")
    add = comp.cp.func("Result.__add__")
    ctx.require(add is not None, "Result.__add__ not found")
    ok = pyq.contains(add, lambda n: isinstance(n, ast.Assign) and norm(n) == "result.stmts = self.stmts + other.stmts") is not None and \
        pyq.contains(add, lambda n: isinstance(n, ast.Assign) and norm(n) == "result.expr = other.expr") is not None
    ctx.check(ok, "R-SEQ", f"{compq.CP}|Result.__add__|order", "Result addition must concatenate statements left-to-right and keep the right operand's expression", compq.CP, add.lineno,
              witness="every two-form sequence runs in reverse", detail="self.stmts + other.stmts; other.expr")

    check_rtemp(ctx, comp)
    # while with a statement-bearing condition: the loop variable receives a *boolean copy* of the condition's value (two
    # negations), not the value itself - a mutable value that the body empties would otherwise end the loop without the
    # condition form being evaluated again
    wh = comp.rm.func("compile_while_expression")
    ctx.require(wh is not None, "compile_while_expression not found")
    nots = {n.name for n in ast.walk(wh) if isinstance(n, ast.FunctionDef) and n is not wh and any(isinstance(c, ast.Call) and dotted(c.func) == "asty.UnaryOp" and "ast.Not" in str(norm(c)) for c in ast.walk(n))}

    def _not_depth(e):
        d = 0
        while isinstance(e, ast.Call):
            if isinstance(e.func, ast.Name) and e.func.id in nots and e.args:
                d += 1
                e = e.args[-1]
            elif dotted(e.func) == "asty.UnaryOp" and "ast.Not" in str(norm(e)):
                d += 1
                e = next((k.value for k in e.keywords if k.arg == "operand"), None)
            else:
                break
        return d, e

    vals = []
    for c in pyq.calls(wh):
        if dotted(c.func) == "asty.Assign":
            v = next((k.value for k in c.keywords if k.arg == "value"), None)
            if v is not None and any(isinstance(x, ast.Attribute) and x.attr == "force_expr" for x in ast.walk(v)):
                vals.append((c, _not_depth(v)))
    ctx.decide("R-SEQ", f"{compq.RM}|compile_while_expression|boolean copy of the condition", None if not vals else all(d == 2 and isinstance(e, ast.Attribute) and e.attr == "force_expr" for _, (d, e) in vals),
               f"the loop variable of a `while` whose condition has statements is assigned the condition's value under {[d for _, (d, _e) in vals]} negations; it must be a boolean copy (not not <value>)",
               compq.RM, vals[0][0].lineno if vals else wh.lineno, witness="(while (do (f) xs) (.pop xs)) with a list: the condition form is evaluated one time too few", detail="not (not cond)", robust=True)
    # rules decided by sibling checks that are part of C01's language (comprehension strategy, shared if-temporary)
    from . import c04, c12
    from .. import core

    core.transfer(ctx, src, c04, {"COMP-GUARD", "COMP-TAGS", "COMP-ELSE"})
    core.transfer(ctx, src, c12, {"R-ID-FRESH"}, key_filter=lambda k: "compile_if" in k)
    # no sub-form may lose its statements, value or context on any path (decided by the Result-flow rules of C11)
    from . import c11

    ctx.rule("R-LIN", "Result-flow rules shared with C11: no dropped Result, no value placed on a path that excludes the placement of its statements, no expression replaced while the operand's temporaries stay exposed, "
             "no recursive call that loses a parameter")
    core.transfer(ctx, src, c11, {"R-LIN-ANON", "R-LIN-VAR", "R-LIN-PATH", "R-EXPR-STORE", "R-REC-FWD"})

    # --- compile_assign -------------------------------------------------------------------------
    ca = comp.rm.func("compile_assign")
    ctx.require(ca is not None, "compile_assign not found")
    ren = next((c for c in pyq.calls(ca) if isinstance(c.func, ast.Attribute) and c.func.attr == "rename"), None)
    ctx.need(ren is not None, "compile_assign: rename site not found")
    iff = ren
    while iff is not None and not isinstance(iff, ast.If):
        iff = iff._parent
    ctx.check(iff is not None and norm(iff.test) == "result.temp_variables and isinstance(target, Symbol)", "R-ASSIGN", f"{compq.RM}|compile_assign|rename-guard",
              "temporaries are renamed for targets other than a plain symbol", compq.RM, ren.lineno, detail="only for Symbol targets with temp_variables")
    drop = pyq.contains(iff.body, lambda n: isinstance(n, ast.If) and norm(n.test) == "not is_assignment_expr" and any(norm(s) == "result.expr = None" for s in n.body)) if iff else None
    ctx.check(drop is not None, "R-ASSIGN", f"{compq.RM}|compile_assign|setv-returns-None", "after renaming, (setv …) must drop the expression so that it returns None, and setx must keep it",
              compq.RM, ren.lineno, detail="result.expr = None unless setx")
    # value compiled before the targets are storeized
    comp_val = next((c for c in pyq.calls(ca) if compq.is_compile_call(c) and c.args and norm(c.args[0]) == "value"), None)
    st = next((c for c in pyq.calls(ca) if isinstance(c.func, ast.Attribute) and c.func.attr == "_storeize"), None)
    ctx.check(comp_val is not None and st is not None and comp_val.lineno < st.lineno, "R-ASSIGN", f"{compq.RM}|compile_assign|value-before-target",
              "the value must be compiled (and its statements placed) before the target is compiled", compq.RM, ca.lineno, detail="compile(value) precedes _storeize")


SELFTESTS = [
    dict(name="if: body hoisted", file=compq.RM, old="    # We want to hoist the statements from the condition\n    ret = cond\n",
         new="    # We want to hoist the statements from the condition\n    ret = cond + body\n", rule="PLACEMENT", key="compile_if|slot 1:body"),
    dict(name="if: branches swapped", file=compq.RM, old="ret += asty.If(expr, test=ret.force_expr, body=body.stmts, orelse=orel.stmts)",
         new="ret += asty.If(expr, test=ret.force_expr, body=orel.stmts, orelse=body.stmts)", rule="PLACEMENT", key="compile_if"),
    dict(name="while: else into body", file=compq.RM, old="expr, test=cond_compiled.force_expr, body=body_stmts, orelse=orel.stmts\n    )",
         new="expr, test=cond_compiled.force_expr, body=body_stmts + orel.stmts, orelse=[]\n    )", rule="PLACEMENT", key="compile_while_expression"),
    dict(name="do without _compile_branch", file=compq.RM, old="def compile_do(compiler, expr, root, body):\n    return compiler._compile_branch(body)",
         new="def compile_do(compiler, expr, root, body):\n    ret = Result()\n    for b in body:\n        ret += compiler.compile(b)\n    return ret", rule="R-SEQ", key="compile_do"),
    dict(name="with exposes temp", file=compq.RM, old="    ret += Result(expr=expr_name)\n    # We don't give the Result any temp_vars",
         new="    ret += Result(expr=expr_name, temp_variables=[expr_name, name])\n    # We don't give the Result any temp_vars", rule="R-TEMP", key="compile_with_expression"),
    dict(name="try exposes with finally", file=compq.RM, old="temp_variables=[] if finalbody else [return_var],", new="temp_variables=[return_var],", rule="R-TEMP", key="compile_try_expression"),
    dict(name="rename locals twin", file=compq.RM, kind="twin", edits=[
        ("def compile_unary_operator(compiler, expr, root, arg):\n    ops = {\"not\": ast.Not, \"bnot\": ast.Invert}\n    operand = compiler.compile(arg)\n    return operand + asty.UnaryOp(expr, op=ops[root](), operand=operand.force_expr)",
         "def compile_unary_operator(compiler, expr, root, the_arg):\n    ops = {\"not\": ast.Not, \"bnot\": ast.Invert}\n    res = compiler.compile(the_arg)\n    return res + asty.UnaryOp(expr, op=ops[root](), operand=res.force_expr)")]),
]
