"""Small query helpers over Python ASTs (with _parent links from pysrc.Module)."""
import ast

from .pysrc import FUNC, dotted, parents

TRY = (ast.Try,) + ((ast.TryStar,) if hasattr(ast, "TryStar") else ())


def body_without_doc(func):
    b = list(func.body)
    if b and isinstance(b[0], ast.Expr) and isinstance(b[0].value, ast.Constant) and isinstance(b[0].value.value, str):
        b = b[1:]
    return b


def walk_no_nested(node):
    """ast.walk that does not enter nested function/class definitions (lambdas are entered)."""
    stack = [node]
    first = True
    while stack:
        n = stack.pop()
        yield n
        for c in ast.iter_child_nodes(n):
            if isinstance(c, FUNC + (ast.ClassDef,)):
                continue
            stack.append(c)


def calls(node, name=None, last=None):
    for n in ast.walk(node):
        if isinstance(n, ast.Call):
            d = dotted(n.func)
            if name is not None and d != name:
                continue
            if last is not None and (d is None or d.split(".")[-1] != last):
                if not (isinstance(n.func, ast.Attribute) and n.func.attr == last):
                    continue
            yield n


def protecting_tries(node, func=None):
    """Try statements (with a finalbody) whose *body* contains node, innermost first."""
    out = []
    child = node
    for p in parents(node):
        if isinstance(p, TRY) and p.finalbody and any(child is x for x in p.body):
            out.append(p)
        if p is func or isinstance(p, FUNC):
            break
        child = p
    return out


def enclosing_try_parts(node):
    """[(try, part)] for every enclosing try; part in body/handler/orelse/finalbody."""
    out = []
    child = node
    for p in parents(node):
        if isinstance(p, TRY):
            if any(child is x for x in p.body):
                out.append((p, "body"))
            elif any(child is x for x in p.orelse):
                out.append((p, "orelse"))
            elif any(child is x for x in p.finalbody):
                out.append((p, "finalbody"))
        if isinstance(p, ast.ExceptHandler):
            pass
        if isinstance(p, FUNC):
            break
        child = p
    return out


def contains(node, pred):
    nodes = node if isinstance(node, list) else [node]
    for r in nodes:
        for n in ast.walk(r):
            if pred(n):
                return n
    return None


def top_stmt_index(func, node):
    """Index of the top-level statement of func that contains node."""
    for i, st in enumerate(func.body):
        for n in ast.walk(st):
            if n is node:
                return i
    return None


def is_name(n, name):
    return isinstance(n, ast.Name) and n.id == name


def same_src(a, b):
    return ast.dump(a) == ast.dump(b)


def assigned_names(target):
    out = []
    for n in ast.walk(target):
        if isinstance(n, ast.Name):
            out.append(n.id)
    return out


TERMINATORS = (ast.Return, ast.Raise, ast.Continue, ast.Break)


def _terminates(block):
    return bool(block) and isinstance(block[-1], TERMINATORS)


def guards(node, stop=None, siblings=True):
    """Path condition of `node` inside its function: [(test, polarity)] from the outermost to the innermost, where
    polarity True means the test held.  Counts enclosing `if`s (body / orelse), enclosing conditional expressions,
    operands of and/or to the left of the node, and earlier sibling `if`s of every enclosing block whose body ends in
    return/raise/continue/break (their test was false for control to get here).  Loops and try blocks add nothing."""
    out = []
    child = node
    for p in parents(node):
        if isinstance(p, ast.If):
            if any(child is x for x in p.body):
                out.append((p.test, True))
            elif any(child is x for x in p.orelse):
                out.append((p.test, False))
        elif isinstance(p, ast.IfExp):
            if child is p.body:
                out.append((p.test, True))
            elif child is p.orelse:
                out.append((p.test, False))
        elif isinstance(p, ast.BoolOp):
            i = next((k for k, v in enumerate(p.values) if v is child), None)
            if i:
                for v in reversed(p.values[:i]):
                    out.append((v, isinstance(p.op, ast.And)))
        for fld in ("body", "orelse", "finalbody") if siblings else ():
            blk = getattr(p, fld, None)
            if isinstance(blk, list) and any(child is x for x in blk):
                i = next(k for k, x in enumerate(blk) if x is child)
                for prev in reversed(blk[:i]):
                    if isinstance(prev, ast.If) and _terminates(prev.body) and not prev.orelse:
                        out.append((prev.test, False))
        if isinstance(p, FUNC) or p is stop:
            break
        child = p
    out.reverse()
    return out


def guard_texts(node, stop=None):
    """guards() rendered as canonical text; a false test is rendered through canon.neg."""
    from . import canon
    from .pysrc import norm

    res = []
    for t, pol in guards(node, stop):
        if not pol:
            n = canon.neg(t)
            if n is not t:
                n._canon = getattr(t, "_canon", False)
                n._parent = getattr(t, "_parent", None)
            t = n
        res.append(norm(t))
    return res


def atoms(node, stop=None):
    """Path condition of node as a list of atomic conditions (NormText), conjunctions split, in negation normal form."""
    from . import canon
    from .pysrc import norm

    out = []

    def add(e, origin):
        if isinstance(e, ast.BoolOp) and isinstance(e.op, ast.And):
            for v in e.values:
                add(v, origin)
        else:
            if not hasattr(e, "_parent"):
                try:
                    e._canon = getattr(origin, "_canon", False)
                    e._parent = getattr(origin, "_parent", None)
                except AttributeError:
                    pass
            out.append(norm(e))

    for t, pol in guards(node, stop):
        add(t if pol else canon.neg(t), t)
    return out


def has_atoms(node, stop, patterns, exact=False, about=None):
    """Do the given patterns all occur among the atomic path conditions of node?  With exact, nothing else may occur;
    with about=NAME, no other condition that mentions NAME may occur."""
    at = atoms(node, stop)
    used = set()
    for p in patterns:
        hit = next((i for i, a in enumerate(at) if i not in used and a == p), None)
        if hit is None:
            return False
        used.add(hit)
    if exact:
        return len(used) == len(at)
    if about:
        for i, a in enumerate(at):
            if i not in used and a.node is not None and any(isinstance(x, ast.Name) and x.id == about for x in ast.walk(a.node)):
                return False
    return True


def atoms_expanded(node, stop=None, depth=3):
    """atoms(), with a boolean temporary (a local bound exactly once in `stop` to a boolean expression) replaced by the
    atoms of its definition, so that `ok = a or b` ... `if not ok:` reads as `not a`, `not b`."""
    from . import canon
    from .pysrc import norm

    func = stop
    defs = {}
    if func is not None:
        for n in ast.walk(func):
            if isinstance(n, ast.Assign) and len(n.targets) == 1 and isinstance(n.targets[0], ast.Name):
                defs.setdefault(n.targets[0].id, []).append(n.value)
            elif isinstance(n, (ast.AugAssign, ast.NamedExpr)) and isinstance(getattr(n, "target", None), ast.Name):
                defs.setdefault(n.target.id, []).append(None)
            elif isinstance(n, (ast.For, ast.comprehension)):
                for x in ast.walk(n.target):
                    if isinstance(x, ast.Name):
                        defs.setdefault(x.id, []).append(None)
    out = []

    def boolish(e):
        return isinstance(e, (ast.BoolOp, ast.Compare)) or (isinstance(e, ast.UnaryOp) and isinstance(e.op, ast.Not))

    def add(e, origin, d):
        if isinstance(e, ast.BoolOp) and isinstance(e.op, ast.And):
            for v in e.values:
                add(v, origin, d)
            return
        pos, neg_ = e, False
        if isinstance(e, ast.UnaryOp) and isinstance(e.op, ast.Not):
            pos, neg_ = e.operand, True
        if isinstance(pos, ast.Name) and d > 0 and len(defs.get(pos.id, [])) == 1 and defs[pos.id][0] is not None and boolish(defs[pos.id][0]):
            v = defs[pos.id][0]
            add(canon.neg(v) if neg_ else v, v, d - 1)
            return
        if not hasattr(e, "_parent"):
            try:
                e._canon = getattr(origin, "_canon", False)
                e._parent = getattr(origin, "_parent", None)
            except AttributeError:
                pass
        out.append(norm(e))

    for t, pol in guards(node, stop):
        add(t if pol else canon.neg(t), t, depth)
    return out


def helpers_of(mod, fn, depth=2):
    """fn and the functions of the same module it calls (by plain name, or as self.m / cls.m / Class.m), transitively
    to `depth`: the scope in which a rule looks for a step that may have been moved into a helper."""
    out, todo = [fn], [(fn, 0)]
    while todo:
        f, d = todo.pop()
        if d >= depth:
            continue
        q = mod.qual_of(f)
        cls = q.rsplit(".", 1)[0] if "." in q else None
        for c in calls(f):
            h = None
            if isinstance(c.func, ast.Name):
                h = mod.func(c.func.id) or (mod.func(f"{q}.{c.func.id}"))
            elif isinstance(c.func, ast.Attribute) and isinstance(c.func.value, ast.Name):
                base = c.func.value.id
                if base in ("self", "cls") and cls:
                    h = mod.func(f"{cls}.{c.func.attr}")
                else:
                    h = mod.func(f"{base}.{c.func.attr}")
            if h is not None and not any(h is x for x in out):
                out.append(h)
                todo.append((h, d + 1))
    return out


def order(root):
    """Depth-first (source / evaluation-ish) numbering of the nodes under root: id(node) -> index.  Unlike line numbers
    it is meaningful for statements that were expanded from a helper (they all carry the call's position)."""
    out = {}

    def go(n):
        out[id(n)] = len(out)
        for ch in ast.iter_child_nodes(n):
            go(ch)

    go(root)
    return out


def assign_pairs(root):
    """(target, value, statement) for every assignment under root; `a, b = x, y` gives (a, x) and (b, y)."""
    for n in ast.walk(root):
        if isinstance(n, ast.Assign):
            for t in n.targets:
                if isinstance(t, (ast.Tuple, ast.List)) and isinstance(n.value, (ast.Tuple, ast.List)) and len(t.elts) == len(n.value.elts):
                    for a, b in zip(t.elts, n.value.elts):
                        yield a, b, n
                else:
                    yield t, n.value, n
        elif isinstance(n, ast.AnnAssign) and n.value is not None:
            yield n.target, n.value, n
