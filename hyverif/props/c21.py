"""C21 — reader positions: ownership of the position state, order of position capture, fresh models per read (thin, structural part only)."""
CANON = True

import ast

from .. import pm, pyq, readerq
from ..pysrc import dotted, norm, flat
from ..readerq import HR, RD

MODEL_CTORS = {"sym", "Symbol", "mkexpr", "Expression", "Keyword", "String", "List", "Integer"}


def check_positions(ctx, src, rq=None):
    """Shared with C17: where positions come from."""
    rq = rq or readerq.Reader(src)
    hr, rd = rq.hr, rq.rd
    # --- ownership of _pos
    for m in (rd, hr):
        for n in ast.walk(m.tree):
            tg = None
            if isinstance(n, ast.Assign):
                tg = n.targets[0]
            elif isinstance(n, ast.AugAssign):
                tg = n.target
            if isinstance(tg, ast.Attribute) and tg.attr in ("_pos",):
                q = m.qual_of(n)
                ctx.check(q in ("Reader.getc", "Reader._set_source"), "POS-OWNER", f"{m.rel}|{q}|writes _pos", f"`{q}` writes the reader position; only getc and _set_source may", m.rel, n.lineno,
                          witness="positions of every later form are off", detail="getc / _set_source")
    reads = []
    for m in (rd, hr):
        for c in pyq.calls(m.tree):
            if isinstance(c.func, ast.Attribute) and c.func.attr in ("read", "readline", "readlines", "seek") and "_stream" in norm(c.func.value) or \
                    (isinstance(c.func, ast.Attribute) and c.func.attr in ("read", "readline", "seek", "tell") and norm(c.func.value) == "stream"):
                q = m.qual_of(c)
                ok = q in ("Reader.peekc", "Reader.peeking", "Reader._set_source")
                # a who-may-call rule: the call site itself is the evidence, wherever it is
                ctx.decide("POS-OWNER", f"{m.rel}|{q}|{norm(c)}", ok, f"`{q}` reads the underlying stream directly, bypassing getc's position bookkeeping", m.rel, c.lineno,
                           witness="a shebang line skipped with stream.readline() leaves every line number one too small", detail="peekc / peeking / _set_source only", local=True)
    for c in [n for n in ast.walk(hr.tree) if isinstance(n, ast.Attribute) and n.attr in ("_peek_chars", "_saved_chars", "_stream")]:
        ctx.bad("POS-OWNER", f"{HR}|{hr.qual_of(c)}|{c.attr}", f"hy_reader.py touches the character buffer `{c.attr}` directly; all consumption must go through getc", HR, c.lineno)
    ctx.ok("POS-OWNER", f"{HR}|no direct buffer access", "hy_reader.py never touches _peek_chars/_saved_chars/_stream")
    # --- getc arithmetic shape
    g = rq.methods["getc"][1]
    t = flat(g)
    step = pm.find(g, "line, col = self._pos\ncol += 1\nif c == '\\n':\n    line += 1\n    col = 0\nself._pos = (line, col)")
    ctx.check(step is not None, "POS-STEP", f"{RD}|Reader.getc|step", "getc must advance the column by one per character and start a new line exactly at '\\n'", RD, g.lineno,
              witness="CRLF source counts every line twice", detail="col += 1; on '\\n': line += 1, col = 0")
    rv = next((r.value.id for r in ast.walk(g) if isinstance(r, ast.Return) and isinstance(r.value, ast.Name)), None)
    ctx.check(step is not None and rv is not None and any(str(x) == rv for x in pyq.guard_texts(step, g)), "POS-STEP", f"{RD}|Reader.getc|eof", "the end-of-input read must not advance the position", RD, g.lineno, detail="only when c")
    # --- fill_pos
    fp = rq.methods["fill_pos"][1]
    b = [norm(s) for s in pyq.body_without_doc(fp)]
    ctx.check(b == ["(model.start_line, model.start_column) = start", "(model.end_line, model.end_column) = self.pos", "return model.replace(model)"] or
              b == ["model.start_line, model.start_column = start", "model.end_line, model.end_column = self.pos", "return model.replace(model)"], "POS-FILL", f"{HR}|fill_pos", f"fill_pos is {b}", HR, fp.lineno,
              witness="start and end are swapped / children do not inherit positions", detail="start from argument, end from self.pos, then replace(model)")
    tp = rq.methods["try_parse_one_form"][1]
    _ord = pyq.order(tp)
    pos = lambda n: _ord.get(id(n), -1)
    getc = pyq.contains(tp, lambda n: isinstance(n, ast.Call) and dotted(n.func) == "self.getc")
    cap = pyq.contains(tp, lambda n: isinstance(n, ast.Assign) and dotted(n.value) == "self._pos" and isinstance(n.targets[0], ast.Name))
    sv = cap.targets[0].id if cap is not None else None
    def _is_dispatch(n):
        return isinstance(n, ast.Call) and (dotted(n.func) == "self.read_default" or (isinstance(n.func, ast.Name) and n.args and isinstance(n.args[0], ast.Name) and n.args[0].id == "self"))

    disp = [n for n in ast.walk(tp) if _is_dispatch(n)]
    # ... or a call of a method of the reader that does the dispatch (a helper split off try_parse_one_form)
    for n in ast.walk(tp):
        if isinstance(n, ast.Call) and isinstance(n.func, ast.Attribute) and isinstance(n.func.value, ast.Name) and n.func.value.id == "self" and n.func.attr in rq.methods:
            hf = rq.methods[n.func.attr][1]
            if hf is not tp and any(_is_dispatch(x) for x in ast.walk(hf)) and n.func.attr != "read_default":
                disp += [n, n]
    fill = pyq.contains(tp, lambda n: isinstance(n, ast.Call) and dotted(n.func) == "self.fill_pos" and len(n.args) == 2 and isinstance(n.args[1], ast.Name) and n.args[1].id == sv)
    ctx.check(getc is not None and cap is not None and len(disp) >= 2 and fill is not None and pos(getc) < pos(cap) < min(map(pos, disp)) and max(map(pos, disp)) < pos(fill), "POS-FILL", f"{HR}|try_parse_one_form|capture order",
              "the start position must be captured after the first character is consumed and before the handler runs; the end after it", HR, tp.lineno, detail="getc; start; handler; fill_pos")
    rp = src.py("hy/models.py").func("Object.replace")
    # Object.replace copies a position attribute only when self does not have it yet: the setattr(self, ...) is reached
    # under `not hasattr(self, attr)` (path atoms; `continue` guards count)
    if rp is not None:
        sa = [c for c in pyq.calls(rp) if dotted(c.func) == "setattr" and c.args and isinstance(c.args[0], ast.Name) and c.args[0].id == "self"]
        verdict = None
        if sa:
            verdict = all(any(str(a).replace(" ", "") in ("nothasattr(self,attr)",) or (str(a).startswith("not hasattr(self,")) for a in pyq.atoms(c, rp)) for c in sa)
        ctx.decide("POS-FILL", "hy/models.py|Object.replace", verdict, "Object.replace must only fill positions that are still unset", "hy/models.py", rp.lineno,
                   witness="a child's own position is overwritten by its parent's", detail="only unset attributes")


def check(ctx, src):
    ctx.rule("POS-OWNER", "the position is written only by getc and _set_source; the underlying stream is read only by peekc/peeking/_set_source; hy_reader.py consumes characters only through getc")
    ctx.rule("POS-STEP", "getc advances the column by one per consumed character and the line exactly at '\\n'; the end-of-input read advances nothing")
    ctx.rule("POS-FILL", "a form's start is captured after its first character and before its handler, its end after the handler; Object.replace fills only unset positions")
    ctx.rule("POS-FRESH", "the reader creates a new model object for every form it returns (no module-level or cached model is handed out, which would keep the positions of its first use)")
    ctx.rule("SRC-RESET", "every new source resets position and look-ahead state")
    rq = readerq.Reader(src)
    check_positions(ctx, src, rq)
    hr = rq.hr
    shared = []
    for st in hr.tree.body:
        if isinstance(st, ast.Assign) and isinstance(st.value, ast.Call) and (dotted(st.value.func) or "") in MODEL_CTORS:
            shared.append(st)
    for cn, cls in hr.classes.items():
        for st in cls.body:
            if isinstance(st, ast.Assign) and isinstance(st.value, ast.Call) and (dotted(st.value.func) or "") in MODEL_CTORS:
                shared.append(st)
    # ... nor a model built once in a handler *factory* and captured by the handler it returns (one object for every use
    # of the tag)
    captured = []
    for fn_ in [n for n in ast.walk(hr.tree) if isinstance(n, ast.FunctionDef)]:
        inner = [n for n in ast.walk(fn_) if n is not fn_ and isinstance(n, (ast.Lambda, ast.FunctionDef))]
        if not inner:
            continue
        built = {}
        for st in fn_.body:
            if isinstance(st, ast.Assign) and len(st.targets) == 1 and isinstance(st.targets[0], ast.Name) and isinstance(st.value, ast.Call) and (dotted(st.value.func) or "") in MODEL_CTORS | {"sym", "mkexpr"}:
                built[st.targets[0].id] = st
        for i_ in inner:
            body_nodes = ast.walk(i_.body) if isinstance(i_, ast.Lambda) else (x for s_ in i_.body for x in ast.walk(s_))
            for x in body_nodes:
                if isinstance(x, ast.Name) and isinstance(x.ctx, ast.Load) and x.id in built:
                    captured.append(built[x.id])
    ctx.decide("POS-FRESH", f"{HR}|models captured by handlers", not captured, f"a model built once ({[norm(c)[:40] for c in captured]}) is captured by the handler closure and handed out on every use: fill_pos fills positions only once",
               HR, captured[0].lineno if captured else 0, witness="'a 'b : the second quote symbol reports the first one's line and column", detail="models are built inside the handler")
    ctx.check(not shared, "POS-FRESH", f"{HR}|module-level models", f"module/class-level model objects {[norm(s)[:40] for s in shared]} are shared between forms: fill_pos fills positions only once, so later forms inherit the first one's",
              HR, shared[0].lineno if shared else 0, witness="the None in the second `.foo` of a file reports the position of the first", detail="none")
    ai = hr.func("as_identifier")
    ctx.require(ai is not None, "as_identifier not found")
    ctx.check(pyq.contains(ai, lambda n: isinstance(n, ast.Call) and norm(n) == "mkexpr(head, Symbol('None'), *args)") is not None, "POS-FRESH", f"{HR}|as_identifier|fresh None", "the implicit None of `.attr` forms must be a new Symbol each time", HR, ai.lineno, detail="Symbol('None') per form")
    m, ss = rq.methods["_set_source"]
    t = flat(ss)
    for piece in ("self._peek_chars = deque()", "self._pos = (1, 0)"):
        ctx.check(piece in t, "SRC-RESET", f"{RD}|Reader._set_source|{piece}", f"_set_source no longer executes `{piece}`", RD, ss.lineno, detail="reset per source")
    ctx.assume("the line/column arithmetic is checked for its shape only; that regions delimit text that reads back to an equal model is a value-level relation and is not decided")
    ctx.floor("POS-OWNER", 5)


SELFTESTS = [
    dict(name="CR counts as newline", file=RD, old='            if c == "\\n":\n                line += 1', new='            if c in "\\r\\n":\n                line += 1', rule="POS-STEP", key="getc|step"),
    dict(name="shebang skipped by readline", file=HR, old="            for c in self.chars():\n                if c == \"\\n\":\n                    break\n", new="            self._peek_chars.clear()\n            stream.readline()\n", rule="POS-OWNER", key="HyReader.parse"),
    dict(name="shared None symbol", file=HR, rule="POS-FRESH", key="module-level", edits=[
        ("def as_identifier(ident, reader=None):", "_NONE = sym(\"None\")\n\n\ndef as_identifier(ident, reader=None):"),
        ("            else mkexpr(head, Symbol(\"None\"), *args)", "            else mkexpr(head, _NONE, *args)")]),
    dict(name="start after handler", file=HR, rule="POS-FILL", key="capture order", edits=[
        ("                c = self.getc()\n                start = self._pos\n", "                c = self.getc()\n"),
        ("                model = handler(self, c) if handler else self.read_default(c)\n", "                model = handler(self, c) if handler else self.read_default(c)\n                start = self._pos\n")]),
]
