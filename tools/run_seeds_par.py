#!/venv/bin/python
"""Parallel catch matrix: for each kept seeded change, copy /repo's working tree
(without .git) to a scratch directory under /tmp, apply the patch there, run every
check (quick, no evidence written) against the copy with --repo, remove the copy.
/repo itself is never touched.  usage: run_seeds_par.py [-j N] [--tier T] [PREFIX ...]
Writes /verif/seeded/MATRIX.json (name -> checks that reported a violation)."""
import concurrent.futures as cf
import glob
import json
import os
import shutil
import subprocess
import sys
import tempfile

os.chdir("/verif")
args = sys.argv[1:]
jobs = 16
tier = "quick"
PROPS = "all"
DIR = "seeded"
while args and args[0].startswith("-"):
    if args[0] == "-j":
        jobs = int(args[1]); args = args[2:]
    elif args[0] == "--dir":
        DIR = args[1]; args = args[2:]
    elif args[0] == "--props":
        PROPS = args[1]; args = args[2:]
    elif args[0] == "--tier":
        tier = args[1]; args = args[2:]
    else:
        raise SystemExit("bad option " + args[0])
only = args


def one(d):
    name = os.path.basename(d.rstrip("/"))
    patch = os.path.join(d, "patch.diff")
    tmp = tempfile.mkdtemp(prefix=f"hyseed-{name}-", dir="/tmp")
    try:
        subprocess.run(["rsync", "-a", "--exclude", ".git", "--exclude", "__pycache__", "/repo/", tmp + "/"], check=True)
        r = subprocess.run(["git", "apply", patch], cwd=tmp, capture_output=True, text=True)
        if r.returncode != 0:
            r = subprocess.run(["patch", "-p1", "-s", "-i", patch], cwd=tmp, capture_output=True, text=True)
            if r.returncode != 0:
                return name, "PATCH-FAILS", (r.stderr or r.stdout).strip()[:100]
        out = subprocess.run(
            ["/venv/bin/python", "-m", "hyverif", PROPS, "--no-write", "--repo", tmp, "--tier", tier],
            capture_output=True, text=True, timeout=1800, env={**os.environ, "VERIF_TIER": ""},
        ).stdout
    finally:
        shutil.rmtree(tmp, ignore_errors=True)
    viol = sorted({l.split("property=")[1].split()[0] for l in out.splitlines() if l.startswith("VIOLATION")})
    errs = sorted({l.split("property=")[1].split()[0] for l in out.splitlines() if l.startswith("ANALYSIS-ERROR")})
    first = [l.replace(tmp + "/", "") for l in out.splitlines() if ": [" in l][:2]
    return name, viol, ("ERR:" + ",".join(errs) + " " if errs else "") + " | ".join(x[:170] for x in first)


dirs = [d for d in sorted(glob.glob(f"/verif/{DIR}/*/"))
        if not only or any(os.path.basename(d.rstrip("/")).startswith(o) for o in only)]
with cf.ThreadPoolExecutor(jobs) as ex:
    rows = list(ex.map(one, dirs))
matrix = {}
for name, viol, info in rows:
    v = viol if isinstance(viol, str) else (",".join(viol) or "-")
    print("%-8s caught_by=%-20s %s" % (name, v, info))
    matrix[name] = viol
own = sum(1 for n, v, _ in rows if isinstance(v, list) and n.split("-")[0] in v)
caught = sum(1 for n, v, _ in rows if isinstance(v, list) and v)
print(f"{caught}/{len(rows)} caught by some check; {own}/{len(rows)} by the check of the property they target")
if not only and PROPS == "all" and DIR == "seeded":
    json.dump(matrix, open("/verif/seeded/MATRIX.json", "w"), indent=1, sort_keys=True)
