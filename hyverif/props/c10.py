"""C10 — the compiler yields a valid Python AST or a user-facing error (never ValueError/TypeError/SystemError from compile())."""
CANON = True
STRICT = {"O0", "O1", "O2", "O3", "FUNNEL"}

import ast

from .. import astoblig, compq, idflow, pyq, pysrc
from ..pyflow import Reach
from ..pysrc import dotted, norm

EXPR_TYPES = {"expr", "pattern", "arguments", "arg", "expr_context", "operator", "unaryop", "boolop", "cmpop"}
# statement-free compile() arguments in compile_pattern: (normalised argument) -> guard that must enclose the site
STATEMENT_FREE = {
    "compiler.compile(value).expr": "isinstance(value, (String, Integer, Float, Complex, Bytes))",
    "compiler.compile(dotform).expr": "value[0] == Symbol('.')",
    "compiler.compile(key).expr": "isinstance(value, Dict)",
    "compiler.compile((head[:1] + head[1]).replace(head) if type(head) is Expression else head).expr": "isinstance(value, Expression)",
    "compiler.compile(dotted('hy.models.Keyword')).expr": "isinstance(value, Keyword)",
}
UNPARSE_TOLERATES_MISSING = {("FunctionDef", "type_params"), ("AsyncFunctionDef", "type_params"), ("ClassDef", "type_params")}


def _enclosing_tests(node, func):
    out = []
    n = node
    while n is not None and n is not func:
        p = getattr(n, "_parent", None)
        if isinstance(p, ast.If):
            if any(n is x for x in p.body):
                out.append(("pos", p.test))
            else:
                out.append(("neg", p.test))
        n = p
    return out


def _later_stores(mod, call):
    """Attributes stored on the variable the node is bound to, e.g. new_name.ctx = func()."""
    p = getattr(call, "_parent", None)
    if isinstance(p, ast.Assign) and isinstance(p.targets[0], ast.Name):
        v = p.targets[0].id
        f = mod.enclosing_func(call)
        return {n.targets[0].attr for n in ast.walk(f) if isinstance(n, ast.Assign) and isinstance(n.targets[0], ast.Attribute)
                and isinstance(n.targets[0].value, ast.Name) and n.targets[0].value.id == v}
    return set()


class NonEmpty:
    """Decide whether a list-valued expression at a construction site is provably non-empty."""

    def __init__(self, mod, func, reach, rvars):
        self.mod, self.func, self.reach, self.rvars = mod, func, reach, rvars

    def stmt_ctor(self, e):
        d = dotted(e.func) if isinstance(e, ast.Call) else None
        if d and d.startswith("asty.") and hasattr(ast, d.split(".")[1]):
            c = getattr(ast, d.split(".")[1])
            return isinstance(c, type) and issubclass(c, (ast.stmt, ast.excepthandler))
        if isinstance(e, ast.Call) and isinstance(e.func, ast.IfExp):
            return all(self.stmt_ctor(ast.Call(func=x, args=[], keywords=[])) for x in (e.func.body, e.func.orelse))
        return False

    def result_has_stmt(self, e, depth=0):
        """Does the Result-valued expression e certainly carry >= 1 statement?  -> 'yes' | reason string"""
        if depth > 8:
            return "depth"
        if isinstance(e, ast.BinOp) and isinstance(e.op, ast.Add):
            l, r = self.result_has_stmt(e.left, depth + 1), self.result_has_stmt(e.right, depth + 1)
            if l == "yes" or r == "yes":
                return "yes"
            return l if l != "yes" else r
        if isinstance(e, ast.Call):
            if self.stmt_ctor(e):
                return "yes"
            d = dotted(e.func) or ""
            if d.split(".")[-1] == "Result":
                for k in e.keywords:
                    if k.arg == "stmts" and isinstance(k.value, ast.List) and k.value.elts:
                        return "yes"
                return "Result() without statements"
            if d == "compile_with_expression":
                return "yes"  # starts from Result(stmts=[initial_assign])
            if compq.is_compile_call(e) or d.split(".")[-1] in ("expr_as_stmt", "compile_assign"):
                return f"{norm(e)[:50]} yields no statement for forms such as `(do)` or a plain expression"
            if d == "f":
                return self.closure_returns_stmt(e)
            return "unknown:" + d
        if isinstance(e, ast.Name):
            for pol, t in _enclosing_tests(e, self.func):
                if pol == "pos" and norm(t) == f"{e.id}.stmts":
                    return "yes"  # guarded by `if X.stmts:`
            defs = self.reach.at.get(id(e))
            if not defs:
                return "unknown:no reaching definition"
            verdicts = [self.how_has_stmt(h, depth + 1) for h in defs]
            bad = [v for v in verdicts if v != "yes"]
            return "yes" if not bad else bad[0]
        if isinstance(e, ast.IfExp):
            a, b = self.result_has_stmt(e.body, depth + 1), self.result_has_stmt(e.orelse, depth + 1)
            return "yes" if a == b == "yes" else (a if a != "yes" else b)
        return "unknown:" + type(e).__name__

    def how_has_stmt(self, how, depth):
        if how[0] == "val":
            return self.result_has_stmt(how[1], depth)
        if how[0] == "aug":
            v = self.result_has_stmt(how[1], depth)
            if v == "yes":
                return "yes"
            prev = [self.how_has_stmt(h, depth + 1) for h in how[2]]
            if prev and all(p == "yes" for p in prev):
                return "yes"
            return v if not prev else next(p for p in prev if p != "yes")
        if how[0] == "param":
            return "unknown:parameter"
        return "unknown:" + how[0]

    def closure_returns_stmt(self, call):
        if getattr(self, "_in_f", False):
            return "yes"  # coinductive: the recursive call is as good as the base cases
        self._in_f = True
        try:
            return self._closure_returns_stmt(call)
        finally:
            self._in_f = False

    def _closure_returns_stmt(self, call):
        f = next((n for n in ast.walk(self.func) if isinstance(n, ast.FunctionDef) and n.name == "f"), None)
        if f is None:
            return "unknown:f"
        worst = "yes"
        for r in ast.walk(f):
            if isinstance(r, ast.Return) and r.value is not None and self.mod.enclosing_func(r) is f:
                v = self.result_has_stmt(r.value, 1)
                if v != "yes" and not v.startswith("unknown"):
                    return v + f" (return at line {r.lineno} of the nested-loop builder)"
                if v != "yes":
                    worst = v
        return worst

    def nonempty(self, e, site, depth=0):
        """-> 'yes' | 'maybe:<why>' | 'unknown:<why>'"""
        if depth > 8:
            return "unknown:depth"
        if isinstance(e, ast.List):
            return "yes" if e.elts else "maybe:empty list literal"
        if isinstance(e, ast.BoolOp) and isinstance(e.op, ast.Or):
            return "yes" if any(self.nonempty(v, site, depth + 1) == "yes" for v in e.values) else self.nonempty(e.values[-1], site, depth + 1)
        if isinstance(e, ast.BinOp) and isinstance(e.op, ast.Add):
            l, r = self.nonempty(e.left, site, depth + 1), self.nonempty(e.right, site, depth + 1)
            return "yes" if "yes" in (l, r) else l
        if isinstance(e, ast.Attribute) and e.attr == "stmts":
            # guarded by an enclosing `if X.stmts`
            base = norm(e)
            for pol, t in _enclosing_tests(site, self.func):
                if pol == "pos" and (norm(t) == base or base in [norm(v) for v in getattr(t, "values", [])]):
                    return "yes"
            v = self.result_has_stmt(e.value, depth + 1)
            if v == "yes":
                return "yes"
            return ("unknown:" + v[8:]) if v.startswith("unknown:") else "maybe:" + v
        if isinstance(e, ast.Name):
            defs = self.reach.at.get(id(e))
            if not defs:
                return "unknown:no reaching definition"
            if any(isinstance(c.func, ast.Attribute) and c.func.attr in ("append", "extend", "insert") and isinstance(c.func.value, ast.Name)
                   and c.func.value.id == e.id for c in pyq.calls(self.func)):
                return "unknown:list is filled by append()"
            out = []
            for h in defs:
                if h[0] == "val":
                    out.append(self.nonempty(h[1], h[1], depth + 1))
                elif h[0] == "aug":
                    out.append("unknown:augmented")
                else:
                    out.append("unknown:" + h[0])
            bad = [o for o in out if o != "yes"]
            return "yes" if not bad else bad[0]
        if isinstance(e, ast.IfExp):
            a, b = self.nonempty(e.body, site, depth + 1), self.nonempty(e.orelse, site, depth + 1)
            return "yes" if a == b == "yes" else (a if a != "yes" else b)
        return "unknown:" + type(e).__name__


def check(ctx, src):
    ctx.rule("O0", "every field of the node class that CPython requires (ASDL modifier not `?`) is supplied at the construction site, directly, by a **dict, or by a later store")
    ctx.rule("O1", "a required expression field never receives `Result.expr` (None for statement-only or empty results) unless guarded; `.force_expr` or an `or` fallback is required")
    ctx.rule("O2", "statement lists that the validator requires to be non-empty (bodies of def/class/for/while/if/with/try/handler/case, Try handlers-or-finalbody, Import names, Compare ops) are provably non-empty")
    ctx.rule("O3", "names stored into Name/arg/MatchAs/ExceptHandler/def from user symbols pass through _nonconst (None/True/False cannot be identifiers); AugAssign/AnnAssign/NamedExpr targets are of the kinds Python accepts")
    ctx.rule("FUNNEL", "errors leave the compiler only as HyLanguageError subclasses: HyASTCompiler.compile passes HyLanguageError through and wraps the rest; "
             "pattern_macro converts NoParseError to a syntax error; macro calls run under MacroExceptions; explicit raises in compile functions are user-facing")
    comp = compq.Compiler(src)
    n_sites = 0
    for m in (comp.rm, comp.cp, comp.sc):
        reaches = {}
        for call, classes, kwargs, splats, pos, via in astoblig.constructions(m):
            f = m.enclosing_func(call)
            if f is None:
                continue
            q = m.qual_of(call)
            ctx.functions.add(f"{m.rel}:{q}")
            n_sites += 1
            top = f
            while m.enclosing_func(top) is not None:
                top = m.enclosing_func(top)
            if id(top) not in reaches:
                reaches[id(top)] = Reach(top)
            reach = reaches[id(top)]
            rvars = compq.result_vars(top)
            ne = NonEmpty(m, top, reach, rvars)
            # positional arguments of ast.X(...) calls fill fields in order
            supplied = set(kwargs) | _later_stores(m, call)
            unknown_splat = False
            for s in splats:
                alts = astoblig.splat_keys(m, call, s)
                if alts is None:
                    if isinstance(s, ast.Call) and dotted(s.func) == "digest_type_params":
                        supplied.add("type_params?")
                    else:
                        unknown_splat = True
                else:
                    for a in alts:
                        if a:
                            supplied |= set(a)
            fits = []
            for cls in classes:
                g = astoblig.grammar(cls)
                if g:
                    fits.append(not [fld for fld, typ, mod_ in g if mod_ != "?" and fld not in supplied and (cls, fld) not in UNPARSE_TOLERATES_MISSING])
            indirect_ok = len(classes) > 1 and any(fits)
            lam_extra = set()
            if isinstance(call.func, ast.Name):
                # node = lambda x, **kw: asty.AnnAssign(x, annotation=…, simple=…, **kw): the lambda supplies fields too
                for n2 in ast.walk(top):
                    if isinstance(n2, ast.Assign) and isinstance(n2.value, ast.Lambda) and isinstance(n2.value.body, ast.Call) and \
                            any(isinstance(t, ast.Name) and t.id == call.func.id for t in n2.targets):
                        lam_extra |= {k.arg for k in n2.value.body.keywords if k.arg}
            supplied |= lam_extra
            for cls in classes:
                g = astoblig.grammar(cls)
                if g is None or not g:
                    continue
                if len(classes) > 1 and False:
                    pass
                if len(classes) > 1:
                    this_fits = not [fld for fld, typ, mod_ in g if mod_ != "?" and fld not in supplied and (cls, fld) not in UNPARSE_TOLERATES_MISSING]
                    if not this_fits and indirect_ok:
                        continue  # this candidate class cannot be the one constructed here (another one fits the keywords)
                if via == "ast" and call.args:
                    for (fld, _, _), a in zip(g, call.args):
                        supplied.add(fld)
                        kwargs.setdefault(fld, a)
                key0 = f"{m.rel}|{q}|{cls}"
                # ---- O0
                missing = [fld for fld, typ, mod_ in g if mod_ != "?" and fld not in supplied]
                missing_hard = [x for x in missing if (cls, x) not in UNPARSE_TOLERATES_MISSING]
                if "type_params?" in supplied and missing_hard == ["type_params"]:
                    # digest_type_params returns {} when there are no type parameters
                    ctx.bad("O0", key0 + "|type_params", f"{cls} is built without `type_params` when the form has no :tp (digest_type_params returns {{}}); "
                            "ast.unparse/hy2py then fails with AttributeError", m.rel, call.lineno, witness="(deftype T int) through hy2py")
                    missing_hard.remove("type_params")
                if missing_hard and not unknown_splat:
                    ctx.bad("O0", key0 + "|" + ",".join(missing_hard), f"{cls} is constructed without required field(s) {missing_hard}", m.rel, call.lineno,
                            witness="any program reaching this construction: compile() raises TypeError('required field missing') or ast.unparse raises AttributeError")
                elif unknown_splat and missing_hard:
                    ctx.unres("O0", key0, f"** argument not understood; fields {missing_hard} may come from it")
                else:
                    ctx.ok("O0", key0 + f"|line-free:{norm(call)[:40]}", "all required fields supplied", nontrivial=bool(splats))
                # ---- O1 / O2
                for fld, typ, mod_ in g:
                    if fld not in kwargs:
                        continue
                    val = kwargs[fld]
                    if typ in ("expr", "pattern") and mod_ in ("", "*") and not (cls, fld) in (("Dict", "keys"), ("arguments", "kw_defaults")):
                        leaves = []
                        if mod_ == "*":
                            if isinstance(val, ast.List):
                                for el in val.elts:
                                    leaves += astoblig.value_sources(el)
                            elif isinstance(val, ast.ListComp):
                                leaves += astoblig.value_sources(val.elt)
                        else:
                            leaves = astoblig.value_sources(val)
                        for leaf in leaves:
                            if isinstance(leaf, ast.Attribute) and leaf.attr == "expr" and _is_result(leaf.value, rvars):
                                _o1(ctx, m, top, q, cls, fld, leaf, val)
                    if typ in ("stmt", "excepthandler", "alias", "cmpop", "withitem", "match_case") and mod_ == "*" and fld in astoblig.NONEMPTY.get(cls, ()):
                        v = ne.nonempty(val, call)
                        key = f"{m.rel}|{q}|{cls}.{fld}|{norm(val)[:60]}"
                        if v == "yes":
                            ctx.ok("O2", key, "provably non-empty")
                        elif v.startswith("maybe:"):
                            ctx.bad("O2", key, f"{cls}.{fld} can be empty: {v[6:]}", m.rel, call.lineno,
                                    witness="put `(do)` (or nothing) in the corresponding slot: compile() raises ValueError('empty body on …')")
                        else:
                            ctx.unres("O2", key, v)
                # Try needs handlers or finalbody
                if cls in ("Try", "TryStar") and "handlers" in kwargs and "finalbody" in kwargs:
                    a, b = ne.nonempty(kwargs["handlers"], call), ne.nonempty(kwargs["finalbody"], call)
                    key = f"{m.rel}|{q}|{cls}.handlers-or-finalbody"
                    early = next((n for n in ast.walk(top) if isinstance(n, ast.If) and n.body and isinstance(n.body[-1], ast.Return)
                                  and norm(n.test) in ("not (catchers or finalbody)", "not catchers and (not finalbody)")), None)
                    if "yes" in (a, b):
                        ctx.ok("O2", key, "one of them provably non-empty")
                    elif early is not None:
                        # the forms guarantee an except clause or a finally clause; what remains is that a finally clause
                        # that is present never compiles to an empty list: every definition reaching `finalbody=` is the
                        # literal [] (no clause) or provably non-empty
                        fb = kwargs["finalbody"]
                        defs = [h[1] for h in (ne.reach.at.get(id(fb)) or []) if h[0] == "val"] if isinstance(fb, ast.Name) else [fb]
                        verdicts = ["yes" if (isinstance(d, ast.List) and not d.elts) else ne.nonempty(d, call) for d in defs]
                        if defs and all(v == "yes" for v in verdicts):
                            ctx.ok("O2", key, "finalbody is [] (no finally clause) or has a Pass fallback")
                        elif any(v.startswith("maybe:") for v in verdicts):
                            why = next(v for v in verdicts if v.startswith("maybe:"))[6:]
                            ctx.bad("O2", key, f"with a finally clause and no except clause, finalbody can be empty ({why}); Python rejects a Try with neither handlers nor finalbody",
                                    m.rel, call.lineno, witness="(try 1 (finally (do)))")
                        else:
                            ctx.unres("O2", key, f"finalbody: {verdicts}")
                    else:
                        ctx.unres("O2", key, f"handlers: {a}; finalbody: {b}")
    # --- expression context: _storeize rebuilds nested targets recursively and must hand its context constructor on
    stz = comp.cp.func("HyASTCompiler._storeize")
    if stz is not None:
        ctxp = next((a.arg for a in stz.args.args[len(stz.args.args) - len(stz.args.defaults):]), None)
        for c in pyq.calls(stz):
            if dotted(c.func) == "self._storeize":
                passed = len(c.args) >= 3 or any(k.arg == ctxp for k in c.keywords)
                ctx.decide("O3", f"{comp.cp.rel}|_storeize|recursive call forwards {ctxp}|{norm(c)[:40]}", passed,
                           f"`{norm(c)[:60]}` does not pass `{ctxp}` on: elements of a tuple/list target get the default Store context whatever the statement is",
                           comp.cp.rel, c.lineno, witness="(del [a b]) -> ValueError: expression must have Del context but has Store instead")
    ctx.need(n_sites >= 150, f"only {n_sites} AST construction sites found (162 confirmed by hand)")
    ctx.floor("O0", 150)
    ctx.floor("O2", 15)
    _o3(ctx, comp)
    _funnel(ctx, src, comp)


def _is_result(e, rvars):
    if isinstance(e, ast.Name):
        return e.id in rvars
    if isinstance(e, ast.Subscript):
        return _is_result(e.value, rvars) or (isinstance(e.value, ast.Name) and e.value.id == "v")
    return compq.is_compile_call(e)


def _o1(ctx, m, func, q, cls, fld, leaf, val):
    key = f"{m.rel}|{q}|{cls}.{fld}|{norm(leaf)}"
    rf = astoblig.ResultFacts(m, func)
    g = rf.expr_guarded(leaf)
    if g:
        ctx.ok("O1", key, f"guarded ({g})")
        return
    txt = norm(leaf)
    inner = leaf.value if isinstance(leaf, ast.Attribute) else None
    if isinstance(inner, ast.Call) and compq.is_compile_call(inner):
        why = compq.statement_free(inner, func)
        if why:
            ctx.ok("O1", key, f"statement-free sub-form: {why}")
            return
    ctx.bad("O1", key, f"required field {cls}.{fld} receives `{txt}`, which is None when the sub-form compiles to statements only (or to nothing)",
            m.rel, leaf.lineno, witness="put `(do)` or `(setv x 1)` in the corresponding slot: compile() raises ValueError/TypeError instead of a Hy error")


def _o3(ctx, comp):
    """_nonconst guard at every place a user symbol becomes a binding name."""
    world = idflow.World(comp.mods, comp.macro_funcs)
    sites = [
        ("compile_assign", lambda c: isinstance(c.func, ast.Attribute) and c.func.attr == "rename", 1, "(setv None (if x (do (f) 1) 2))"),
        ("compile_arguments_set", lambda c: dotted(c.func) == "asty.arg", "arg", "(fn [None] 1)"),
        ("compile_function_def", lambda c: dotted(c.func) == "compiler.scope.define", 0, "(defn None [] 1)"),
        ("compile_class_expression", lambda c: dotted(c.func) == "compiler.scope.define", 0, "(defclass None [])"),
    ]
    for fname, pred, which, wit in sites:
        f = comp.rm.func(fname)
        ctx.require(f is not None, f"{fname} not found")
        cs = [c for c in pyq.calls(f) if pred(c)]
        ctx.need(len(cs) >= 1, f"{fname}: the binding site the _nonconst rule watches is gone")
        for c in cs:
            arg = c.args[which] if isinstance(which, int) and len(c.args) > which else next((k.value for k in c.keywords if k.arg == which), None)
            ok = arg is not None and _through_nonconst(arg, world.fn(comp.rm, f), world)
            ctx.check(ok, "O3", f"{comp.rm.rel}|{fname}|{norm(c.func)}|_nonconst", f"the name reaching `{norm(c.func)}` does not pass through _nonconst", comp.rm.rel, c.lineno,
                      witness=wit + " -> ValueError: identifier field can't represent 'None' constant", detail=norm(arg) if arg is not None else "")
    # compile_pattern captures and the except variable
    cpat = comp.rm.func("compile_pattern")
    for c in pyq.calls(cpat):
        d = dotted(c.func)
        if d in ("asty.MatchAs", "asty.MatchStar", "asty.MatchMapping"):
            for k in c.keywords:
                if k.arg in ("name", "rest") and not (isinstance(k.value, ast.Constant) and k.value.value is None):
                    txt = norm(k.value)

                    def name_ok(e, depth=0):
                        """True: the name is checked; False: it is not; None: its origin is not recognised."""
                        t = norm(e)
                        if isinstance(e, ast.Constant) and e.value is None:
                            return True
                        if isinstance(e, ast.IfExp):
                            r = [name_ok(e.body, depth + 1), name_ok(e.orelse, depth + 1)]
                            return False if False in r else (None if None in r else True)
                        if "_nonconst" in t:
                            return True
                        if "_capture_name(" in t:
                            cn = comp.rm.func("_capture_name")
                            return cn is not None and pyq.contains(cn, lambda n: isinstance(n, ast.Call) and (dotted(n.func) or "").endswith("_nonconst")) is not None \
                                and pyq.contains(cn, lambda n: isinstance(n, ast.If) and "Symbol('_')" in norm(n.test)) is not None
                        if isinstance(e, ast.Name) and depth < 4:
                            defs = [n.value for n in ast.walk(cpat) if isinstance(n, ast.Assign) and len(n.targets) == 1 and isinstance(n.targets[0], ast.Name) and n.targets[0].id == e.id]
                            if e.id in [a.arg for a in cpat.args.args] or not defs:
                                return False if e.id in [a.arg for a in cpat.args.args] else None
                            r = [name_ok(v, depth + 1) for v in defs]
                            return False if False in r else (None if None in r else True)
                        return False

                    ok = name_ok(k.value)
                    # `value` in the Symbol arm is protected by the earlier singleton arm (str(value) in None/True/False)
                    if not ok and d == "asty.MatchAs" and txt == "mangle(value)":
                        prior = pyq.contains(cpat, lambda n: isinstance(n, ast.If) and "str(value) in ('None', 'True', 'False')" in norm(n.test))
                        ok = True if prior is not None else ok
                    key = f"{comp.rm.rel}|compile_pattern|{d}.{k.arg}|{pysrc.stable(k.value)}"
                    ctx.decide("O3", key, ok, f"capture name `{txt}` is not checked with _nonconst", comp.rm.rel, c.lineno,
                               witness="(match x [a #* None] 1) / (match x {\"k\" 1 #** None} 1): ValueError from compile()", detail="constant names excluded")
    ct = comp.rm.func("compile_try_expression")
    # the except variable: the name handed to scope.add(NAME, ...) inside the handler loop; the value it was given
    adds = [c for c in pyq.calls(ct) if isinstance(c.func, ast.Attribute) and c.func.attr == "add" and len(c.args) == 2 and isinstance(c.args[0], ast.Name)]
    ev = adds[0].args[0].id if adds else None
    defs = [n for n in ast.walk(ct) if isinstance(n, ast.Assign) and any(isinstance(x, ast.Name) and x.id == ev for t in n.targets for x in ast.walk(t))
            and isinstance(n.value, ast.Call) and any(isinstance(c, ast.Call) and (dotted(c.func) or "").split(".")[-1] in ("mangle", "_nonconst", "str") for c in ast.walk(n.value))] if ev else []
    verdict = None if not defs else all(any(isinstance(c, ast.Call) and (dotted(c.func) or "").endswith("_nonconst") for c in ast.walk(n.value)) for n in defs)
    ctx.decide("O3", f"{comp.rm.rel}|compile_try_expression|except-name|_nonconst", verdict, "the except variable is not checked with _nonconst",
               comp.rm.rel, defs[0].lineno if defs else ct.lineno, witness="(try 1 (except [None E] 2))", detail=norm(defs[0].value) if defs else "")
    # AugAssign target kinds
    ag = comp.rm.func("compile_augassign_expression")
    ctx.require(ag is not None, "compile_augassign_expression not found")
    st = pyq.contains(ag, lambda n: isinstance(n, ast.Assign) and "_storeize" in norm(n.value))
    guard = pyq.contains(ag, _kind_guard)
    ctx.check(st is not None and guard is not None, "O3", f"{comp.rm.rel}|compile_augassign_expression|target-kind",
              "AugAssign.target comes from _storeize, which also returns Tuple/List/Starred; Python only accepts Name/Attribute/Subscript there",
              comp.rm.rel, ag.lineno, witness="(+= [a b] 1) -> SystemError/TypeError from compile()", detail="target kind is restricted")
    ca = comp.rm.func("compile_assign")
    ann = pyq.contains(ca, lambda n: isinstance(n, ast.Call) and dotted(n.func) == "asty.AnnAssign")
    ctx.need(ann is not None, "compile_assign: AnnAssign site not found")
    guard = pyq.contains(ca, _kind_guard)
    ctx.check(guard is not None, "O3", f"{comp.rm.rel}|compile_assign|AnnAssign.target-kind",
              "AnnAssign.target comes from _storeize unrestricted; Python rejects a tuple or list target in an annotated assignment",
              comp.rm.rel, ann.lineno, witness="(annotate [a b] int) / (setv #^ int [a b] 1) -> SystemError/TypeError from compile()", detail="target kind is restricted")


def _kind_guard(n):
    """`if <isinstance test on the stored target mentioning node kinds>: <syntax error>`"""
    if not isinstance(n, ast.If):
        return False
    t = norm(n.test)
    if "isinstance(" not in t or not any(k in t for k in ("ast.Name", "ast.Tuple", "ast.List", "ast.Starred")):
        return False
    return pyq.contains(n.body, lambda x: isinstance(x, ast.Raise) or (isinstance(x, ast.Call) and (dotted(x.func) or "").endswith("_syntax_error"))) is not None


def _through_nonconst(e, fn, world, depth=0):
    if depth > 6:
        return False
    if isinstance(e, ast.Call):
        d = dotted(e.func) or ""
        if d.split(".")[-1] == "_nonconst":
            return True
        if d.split(".")[-1] in ("mangle", "str") and e.args:
            return _through_nonconst(e.args[0], fn, world, depth + 1)
        return False
    if isinstance(e, ast.Name):
        owner, defs = fn.lookup_node(e)
        if not defs:
            return False
        return all(h[0] == "val" and _through_nonconst(h[1], owner, world, depth + 1) for h in defs)
    return False


def _funnel(ctx, src, comp):
    cp, mc = comp.cp, comp.mc
    f = cp.func("HyASTCompiler.compile")
    ctx.require(f is not None, "HyASTCompiler.compile not found")
    tr = [t for t in pyq.walk_no_nested(f) if isinstance(t, ast.Try)]
    ctx.need(len(tr) == 1, "HyASTCompiler.compile no longer has one try")
    hs = [(norm(h.type) if h.type is not None else "<bare>", h) for h in tr[0].handlers]
    names = [n for n, _ in hs]
    key = f"{cp.rel}|HyASTCompiler.compile"
    ctx.check("HyLanguageError" in names and "Exception" in names and names.index("HyLanguageError") < names.index("Exception"), "FUNNEL", key + "|order",
              f"handlers are {names}: HyLanguageError must be passed through before the catch-all", cp.rel, tr[0].lineno,
              witness="a user's syntax error is reported as 'Internal Compiler Bug'", detail=str(names))
    for n, h in hs:
        if n in ("HyCompileError", "HyLanguageError"):
            rer = len(h.body) >= 1 and isinstance(h.body[-1], ast.Raise) and (h.body[-1].exc is None or (isinstance(h.body[-1].exc, ast.Name) and h.body[-1].exc.id == h.name))
            ctx.check(rer, "FUNNEL", key + f"|except {n}", f"`except {n}` must re-raise the same exception", cp.rel, h.lineno, detail="re-raised unchanged")
        if n == "Exception":
            r = h.body[-1] if h.body else None
            ok = isinstance(r, ast.Raise) and r.exc is not None and "HyCompileError" in norm(r.exc)
            ctx.check(ok, "FUNNEL", key + "|except Exception", "the catch-all must convert to HyCompileError", cp.rel, h.lineno, detail="raise HyCompileError(...)")
    ca = [c for c in pyq.calls(tr[0]) if dotted(c.func) == "self.compile_atom"]
    ctx.check(len(ca) == 1 and any(part == "body" for _, part in pyq.enclosing_try_parts(ca[0])), "FUNNEL", key + "|atom-in-try", "compile_atom is not called inside the try",
              cp.rel, f.lineno, detail="inside try")
    # pattern_macro: NoParseError -> syntax error
    pm = mc.func("pattern_macro.dec.wrapper_maker.wrapper")
    ctx.need(pm is not None, "pattern_macro wrapper not found")
    t = [t for t in pyq.walk_no_nested(pm) if isinstance(t, ast.Try)]
    ok = False
    if t:
        for h in t[0].handlers:
            if h.type is not None and norm(h.type) == "NoParseError":
                ok = pyq.contains(h.body, lambda n: isinstance(n, ast.Raise) and n.exc is not None and "_syntax_error" in norm(n.exc)) is not None
        ok = ok and pyq.contains(t[0].body, lambda n: isinstance(n, ast.Call) and dotted(n.func) == "pattern.parse") is not None
    ctx.check(ok, "FUNNEL", f"{mc.rel}|pattern_macro.wrapper|NoParseError", "pattern.parse is not wrapped so that NoParseError becomes a Hy syntax error", mc.rel, pm.lineno,
              witness="(if 1) raises funcparserlib.NoParseError -> reported as an internal compiler bug", detail="NoParseError -> _syntax_error")
    # macroexpand: the macro call runs under MacroExceptions
    me = mc.func("macroexpand")
    calls_m = [c for c in pyq.calls(me) if isinstance(c.func, ast.Name) and c.func.id == "m"]
    ctx.need(len(calls_m) == 1, "macroexpand: the macro call site was not found")
    inside = False
    n = calls_m[0]
    while n is not None and n is not me:
        n = n._parent
        if isinstance(n, ast.With) and any("MacroExceptions" in norm(i.context_expr) for i in n.items):
            inside = True
    ctx.check(inside, "FUNNEL", f"{mc.rel}|macroexpand|MacroExceptions", "the macro function is called outside `with MacroExceptions(...)`", mc.rel, calls_m[0].lineno,
              witness="a macro raising TypeError escapes as TypeError instead of HyMacroExpansionError", detail="inside with MacroExceptions")
    mx = mc.func("MacroExceptions.__exit__")
    ctx.require(mx is not None, "MacroExceptions.__exit__ not found")
    rz = [r for r in ast.walk(mx) if isinstance(r, ast.Raise) and r.exc is not None and "HyMacroExpansionError" in norm(r.exc)]
    conv = None
    if len(rz) == 1:
        gs = [str(g) for g in pyq.guard_texts(rz[0], mx)]
        conv = True if gs == ["exc_type is not None", "not issubclass(exc_type, HyLanguageError)"] else False
    ctx.decide("FUNNEL", f"{mc.rel}|MacroExceptions.__exit__|convert", conv, "non-HyLanguageError exceptions are not converted to HyMacroExpansionError", mc.rel, mx.lineno,
              detail="converted")
    # explicit raises in compile functions
    errs = src.py("hy/errors.py")
    hy_errs = set()
    changed = True
    bases = {c: [norm(b) for b in n.bases] for c, n in errs.classes.items()}
    hy_errs = {"HyLanguageError"}
    while changed:
        changed = False
        for c, bs in bases.items():
            if c not in hy_errs and any(b in hy_errs for b in bs):
                hy_errs.add(c)
                changed = True
    user_ok = hy_errs | {"SyntaxError"}
    for m in (comp.rm, comp.cp):
        for r in ast.walk(m.tree):
            if isinstance(r, ast.Raise) and r.exc is not None:
                q = m.qual_of(r)
                if not (q.startswith("compile_") or q.startswith("HyASTCompiler.") or q in ("render_quoted_form", "digest_type_params", "get_c_op")):
                    continue
                e = r.exc
                name = dotted(e.func) if isinstance(e, ast.Call) else dotted(e)
                last = (name or "").split(".")[-1]
                key = f"{m.rel}|{q}|raise {last}"
                fnode = m.enclosing_func(r)
                top = fnode
                while m.enclosing_func(top) is not None:
                    top = m.enclosing_func(top)
                if last in user_ok or last == "_syntax_error":
                    ctx.ok("FUNNEL", key, "user-facing error")
                elif top in comp.macro_funcs and top.name.startswith("compile_") and m is comp.rm:
                    ctx.ok("FUNNEL", key, f"{last} raised inside a pattern macro: converted by MacroExceptions", nontrivial=False)
                elif q in ("HyASTCompiler.compile",):
                    ctx.ok("FUNNEL", key, "the funnel itself", nontrivial=False)
                elif last == "TypeError" and q in ("Result.rename", "Result.__add__"):
                    ctx.ok("FUNNEL", key, "internal invariant", nontrivial=False)
                else:
                    ctx.unres("FUNNEL", key, f"raises {last} outside a pattern macro")
    # bare next(): StopIteration is not a Hy error; outside a pattern macro it surfaces as "Internal Compiler Bug"
    for m in (comp.rm, comp.cp):
        for c in pyq.calls(m.tree):
            if dotted(c.func) == "next" and len(c.args) == 1 and not c.keywords:
                q = m.qual_of(c)
                if not (q.startswith("compile_") or q.startswith("HyASTCompiler.")):
                    continue
                caught = False
                for t, part in pyq.enclosing_try_parts(c):
                    if part == "body" and any(h.type is None or any(x in norm(h.type) for x in ("StopIteration", "Exception")) for h in t.handlers):
                        caught = True
                gen = isinstance(c.args[0], ast.GeneratorExp)
                top = m.enclosing_func(c)
                while top is not None and m.enclosing_func(top) is not None:
                    top = m.enclosing_func(top)
                if top in comp.macro_funcs and m is comp.rm:
                    ctx.ok("FUNNEL", f"{m.rel}|{q}|{norm(c)[:50]}", "inside a pattern macro: MacroExceptions converts StopIteration into HyMacroExpansionError", nontrivial=False)
                    continue
                ctx.decide("FUNNEL", f"{m.rel}|{q}|{norm(c)[:50]}", True if caught else (None if gen else False),
                           f"`{norm(c)[:60]}` can raise StopIteration on malformed input (e.g. a keyword without a value at the end); it is neither given a default nor caught, "
                           "so the user sees an internal compiler error instead of a Hy syntax error", m.rel, c.lineno, witness="(.m :a 1 :b) at top level", detail="inside try/except StopIteration")
    ctx.floor("FUNNEL", 12)


SELFTESTS = [
    dict(name="Return gets .expr", file=compq.RM, old="    return ret + asty.Return(expr, value=ret.force_expr)", new="    return ret + asty.Return(expr, value=ret.expr)",
         rule="O1", key="never-fires-Return.value-is-optional", allow_analysis_error=True, kind="twin"),
    dict(name="UnaryOp gets .expr", file=compq.RM, old="return operand + asty.UnaryOp(expr, op=ops[root](), operand=operand.force_expr)",
         new="return operand + asty.UnaryOp(expr, op=ops[root](), operand=operand.expr)", rule="O1", key="compile_unary_operator"),
    dict(name="while body fallback removed", file=compq.RM, old="    body_stmts = body.stmts or [asty.Pass(expr)]", new="    body_stmts = body.stmts", rule="O2", key="compile_while_expression"),
    dict(name="try body fallback removed", file=compq.RM, old="    body = body.stmts or [asty.Pass(expr)]\n\n    x = (asty.TryStar", new="    body = body.stmts\n\n    x = (asty.TryStar",
         rule="O2", key="compile_try_expression"),
    dict(name="rename without _nonconst", file=compq.RM, old="result.rename(compiler, compiler._nonconst(target))", new="result.rename(compiler, target)", rule="O3", key="compile_assign"),
    dict(name="funnel order", file=compq.CP, old="        except HyLanguageError as e:\n            # These are expected errors that should be passed to the user.\n            raise e\n        except Exception as e:",
         new="        except Exception as e:", rule="FUNNEL", key="HyASTCompiler.compile"),
    dict(name="hoist fallback twin", file=compq.RM, kind="twin", edits=[("    body_stmts = body.stmts or [asty.Pass(expr)]", "    fallback = [asty.Pass(expr)]\n    body_stmts = body.stmts or fallback")]),
]
