#!/venv/bin/python
"""seeded/MATRIX.json -> seeded/MATRIX.md (per seeded change: what it breaks, what it needs to manifest, which checks report it)."""
import glob, json, os
M = json.load(open("/verif/seeded/MATRIX.json"))
rows = []
for d in sorted(glob.glob("/verif/seeded/*/")):
    n = os.path.basename(d.rstrip("/"))
    try:
        meta = json.load(open(d + "meta.json"))
    except Exception:
        meta = {}
    v = M.get(n)
    caught = ", ".join(v) if isinstance(v, list) and v else ("—" if isinstance(v, list) else str(v))
    rows.append((n, caught, (meta.get("breaks") or "").replace("\n", " ").replace("|", "/")[:230], (meta.get("needs_to_manifest") or "").replace("\n", " ").replace("|", "/")[:160]))
byprop = {}
for n, c, b, m in rows:
    p = n.split("-")[0]
    byprop.setdefault(p, [0, 0, 0])
    byprop[p][0] += 1
    byprop[p][1] += c != "—"
    byprop[p][2] += p in c.split(", ")
with open("/verif/seeded/MATRIX.md", "w") as f:
    tot = len(rows); c_any = sum(1 for r in rows if r[1] != "—"); c_own = sum(v[2] for v in byprop.values())
    f.write(f"# Catch matrix of the kept seeded changes\n\n{c_any}/{tot} reported by some check, {c_own}/{tot} by the check of the property they were written against "
            f"(quick tier, every check run on a scratch copy with the patch applied; `tools/run_seeds_par.py`).\n\n")
    f.write("| property | seeds | caught (any check) | caught (own check) |\n|---|---|---|---|\n")
    for p in sorted(byprop):
        f.write(f"| {p} | {byprop[p][0]} | {byprop[p][1]} | {byprop[p][2]} |\n")
    f.write("\n| seed | reported by | what the change breaks | needs to manifest |\n|---|---|---|---|\n")
    for r in rows:
        f.write("| " + " | ".join(r) + " |\n")
print(c_any, tot, c_own)
