"""Path conditions as boolean functions over a finite set of atomic tests.

Several rules say "X happens exactly when <condition>".  Whether the code says so does not depend on how the condition
is spelled - nested ifs, elif chains, early returns, merged or split branches, De Morgan - so the rule is decided on
the truth table: the atomic tests occurring in the path conditions of the sites are the variables, every assignment of
truth values to them is evaluated *structurally* (and/or/not over the atoms; the atoms themselves are never evaluated),
and the resulting function is compared with the required one.  If a site's path condition contains an atom that the
rule does not know, the instance is unresolved.
"""
from __future__ import annotations

import ast
import itertools

from . import canon, pm, pyq

NEG = {ast.NotEq: ast.Eq, ast.IsNot: ast.Is, ast.NotIn: ast.In}


def _positive(e):
    """(positive form of the atom, polarity)"""
    if isinstance(e, ast.UnaryOp) and isinstance(e.op, ast.Not):
        p, pol = _positive(e.operand)
        return p, not pol
    if isinstance(e, ast.Compare) and len(e.ops) == 1 and type(e.ops[0]) in NEG:
        pos = ast.copy_location(ast.Compare(left=e.left, ops=[NEG[type(e.ops[0])]()], comparators=e.comparators), e)
        for a in ("_canon", "_parent"):
            if hasattr(e, a):
                setattr(pos, a, getattr(e, a))
        return pos, False
    return e, True


class Unknown(Exception):
    pass


class Atoms:
    """Named atomic tests: name -> pattern text (positive form)."""

    def __init__(self, **patterns):
        self.patterns = patterns

    def name_of(self, e):
        for name, pat in self.patterns.items():
            if pm.eq(e, pat) is not None:
                return name
            if isinstance(e, ast.Name) and pat == e.id:
                return name
        raise Unknown(" ".join(ast.unparse(e).split())[:80])


def evaluate(e, atoms, env):
    if isinstance(e, ast.BoolOp):
        vals = [evaluate(v, atoms, env) for v in e.values]
        return all(vals) if isinstance(e.op, ast.And) else any(vals)
    if isinstance(e, ast.UnaryOp) and isinstance(e.op, ast.Not):
        return not evaluate(e.operand, atoms, env)
    if isinstance(e, ast.Constant) and isinstance(e.value, bool):
        return e.value
    p, pol = _positive(e)
    if p is not e:
        v = evaluate(p, atoms, env)
        return v if pol else not v
    return env[atoms.name_of(e)]


def site_holds(site, func, atoms, env, ignore=()):
    """Is the path condition of `site` true under env?  Guards whose atoms are all in `ignore` are skipped."""
    for test, pol in pyq.guards(site, func):
        try:
            v = evaluate(test, atoms, env)
        except Unknown as u:
            if any(pm.eq(test, ig) is not None or pm.find(test, ig) is not None for ig in ignore):
                continue
            raise
        if v != pol:
            return False
    return True


def equivalent(sites, func, atoms, required, ignore=(), feasible=None, free_unknown=False):
    """Does `some site is reached` coincide with required(env) for every (feasible) truth assignment?
    -> (True, None) | (False, counterexample env) | (None, unknown atom text)
    free_unknown: a test the rule does not know is taken as an independent condition (it may hold or not): if the
    result then differs from the required function for some value of it, the sites depend on an extra condition."""
    if free_unknown:
        extra = {}
        for _ in range(4):
            at2 = Atoms(**{**atoms.patterns, **extra})
            v, info = equivalent(sites, func, at2, required, ignore, feasible)
            if v is not None or not isinstance(info, str):
                if v is False and extra and isinstance(info, dict):
                    info = {k: (val if not k.startswith("X") else f"{extra[k]} = {val}") for k, val in info.items()}
                return v, info
            if len(info) >= 80:
                return None, info
            extra[f"X{len(extra)}"] = info
        return None, info
    names = list(atoms.patterns)
    try:
        for values in itertools.product((False, True), repeat=len(names)):
            env = dict(zip(names, values))
            if feasible is not None and not feasible(env):
                continue
            got = any(site_holds(s, func, atoms, env, ignore) for s in sites)
            if got != bool(required(env)):
                return False, env
    except Unknown as u:
        return None, str(u)
    return True, None


def mentions(sites, func, pattern):
    """Does the path condition of some site contain the atom `pattern` (in either polarity)?"""
    for site in sites:
        for test, pol in pyq.guards(site, func):
            for n in ast.walk(test):
                if isinstance(n, ast.expr):
                    p, _ = _positive(n)
                    if pm.eq(p, pattern) is not None:
                        return True
    return False


def decide(sites, func, atoms, required, must_depend_on=(), feasible=None, ignore=()):
    """equivalent(), plus: when the condition contains unknown atoms but does not mention an atom the required function
    depends on, the site is reached regardless of that atom - a violation.  -> (verdict, explanation)"""
    if not sites:
        return None, "no site found"
    v, info = equivalent(sites, func, atoms, required, ignore=ignore, feasible=feasible)
    if v is None:
        for name in must_depend_on:
            if not mentions(sites, func, atoms.patterns[name]):
                return False, f"the condition no longer depends on `{atoms.patterns[name]}` (it contains `{info}` instead)"
        return None, f"unknown condition `{info}`"
    return v, (f"differs for {info}" if info else "")
