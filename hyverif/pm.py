"""Matching of source fragments against canonical trees, modulo renaming of function locals.

A pattern is ordinary Python text (an expression or one or more statements).  It is parsed, brought into the
same canonical form as the analysed modules (canon.py) and compared structurally with a node:

  * a Name of the node that is a *local variable* of its enclosing function(s) may differ from the pattern's
    name, as long as the correspondence is one-to-one within the comparison (so `escaping = not escaping`
    matches `esc = not esc`); parameters, attributes, globals and callees must agree literally;
  * the pattern name `__` matches any expression, `f(___)` a call of f with any arguments; a pattern statement `...`
    matches any run of statements;
  * positions, contexts and type comments are ignored.

`NormText` is the string returned by pysrc.norm(): it compares equal to a plain string when either the texts
are equal or the string, read as a pattern, matches the node.  That makes every rule written as
`norm(node) == "source text"` insensitive to local renames and to the rewrites canon.py normalises.
"""
from __future__ import annotations

import ast
import functools

from . import canon

FUNC = (ast.FunctionDef, ast.AsyncFunctionDef, ast.Lambda)
_SKIP_FIELDS = {"lineno", "col_offset", "end_lineno", "end_col_offset", "ctx", "type_comment", "type_ignores", "kind"}


@functools.lru_cache(maxsize=4096)
def parse_pattern(text):
    """-> ('expr', node) | ('stmts', [nodes]) | None"""
    try:
        body = canon.canonical_snippet(text)
    except (SyntaxError, ValueError, RecursionError):
        return None
    if len(body) == 1 and isinstance(body[0], ast.Expr) and not _is_ellipsis(body[0]):
        return ("expr", body[0].value)
    return ("stmts", body)


def _is_ellipsis(st):
    return isinstance(st, ast.Expr) and isinstance(st.value, ast.Constant) and st.value.value is Ellipsis


def _params(f):
    a = f.args
    out = {x.arg for x in a.posonlyargs + a.args + a.kwonlyargs}
    if a.vararg:
        out.add(a.vararg.arg)
    if a.kwarg:
        out.add(a.kwarg.arg)
    return out


def scope_info(node):
    """(locals, fixed) for the function(s) enclosing node: names bound there (renameable) and parameter names (fixed)."""
    chain = []
    n = node
    while n is not None:
        if isinstance(n, FUNC):
            chain.append(n)
        n = getattr(n, "_parent", None)
    if isinstance(node, FUNC) and node not in chain:
        chain.insert(0, node)
    locs, fixed = set(), {"self", "cls"}
    for f in chain:
        info = getattr(f, "_pm_scope", None)
        if info is None:
            b, p = set(), _params(f)
            body = f.body if isinstance(f.body, list) else [f.body]
            stack = list(body)
            declared = set()
            while stack:
                x = stack.pop()
                if isinstance(x, (ast.FunctionDef, ast.AsyncFunctionDef, ast.ClassDef)):
                    continue
                if isinstance(x, ast.Lambda):
                    continue
                if isinstance(x, ast.Global):
                    declared |= set(x.names)
                if isinstance(x, ast.Name) and isinstance(x.ctx, (ast.Store, ast.Del)):
                    b.add(x.id)
                if isinstance(x, ast.ExceptHandler) and x.name:
                    b.add(x.name)
                if isinstance(x, (ast.Import, ast.ImportFrom)):
                    continue
                stack.extend(ast.iter_child_nodes(x))
            info = (b - declared - p, p)
            try:
                f._pm_scope = info
            except AttributeError:
                pass
        locs |= info[0]
        fixed |= info[1]
    return locs - fixed, fixed


def single_definition(name_node):
    """The value of the only assignment to this local in its function (a named sub-expression), if there is exactly one
    and it is a plain `name = expr` statement that is not inside a loop."""
    f = name_node
    while f is not None and not isinstance(f, (ast.FunctionDef, ast.AsyncFunctionDef)):
        f = getattr(f, "_parent", None)
    if f is None:
        return None
    cache = getattr(f, "_pm_defs", None)
    if cache is None:
        cache = {}
        for x in ast.walk(f):
            if isinstance(x, ast.Name) and isinstance(x.ctx, (ast.Store, ast.Del)):
                cache.setdefault(x.id, []).append(x)
            elif isinstance(x, ast.arg):
                cache.setdefault(x.arg, []).append(x)
        try:
            f._pm_defs = cache
        except AttributeError:
            pass
    stores = cache.get(name_node.id, [])
    if len(stores) != 1:
        return None
    st = getattr(stores[0], "_parent", None)
    if not (isinstance(st, ast.Assign) and len(st.targets) == 1 and st.targets[0] is stores[0]):
        return None
    q = st
    while q is not None and q is not f:
        if isinstance(q, (ast.For, ast.While, ast.AsyncFor)):
            return None
        q = getattr(q, "_parent", None)
    return st.value


class Match:
    def __init__(self, locals_=(), fixed=(), bind=None):
        self.locals = set(locals_)
        self.fixed = set(fixed)
        self.fwd = dict(bind or {})  # pattern name -> node name
        self.rev = {v: k for k, v in self.fwd.items()}

    def name(self, p, n):
        if p == "__":
            return True
        if p in self.fwd or n in self.rev:
            return self.fwd.get(p) == n and self.rev.get(n) == p
        if p == n:
            self.fwd[p] = n
            self.rev[n] = p
            return True
        if n in self.locals and p not in self.fixed and n not in self.fixed:
            self.fwd[p] = n
            self.rev[n] = p
            return True
        return False

    def node(self, p, n):
        if isinstance(p, ast.Name) and p.id == "__" and isinstance(n, ast.expr):
            return True
        if type(p) is not type(n):
            if isinstance(n, ast.Name) and isinstance(n.ctx, ast.Load) and isinstance(p, ast.expr) and not isinstance(p, ast.Name) and n.id in self.locals:
                d = single_definition(n)
                if d is not None:
                    return self.node(p, d)
            return False
        if isinstance(p, ast.Name):
            return self.name(p.id, n.id)
        if isinstance(p, ast.ExceptHandler):
            if (p.name is None) != (n.name is None):
                return False
            if p.name is not None and not self.name(p.name, n.name):
                return False
            return self.opt(p.type, n.type) and self.block(p.body, n.body)
        if isinstance(p, ast.Call) and len(p.args) == 1 and not p.keywords and isinstance(p.args[0], ast.Name) and p.args[0].id == "___":
            return self.node(p.func, n.func)  # f(___) : any arguments
        if isinstance(p, (ast.Nonlocal,)):
            return len(p.names) == len(n.names) and all(self.name(a, b) for a, b in zip(p.names, n.names))
        for fld in p._fields:
            if fld in _SKIP_FIELDS:
                continue
            a, b = getattr(p, fld, None), getattr(n, fld, None)
            if isinstance(a, list):
                if not isinstance(b, list):
                    return False
                if a and isinstance(a[0], ast.stmt) or b and isinstance(b[0], ast.stmt):
                    if not self.block(a, b):
                        return False
                    continue
                if len(a) != len(b):
                    return False
                for x, y in zip(a, b):
                    if not self.any(x, y):
                        return False
            elif not self.any(a, b):
                return False
        return True

    def opt(self, a, b):
        if a is None or b is None:
            return a is b
        return self.node(a, b)

    def any(self, a, b):
        if isinstance(a, ast.AST):
            return isinstance(b, ast.AST) and self.node(a, b)
        if isinstance(b, ast.AST):
            return False
        return a == b and type(a) is type(b)

    def block(self, ps, ns):
        """Statement lists; `...` in the pattern matches any run of statements (backtracking)."""
        if not ps:
            return not ns
        if _is_ellipsis(ps[0]):
            for k in range(len(ns) + 1):
                saved = (dict(self.fwd), dict(self.rev))
                if self.block(ps[1:], ns[k:]):
                    return True
                self.fwd, self.rev = saved
            return False
        if not ns:
            return False
        saved = (dict(self.fwd), dict(self.rev))
        if self.node(ps[0], ns[0]) and self.block(ps[1:], ns[1:]):
            return True
        self.fwd, self.rev = saved
        return False


def _matcher(node, bind=None):
    locs, fixed = scope_info(node) if isinstance(node, ast.AST) else (set(), set())
    return Match(locs, fixed, bind)


def eq(node, pattern, bind=None):
    """Does `node` (an expression, a statement or a list of statements) match the pattern text?
    Returns the name binding (dict, possibly empty) or None."""
    pp = parse_pattern(pattern)
    if pp is None or node is None:
        return None
    kind, p = pp
    anchor = node[0] if isinstance(node, list) and node else node
    m = _matcher(anchor, bind)
    if isinstance(node, list):
        ok = kind == "stmts" and m.block(p, node)
    elif isinstance(node, ast.stmt):
        if kind == "expr":
            ok = isinstance(node, ast.Expr) and m.node(p, node.value)
        else:
            ok = m.block(p, [node])
    elif isinstance(node, ast.expr):
        if kind == "expr" and isinstance(p, ast.Name) and p.id != "__" and not (bind and p.id in bind):
            ok = isinstance(node, ast.Name) and node.id == p.id  # a bare name only matches itself
        else:
            ok = kind == "expr" and m.node(p, node)
    else:
        ok = False
    if not ok and getattr(anchor, "_canon", False):
        d = near(node, pattern, bind)
        if d:
            _LOG.append(d)
    return m.fwd if ok else None


def find(root, pattern, bind=None, nested=True):
    """First node under `root` (AST or list of statements) matching the pattern.  For multi-statement patterns the
    result is the first statement of the first matching consecutive run inside some block."""
    for hit in findall(root, pattern, bind, nested):
        return hit
    d = near_anywhere(root, pattern, bind)
    if d:
        _LOG.append(d)
    return None


def findall(root, pattern, bind=None, nested=True):
    pp = parse_pattern(pattern)
    if pp is None or root is None:
        return
    kind, p = pp
    roots = root if isinstance(root, list) else [root]
    bare = kind == "expr" and isinstance(p, ast.Name) and p.id != "__"
    for r in roots:
        for n in ast.walk(r):
            if bare:
                if isinstance(n, ast.Name) and n.id == p.id:  # a bare name only matches itself
                    yield n
            elif kind == "expr":
                if isinstance(n, ast.expr):
                    m = _matcher(n, bind)
                    if m.node(p, n):
                        n._pm_bind = m.fwd
                        yield n
            else:
                for fld in ("body", "orelse", "finalbody"):
                    blk = getattr(n, fld, None)
                    if isinstance(blk, list) and blk and isinstance(blk[0], ast.stmt):
                        for i in range(len(blk)):
                            m = _matcher(blk[i], bind)
                            if _prefix(m, p, blk[i:]):
                                blk[i]._pm_bind = m.fwd
                                yield blk[i]
                if isinstance(n, ast.ExceptHandler) or isinstance(n, getattr(ast, "match_case", ())):
                    blk = n.body
                    for i in range(len(blk)):
                        m = _matcher(blk[i], bind)
                        if _prefix(m, p, blk[i:]):
                            blk[i]._pm_bind = m.fwd
                            yield blk[i]
    if isinstance(root, list) and kind == "stmts":
        for i in range(len(root)):
            m = _matcher(root[i], bind)
            if _prefix(m, p, root[i:]):
                root[i]._pm_bind = m.fwd
                yield root[i]


def _prefix(m, ps, ns):
    """Do the statements `ns` start with a run matching `ps`?"""
    return m.block(list(ps) + [_ELLIPSIS], ns)


_ELLIPSIS = ast.Expr(value=ast.Constant(value=Ellipsis))


class NormText(str):
    """Normalised text of a node that also matches pattern text modulo canonical form and local renames."""

    __slots__ = ("node",)

    def __new__(cls, text, node=None):
        s = super().__new__(cls, text)
        s.node = node
        return s

    def __eq__(self, other):
        if str.__eq__(self, other) is True:
            return True
        if isinstance(other, NormText) or not isinstance(other, str) or self.node is None or not getattr(self.node, "_canon", False):
            return False
        if isinstance(self.node, ast.Name):
            return False  # a bare name is only equal to itself
        if eq(self.node, other) is not None:
            return True
        d = near(self.node, other)
        if d:
            _LOG.append(d)
        return False

    def __ne__(self, other):
        return not self.__eq__(other)

    __hash__ = str.__hash__

    def __contains__(self, item):
        if str.__contains__(self, item):
            return True
        if self.node is None or isinstance(item, NormText) or len(item) < 6 or not getattr(self.node, "_canon", False):
            return False
        if find(self.node, item) is not None:
            return True
        d = near_anywhere(self.node, item)
        if d:
            _LOG.append(d)
        return False


class Binder:
    """A correspondence between pattern names and the names of the analysed function that is shared by several
    matches, so that a role (`the conversion variable`) identified by one pattern is the same variable in the next."""

    def __init__(self):
        self.map = {}

    def eq(self, node, pattern):
        r = eq(node, pattern, bind=self.map)
        if r is None:
            return False
        self.map.update(r)
        return True

    def find(self, root, pattern):
        n = find(root, pattern, bind=self.map)
        if n is not None:
            self.map.update(getattr(n, "_pm_bind", {}))
        return n

    def findall(self, root, pattern):
        return list(findall(root, pattern, bind=self.map))

    def name(self, pattern_name):
        return self.map.get(pattern_name)


# ---------------------------------------------------------------------------------------------------------------
# Near misses: telling "the construct is here but differs in a detail" from "the construct is not recognisable"
# ---------------------------------------------------------------------------------------------------------------

_LOG = []          # near-miss descriptions of failed comparisons since the last decision
NEAR_MIN_SIZE = 7  # patterns smaller than this never count as near misses
NEAR_RATIO = 0.75
NEAR_MAX_DIFFS = 2


def take_log():
    out = list(_LOG)
    del _LOG[:]
    return out


def _size(n):
    if isinstance(n, list):
        return sum(_size(x) for x in n)
    if not isinstance(n, ast.AST):
        return 0
    return 1 + sum(_size(getattr(n, f, None)) for f in n._fields if f not in _SKIP_FIELDS)


def _txt(x):
    try:
        if isinstance(x, list):
            return "; ".join(_txt(y) for y in x)[:80]
        return " ".join(ast.unparse(x).split())[:80] if isinstance(x, ast.AST) else repr(x)
    except Exception:
        return "<?>"


def _align(m, p, n, diffs):
    """Number of pattern nodes matched when aligning pattern p with node n top-down; differing parts go to `diffs`."""
    if isinstance(p, list) or isinstance(n, list):
        if not (isinstance(p, list) and isinstance(n, list)):
            diffs.append((_txt(p), _txt(n)))
            return 0
        if p and isinstance(p[0], ast.stmt) and any(_is_ellipsis(x) for x in p):
            return _size(p) if m.block(p, n) else (diffs.append((_txt(p), _txt(n))) or 0)
        if len(p) != len(n):
            # align the common prefix and suffix; the middle is one difference
            k = 0
            i = 0
            while i < min(len(p), len(n)) and _quick_same(m, p[i], n[i]):
                k += _size(p[i]); i += 1
            j = 0
            while j < min(len(p), len(n)) - i and _quick_same(m, p[-1 - j], n[-1 - j]):
                k += _size(p[-1 - j]); j += 1
            diffs.append((_txt(p[i:len(p) - j]), _txt(n[i:len(n) - j])))
            return k
        return sum(_align(m, a, b, diffs) for a, b in zip(p, n))
    if not isinstance(p, ast.AST):
        if isinstance(n, ast.AST) or p != n:
            diffs.append((repr(p), _txt(n)))
            return 0
        return 0
    if isinstance(p, ast.Name) and p.id == "__" and isinstance(n, ast.expr):
        return 1
    if type(p) is not type(n):
        diffs.append((_txt(p), _txt(n)))
        return 0
    saved = (dict(m.fwd), dict(m.rev))
    if m.node(p, n):
        return _size(p)
    m.fwd, m.rev = saved
    if isinstance(p, ast.Call):
        # a call of something else is another construct, not a variant of the required one
        pf, nf = _callee(p.func), _callee(n.func)
        if pf is not None and nf is not None and pf != nf:
            raise _Far()
    if isinstance(p, ast.Name):
        diffs.append((p.id, n.id))
        return 0
    k = 1
    for fld in p._fields:
        if fld in _SKIP_FIELDS:
            continue
        a, b = getattr(p, fld, None), getattr(n, fld, None)
        if a is None and b is None:
            continue
        if a is None or b is None:
            diffs.append((_txt(a) if a is not None else "nothing", _txt(b) if b is not None else "nothing"))
            continue
        k += _align(m, a, b, diffs)
    return k


class _Far(Exception):
    pass


def _callee(f):
    parts = []
    while isinstance(f, ast.Attribute):
        parts.append(f.attr)
        f = f.value
    if isinstance(f, ast.Name):
        parts.append(f.id)
        return ".".join(reversed(parts))
    return None


def _quick_same(m, a, b):
    saved = (dict(m.fwd), dict(m.rev))
    ok = m.any(a, b)
    if not ok:
        m.fwd, m.rev = saved
    return ok


def near(node, pattern, bind=None):
    """None if the node matches or is nothing like the pattern; otherwise a description of the few differences."""
    pp = parse_pattern(pattern)
    if pp is None or node is None:
        return None
    kind, p = pp
    if kind == "stmts" and isinstance(node, ast.stmt):
        node = [node]
    if kind == "expr" and isinstance(node, ast.stmt):
        if isinstance(node, ast.If) and len(node.body) == 1 and not node.orelse and isinstance(node.body[0], ast.Expr):
            inner = node.body[0]
            if eq(inner, pattern, bind) is not None:
                return f"the statement is now conditional on `{_txt(node.test)}`"
            d = near(inner, pattern, bind)
            return f"the statement is now conditional on `{_txt(node.test)}` and differs: {d}" if d else None
        if not isinstance(node, ast.Expr):
            return None
        node = node.value
    if kind == "stmts" and not isinstance(node, list):
        return None
    total = _size(p)
    if total < NEAR_MIN_SIZE:
        return None
    anchor = node[0] if isinstance(node, list) and node else node
    if not isinstance(anchor, ast.AST):
        return None
    m = _matcher(anchor, bind)
    # the required statement, but wrapped in a condition that the pattern does not have
    if kind == "stmts" and len(p) == 1 and isinstance(node, list) and len(node) == 1 and isinstance(node[0], ast.If) and not isinstance(p[0], ast.If):
        inner = node[0]
        if len(inner.body) == 1 and not inner.orelse:
            if m.block(p, inner.body):
                return f"the statement is now conditional on `{_txt(inner.test)}`"
            d = near(inner.body, pattern, bind)
            if d:
                return f"the statement is now conditional on `{_txt(inner.test)}` and differs: {d}"
    diffs = []
    try:
        got = _align(m, p, node, diffs)
    except _Far:
        return None
    if not diffs or len(diffs) > NEAR_MAX_DIFFS or got < NEAR_RATIO * total:
        return None
    if all(a.isidentifier() and b.isidentifier() for a, b in diffs):
        return None  # only variable names differ: a renaming / re-use of locals the matcher could not align, not a deviation
    if all(a in ("", "nothing") for a, b in diffs):
        return None  # only additions (an extra argument, an extra statement): what is required is all there
    return "; ".join(f"`{b}` where `{a}` is required" for a, b in diffs)


def near_anywhere(root, pattern, bind=None):
    """Best near miss of the pattern among the nodes under root (same node kind as the pattern's top)."""
    pp = parse_pattern(pattern)
    if pp is None or root is None:
        return None
    kind, p = pp
    if _size(p) < NEAR_MIN_SIZE:
        return None
    roots = root if isinstance(root, list) else [root]
    for r in roots:
        for n in ast.walk(r):
            if kind == "expr":
                if type(n) is type(p):
                    d = near(n, pattern, bind)
                    if d:
                        return d
            else:
                for fld in ("body", "orelse", "finalbody"):
                    blk = getattr(n, fld, None)
                    if isinstance(blk, list) and blk and isinstance(blk[0], ast.stmt):
                        for i in range(len(blk)):
                            if type(blk[i]) is type(p[0]) and len(blk) - i >= len(p):
                                d = near(blk[i:i + len(p)], pattern, bind)
                                if d:
                                    return d
    return None
