"""C35 — macro namespaces: lookup chain order, local-state stack pairing, local vs module installation, core-shadow warning, require's name handling."""
CANON = True

import ast

from .. import pm, boolfn, compq, pyq
from ..pysrc import dotted, norm, flat

R, CP, MC = compq.RM, compq.CP, compq.MC


def check(ctx, src):
    ctx.rule("MAC-ORDER", "macroexpand looks a name up in this order: the compiler's extra_macros (hy.eval's :macros), local states from the top of the stack down, the module, builtins (core)")
    ctx.rule("MAC-STACK", "local_state_stack is pushed only by new_local_state (from __init__ and local_state) and popped only in local_state's finally; fn, defn, defclass and non-`for` comprehensions compile their bodies under local_state()")
    ctx.rule("MAC-INSTALL", "defmacro and require choose local vs module installation by is_in_local_state(); require and import share assignment_shape; require honours _hy_export_macros / leading underscore / prefix")
    ctx.rule("MAC-WARN", "every compile-time installation of a macro is preceded by warn_on_core_shadow, which tests the mangled name against the core macros and honours the pragma through get_local_option")
    comp = compq.Compiler(src)
    mc, cp, rm = comp.mc, comp.cp, comp.rm
    me = mc.func("macroexpand")
    ctx.require(me is not None, "macroexpand not found")
    m = pyq.contains(me, lambda n: isinstance(n, ast.Assign) and isinstance(n.value, ast.BoolOp) and "compiler.extra_macros" in flat(n.value))
    ctx.need(m is not None, "macroexpand: lookup expression not found")
    t = flat(m.value)
    ctx.check("for d in [compiler.extra_macros, *(s['macros'] for s in reversed(compiler.local_state_stack))] if fn in d" in t, "MAC-ORDER", f"{MC}|macroexpand|compiler part", "extra macros must be consulted first, then local states from innermost to outermost",
              MC, m.lineno, witness="a local macro shadows hy.eval's :macros, or an outer local macro shadows an inner one", detail="[extra_macros, *reversed(local states)]")
    ctx.check("for mod in (module, builtins) if fn in getattr(mod, '_hy_macros', ())" in t and t.index("compiler.extra_macros") < t.index("(module, builtins)"), "MAC-ORDER", f"{MC}|macroexpand|module part",
              "module macros come after the compiler's namespaces and before the core macros in builtins", MC, m.lineno, witness="a core macro shadows a module macro of the same name", detail="(module, builtins) after the compiler part")
    ctx.check(isinstance(m.value.op, ast.Or), "MAC-ORDER", f"{MC}|macroexpand|first hit wins", "the two parts must be joined by `or`", MC, m.lineno, detail="or")
    # --- stack
    pushes, pops = [], []
    for mod in comp.mods:
        for c in pyq.calls(mod.tree):
            if isinstance(c.func, ast.Attribute) and isinstance(c.func.value, ast.Attribute) and c.func.value.attr == "local_state_stack":
                if c.func.attr in ("append", "insert", "extend"):
                    pushes.append(mod.qual_of(c))
                if c.func.attr in ("pop", "clear", "remove"):
                    pops.append(mod.qual_of(c))
    ctx.check(pushes == ["HyASTCompiler.new_local_state"], "MAC-STACK", "compiler|push sites", f"local_state_stack is pushed at {pushes}", CP, 0, detail=str(pushes))
    ctx.check(pops == ["HyASTCompiler.local_state"], "MAC-STACK", "compiler|pop sites", f"local_state_stack is popped at {pops}", CP, 0, detail=str(pops))
    ls = cp.func("HyASTCompiler.local_state")
    ctx.require(ls is not None, "local_state not found")
    b = ls.body
    ok = norm(b[0]) == "self.new_local_state()" and isinstance(b[1], ast.Try) and isinstance(b[1].body[0].value, ast.Yield) and [norm(s) for s in b[1].finalbody] == ["self.local_state_stack.pop()"]
    ctx.check(ok, "MAC-STACK", f"{CP}|local_state|pop in finally", "the local macro state must be popped in a finally around the yield", CP, ls.lineno,
              witness="REPL: a compile error inside (defn f [] (defmacro lm …) …) leaves lm defined at top level and later defmacros become local", detail="push; try: yield finally: pop")
    callers = [q for mod in comp.mods for q, f in mod.funcs.items() if "new_local_state" in {c.func.attr for c in pyq.calls(f) if isinstance(c.func, ast.Attribute)} and mod.enclosing_func(f) is None or False]
    nl = sorted({mod.qual_of(c) for mod in comp.mods for c in pyq.calls(mod.tree) if isinstance(c.func, ast.Attribute) and c.func.attr == "new_local_state"})
    ctx.check(nl == ["HyASTCompiler.__init__", "HyASTCompiler.local_state"], "MAC-STACK", "compiler|new_local_state callers", f"new_local_state is called from {nl}", CP, 0, detail=str(nl))
    users = sorted({rm.qual_of(c).split(".")[0] for c in pyq.calls(rm.tree) if isinstance(c.func, ast.Attribute) and c.func.attr == "local_state"})
    ctx.check(users == ["compile_class_expression", "compile_comprehension", "compile_function_def", "compile_function_lambda"], "MAC-STACK", f"{R}|local_state users", f"local_state() is entered by {users}", R, 0,
              witness="a defmacro inside a function body stays visible after the function", detail=str(users))
    iil = cp.func("HyASTCompiler.is_in_local_state")
    ctx.check(iil is not None and norm(iil.body[-1]) == "return len(self.local_state_stack) > 1", "MAC-STACK", f"{CP}|is_in_local_state", "is_in_local_state must be `len(stack) > 1`", CP, 0, detail="> 1")
    # --- install
    md = rm.func("compile_macro_def")
    ctx.require(md is not None, "compile_macro_def not found")
    g = pyq.contains(md, lambda n: isinstance(n, ast.If) and norm(n.test) == "compiler.is_in_local_state()")
    t = flat(g) if g is not None else ""
    ctx.check(g is not None and "state = compiler.local_state_stack[-1]" in t and "state['macros'][mangle(name)] = compiler.eval(fn_def)" in t and "S(local_macro_name(name))" in t, "MAC-INSTALL", f"{R}|compile_macro_def|local",
              "inside a local state a macro must be stored in the innermost state under its mangled name (and bound to its reserved local variable)", R, md.lineno, detail="local_state_stack[-1]['macros'][mangle(name)]")
    ctx.check("dotted('hy.macros.macro'), str(name)" in flat(md) and "S('eval-and-compile')" in flat(md), "MAC-INSTALL", f"{R}|compile_macro_def|module", "at module level a macro is installed with hy.macros.macro under eval-and-compile", R, md.lineno, detail="eval-and-compile (hy.macros.macro name)")
    rq = rm.func("compile_require")
    ctx.require(rq is not None, "compile_require not found")
    t = flat(rq)
    # compile-time require calls of compile_require, by their target: innermost local state iff in a local state, else the module
    rcalls = [c for c in pyq.calls(rq) if dotted(c.func) == "require" and len(c.args) >= 2]
    loc_calls = [c for c in rcalls if norm(c.args[1]) == "compiler.local_state_stack[-1]['macros']"]
    mod_calls = [c for c in rcalls if norm(c.args[1]) == "compiler.module"]
    AT = boolfn.Atoms(L="compiler.is_in_local_state()", R="rest", D="readers")
    v1, c1 = boolfn.equivalent(loc_calls, rq, AT, lambda e: (e["R"] or not e["D"]) and e["L"])
    v2, c2 = boolfn.equivalent(mod_calls, rq, AT, lambda e: (e["R"] or not e["D"]) and not e["L"])
    kwok = all({k.arg: norm(k.value) for k in c.keywords} == {"assignments": "assignments", "prefix": "prefix", "compiler": "compiler"} for c in rcalls) and len(rcalls) == len(loc_calls) + len(mod_calls)
    if len(rcalls) != len(loc_calls) + len(mod_calls) or not rcalls:
        v1 = v2 = None      # a call whose target is neither of the two expressions: the choice is made some other way
    ctx.decide_tt("MAC-INSTALL", f"{R}|compile_require|local", None if v1 is None else (v1 and kwok and bool(loc_calls)),
               f"inside a local state require must install into the innermost state (differs for {c1})", R, rq.lineno, detail="local_state_stack[-1]['macros']")
    ctx.decide_tt("MAC-INSTALL", f"{R}|compile_require|module", None if v2 is None else (v2 and kwok and bool(mod_calls)), f"at module level require installs into the module (differs for {c2})", R, rq.lineno, detail="compiler.module")
    shape = sorted({rm.qual_of(c) for c in pyq.calls(rm.tree) if dotted(c.func) == "assignment_shape"})
    ctx.check(shape == ["compile_import", "compile_require"], "MAC-INSTALL", f"{R}|assignment_shape users", f"assignment_shape is used by {shape}", R, 0, detail=str(shape))
    rf = mc.func("require")
    ctx.require(rf is not None, "require not found")
    t = flat(rf)
    ctx.check(pm.find(rf, "getattr(source_module, '_hy_export_macros', [k for k in source_macros.keys() if not k.startswith('_')])") is not None and pm.find(rf, "assignments == 'ALL' or k in source_exports") is not None, "MAC-INSTALL", f"{MC}|require|exports",
              "`*` must bring in _hy_export_macros or, without it, the macros not starting with an underscore; 'ALL' everything", MC, rf.lineno, detail="_hy_export_macros / no leading underscore")
    ctx.check("if prefix: prefix += '.'" in t and "alias = mangle(prefix + alias)" in t and "_name = mangle(name)" in t and "target_macros[alias] = source_macros[_name]" in t, "MAC-INSTALL", f"{MC}|require|names",
              "macros are installed as mangle(prefix.alias) from mangle(name)", MC, rf.lineno, detail="mangle(prefix + alias)")
    ctx.check("out.extend(require(f'{source_module.__name__}.{mangle(name)}', target_module or target, 'ALL', prefix=alias))" in t, "MAC-INSTALL", f"{MC}|require|submodule fallback",
              "when the package has no macros, each requested name is required as a submodule into the same target (module object or dict)", MC, rf.lineno,
              witness="(require pkg [sub]) loaded from bytecode installs sub's macros into hy.macros instead of the requiring module", detail="target_module or target")
    # --- warning
    w = cp.func("HyASTCompiler.warn_on_core_shadow")
    ctx.require(w is not None, "warn_on_core_shadow not found")
    t = flat(w)
    wc = [c for c in pyq.calls(w) if dotted(c.func) == "warnings.warn"]
    if len(wc) != 1:
        ctx.unres("MAC-WARN", f"{CP}|warn_on_core_shadow|test", "the warning call was not recognised")
    else:
        at = sorted(str(a) for a in pyq.atoms(wc[0], w))
        ctx.decide("MAC-WARN", f"{CP}|warn_on_core_shadow|test", at == sorted(["mangle(name) in getattr(builtins, '_hy_macros', {})", "self.get_local_option('warn_on_core_shadow', True)"]),
                   f"the warning is issued under {at}; it must test the mangled name against the core macros and honour the pragma", CP, w.lineno,
                   witness="(defmacro do-mac [] 1) does not warn (its core name is do_mac)", detail="mangle(name) in builtins._hy_macros and option")
    ctx.check(pyq.contains(md, lambda n: isinstance(n, ast.Call) and norm(n) == "compiler.warn_on_core_shadow(name)") is not None, "MAC-WARN", f"{R}|compile_macro_def|warns", "defmacro does not warn about shadowing a core macro", R, md.lineno, detail="warn_on_core_shadow(name)")
    tr = flat(rf)
    wcall = pyq.contains(rf, lambda n: isinstance(n, ast.Call) and dotted(n.func) == "compiler.warn_on_core_shadow")
    inst = pyq.contains(rf, lambda n: isinstance(n, ast.Assign) and isinstance(n.targets[0], ast.Subscript) and isinstance(n.value, ast.Subscript) and "macros" in norm(n.targets[0].value) and "macros" in norm(n.value.value))
    ctx.check(wcall is not None and inst is not None and (wcall.lineno, wcall.col_offset) < (inst.lineno, inst.col_offset) and pyq.has_atoms(wcall, rf, ["compiler"]), "MAC-WARN", f"{MC}|require|warns",
              "require must warn (with the unmangled, prefixed alias) before installing", MC, rf.lineno, detail="warn before install")
    glo = cp.func("HyASTCompiler.get_local_option")
    t = flat(glo) if glo else ""
    ctx.check("for s in reversed(self.local_state_stack) if key in s" in t, "MAC-WARN", f"{CP}|get_local_option", "local options are looked up from the innermost state outwards", CP, 0, detail="reversed(stack)")
    pg = rm.func("compile_pragma")
    t = flat(pg) if pg else ""
    ctx.check("compiler.local_state_stack[-1]['warn_on_core_shadow'] = bool(compiler.eval(value))" in t, "MAC-WARN", f"{R}|compile_pragma|option", "the pragma must set the option in the innermost local state", R, 0, detail="stack[-1]")
    ctx.floor("MAC-INSTALL", 8)


SELFTESTS = [
    dict(name="local state not popped on error", file=CP, old="        self.new_local_state()\n        try:\n            yield\n        finally:\n            self.local_state_stack.pop()", new="        self.new_local_state()\n        yield\n        self.local_state_stack.pop()", rule="MAC-STACK", key="local_state"),
    dict(name="outer local macro first", file=MC, old="*(s['macros'] for s in reversed(compiler.local_state_stack))]", new="*(s['macros'] for s in compiler.local_state_stack)]", rule="MAC-ORDER", key="compiler part"),
    dict(name="warn on unmangled name", file=CP, old='                mangle(name) in getattr(builtins, "_hy_macros", {}) and', new='                str(name) in getattr(builtins, "_hy_macros", {}) and', rule="MAC-WARN", key="warn_on_core_shadow"),
    dict(name="submodule fallback loses target", file=MC, old="                    target_module or target,\n", new="                    target,\n", rule="MAC-INSTALL", key="submodule fallback"),
    dict(name="core before module", file=MC, old="for mod in (module, builtins)", new="for mod in (builtins, module)", rule="MAC-ORDER", key="module part"),
]
