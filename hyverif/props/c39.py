"""C39 — hy.eval returns the last value and restores the caller's `hy` binding on every exit."""
CANON = True

import ast

from .. import pyq
from ..pysrc import dotted, norm

REL = "hy/compiler.py"


def _is_hy_subscript(n, var):
    return (isinstance(n, ast.Subscript) and isinstance(n.value, ast.Name) and n.value.id == var
            and isinstance(n.slice, ast.Constant) and n.slice.value == "hy")


def check(ctx, src):
    ctx.rule("EVAL-SNAPSHOT", "hy_eval_user snapshots locals['hy'] (when present) before the try that calls hy_eval")
    ctx.rule("EVAL-RESTORE", "the hy_eval call is inside that try; its finally restores the snapshot on one arm and pops the implicitly added "
             "'hy' on the other, contains no return/raise/break, and is not conditional on success")
    ctx.rule("EVAL-RETURN", "hy_eval_user returns exactly the value hy_eval returned; hy_eval executes the statements first and returns the value "
             "of evaluating the final expression, both taken from one hy_compile(get_expr=True) result")
    mod = src.py(REL)
    f = mod.func("hy_eval_user")
    ctx.require(f is not None, "hy_eval_user not found")
    ctx.functions.add(f"{REL}:hy_eval_user")
    # the binding of 'hy' in the user's namespace, decided by running the function on a finite abstract domain: for the key
    # absent / truthy / falsy / None before the call, and the evaluation returning, raising after it bound `hy`, or raising
    # before, the namespace must be left as it was and the evaluation's value returned (hyverif/absint.py)
    from .. import absint
    dn = "locals" if any(a.arg == "locals" for a in f.args.args) else None
    v_ai, why_ai = absint.check_restore(f, dn, "hy", "hy_eval") if dn else (None, "no `locals` parameter")
    ctx.decide("EVAL-RESTORE", f"{REL}|hy_eval_user|abstract run", v_ai, f"hy.eval does not leave the user's binding of `hy` as it found it: {why_ai}", REL, f.lineno,
               witness="(hy.eval '1 :locals d) with d = {'hy': None} / {'hy': 0} / without 'hy', also when the evaluated code raises", detail="save, evaluate, restore on every exit", robust=True)
    body = pyq.body_without_doc(f)
    calls = [c for c in pyq.calls(f) if dotted(c.func) == "hy_eval"]
    ctx.need(len(calls) == 1, f"expected exactly one hy_eval call in hy_eval_user, found {len(calls)}")
    call = calls[0]
    tries = pyq.protecting_tries(call, f)
    key = f"{REL}|hy_eval_user"
    if not tries:
        ctx.bad("EVAL-RESTORE", key + "|try", "the hy_eval call is not inside a try with a finally", REL, call.lineno,
                witness="(hy.eval '(/ 1 0) :locals d) with a dict lacking 'hy' leaves d['hy'] behind; with a user value under 'hy' it is lost")
        return
    tr = tries[-1]
    ctx.ok("EVAL-RESTORE", key + "|try", "hy_eval(...) is in the body of a try/finally")
    # the locals variable: the thing subscripted with 'hy' in the finally
    lv = None
    for n in ast.walk(ast.Module(body=tr.finalbody, type_ignores=[])):
        if isinstance(n, ast.Subscript) and isinstance(n.slice, ast.Constant) and n.slice.value == "hy" and isinstance(n.value, ast.Name):
            lv = n.value.id
    if lv is None:
        ctx.bad("EVAL-RESTORE", key + "|restore", "the finally never writes <locals>['hy'] back", REL, tr.lineno,
                witness="a user-supplied value under 'hy' is replaced by the hy module after any hy.eval")
        return
    # snapshot: an assignment before the try whose value reads lv['hy']
    tr_i = next(i for i, st in enumerate(body) if st is tr or pyq.contains(st, lambda n: n is tr))
    snap = None
    for st in body[:tr_i]:
        for n in ast.walk(st):
            if isinstance(n, ast.Assign) and pyq.contains(n.value, lambda x: _is_hy_subscript(x, lv)):
                snap = n
    ctx.check(snap is not None, "EVAL-SNAPSHOT", key + "|snapshot", f"{lv}['hy'] is not saved before the try", REL, tr.lineno,
              witness="the old value cannot be restored", detail=norm(snap) if snap else "")
    if snap is None:
        return
    sv = snap.targets[0].id if isinstance(snap.targets[0], ast.Name) else None
    # the snapshot must be guarded by "'hy' in locals" and default to a falsy value
    guard = getattr(snap, "_parent", None)
    ctx.check(isinstance(guard, ast.If) and "'hy'" in norm(guard.test) and " in " in norm(guard.test), "EVAL-SNAPSHOT", key + "|snapshot-guard",
              "the snapshot is not conditional on 'hy' being present", REL, snap.lineno, detail=norm(guard.test) if isinstance(guard, ast.If) else "")
    init = [n for st in body[:tr_i] for n in ast.walk(st) if isinstance(n, ast.Assign) and n is not snap
            and isinstance(n.targets[0], ast.Name) and n.targets[0].id == sv]
    ctx.check(bool(init) and isinstance(init[0].value, ast.Constant) and not init[0].value.value, "EVAL-SNAPSHOT", key + "|snapshot-init",
              f"`{sv}` has no falsy initial value for the case that 'hy' was absent", REL, snap.lineno, detail=norm(init[0]) if init else "")
    # snapshot value must be distinguishable from 'absent' even if the old value is falsy: a 1-tuple
    ctx.check(isinstance(snap.value, ast.Tuple) and len(snap.value.elts) == 1, "EVAL-SNAPSHOT", key + "|snapshot-boxed",
              "the snapshot is not boxed (a falsy old value such as 0 or None would be treated as absent and popped)", REL, snap.lineno,
              witness="(hy.eval '1 :locals {\"hy\" 0}) removes the user's 'hy' entry", detail="boxed in a 1-tuple")

    # --- finalbody shape -------------------------------------------------------------
    fin = tr.finalbody
    bad_exit = pyq.contains(fin, lambda n: isinstance(n, (ast.Return, ast.Raise, ast.Break, ast.Continue)))
    ctx.check(bad_exit is None, "EVAL-RESTORE", key + "|finally-exit", "the finally contains return/raise/break, which changes what escapes hy.eval",
              REL, fin[0].lineno, detail="no control transfer in finally")
    restore = pyq.contains(fin, lambda n: isinstance(n, ast.Assign) and pyq.contains(n.targets[0], lambda x: _is_hy_subscript(x, lv))
                           and pyq.contains(n.value, lambda x: isinstance(x, ast.Name) and x.id == sv))
    pop = pyq.contains(fin, lambda n: isinstance(n, ast.Call) and dotted(n.func) == f"{lv}.pop" and n.args
                       and isinstance(n.args[0], ast.Constant) and n.args[0].value == "hy")
    ctx.check(restore is not None, "EVAL-RESTORE", key + "|restore", "the finally does not assign the snapshot back to <locals>['hy']", REL, fin[0].lineno,
              witness="after hy.eval the caller's own 'hy' value is gone", detail=norm(restore) if restore else "")
    ctx.check(pop is not None and len(pop.args) == 2, "EVAL-RESTORE", key + "|pop", "the finally does not pop the implicit 'hy' with a default "
              "(a bare pop raises KeyError when evaluation failed before 'hy' was added)", REL, fin[0].lineno,
              witness="(hy.eval '(/ 1 0) :locals {}) leaves 'hy' behind or masks the ZeroDivisionError with a KeyError", detail=norm(pop) if pop else "")
    if restore is not None and pop is not None:
        # they must be the two arms of one `if <snapshot>` and be reached for every non-None locals
        iff = getattr(pyq_stmt(restore), "_parent", None)
        ok_arms = isinstance(iff, ast.If) and isinstance(iff.test, ast.Name) and iff.test.id == sv and \
            pyq.contains(iff.orelse, lambda n: n is pop) is not None
        ctx.check(ok_arms, "EVAL-RESTORE", key + "|arms", f"restore and pop are not the two arms of `if {sv}:`", REL, fin[0].lineno,
                  detail="if snapshot: restore else: pop")
        # outer guard may only be `locals is not None`
        outer = getattr(iff, "_parent", None) if isinstance(iff, ast.If) else None
        if isinstance(outer, ast.If):
            ctx.check(norm(outer.test) == f"{lv} is not None", "EVAL-RESTORE", key + "|outer-guard",
                      f"the restoration is conditional on `{norm(outer.test)}`", REL, outer.lineno,
                      witness="for some dictionaries the binding is not restored", detail=norm(outer.test))
        elif outer is not tr:
            ctx.unres("EVAL-RESTORE", key + "|outer-guard", "unrecognised guard around the restoration")
    # handlers would make restoration order matter; there are none today
    ctx.check(not tr.handlers, "EVAL-RESTORE", key + "|handlers", "an except clause on this try can swallow or replace the user's exception", REL, tr.lineno,
              detail="no except clauses")

    # --- return value ------------------------------------------------------------------
    asg = call._parent
    rets = [n for n in pyq.walk_no_nested(f) if isinstance(n, ast.Return)]
    if isinstance(asg, ast.Assign) and isinstance(asg.targets[0], ast.Name):
        v = asg.targets[0].id
        ctx.check(len(rets) == 1 and isinstance(rets[0].value, ast.Name) and rets[0].value.id == v, "EVAL-RETURN", key + "|return",
                  "hy_eval_user does not return exactly the value of hy_eval", REL, rets[0].lineno if rets else f.lineno, detail=f"return {v}")
    elif isinstance(asg, ast.Return):
        ctx.ok("EVAL-RETURN", key + "|return", "returns hy_eval(...) directly")
    else:
        ctx.bad("EVAL-RETURN", key + "|return", "the value of hy_eval is not returned", REL, call.lineno)

    # --- hy_eval two-step ----------------------------------------------------------------
    he = mod.func("hy_eval")
    ctx.require(he is not None, "hy_eval not found")
    ctx.functions.add(f"{REL}:hy_eval")
    key = f"{REL}|hy_eval"
    hc = [c for c in pyq.calls(he) if dotted(c.func) == "hy_compile"]
    ctx.need(len(hc) == 1, "hy_eval no longer calls hy_compile exactly once")
    ge = [k for k in hc[0].keywords if k.arg == "get_expr"]
    ctx.check(bool(ge) and isinstance(ge[0].value, ast.Constant) and ge[0].value.value is True, "EVAL-RETURN", key + "|get_expr",
              "hy_compile is not called with get_expr=True", REL, hc[0].lineno, detail="get_expr=True")
    tgt = hc[0]._parent.targets[0] if isinstance(hc[0]._parent, ast.Assign) else None
    ctx.need(isinstance(tgt, ast.Tuple) and len(tgt.elts) == 2, "hy_eval no longer unpacks (module, expression) from hy_compile")
    v_ast, v_expr = tgt.elts[0].id, tgt.elts[1].id
    evals = [c for c in pyq.calls(he) if dotted(c.func) == "eval"]
    ex = [c for c in evals if c.args and isinstance(c.args[0], ast.Call) and dotted(c.args[0].func) == "compile" and norm(c.args[0].args[0]) == v_ast]
    ev = [c for c in evals if c.args and isinstance(c.args[0], ast.Call) and dotted(c.args[0].func) == "compile" and norm(c.args[0].args[0]) == v_expr]
    uses = lambda v: sum(1 for n in ast.walk(he) if isinstance(n, ast.Name) and n.id == v and isinstance(n.ctx, ast.Load))
    two = True if (len(ex) == 1 and len(ev) == 1) else (False if (uses(v_ast) == 0 or uses(v_expr) == 0 or len(ex) > 1 or len(ev) > 1) else None)
    ctx.decide("EVAL-RETURN", key + "|two-step", two, f"hy_eval must evaluate the statement module once and the expression once (module used {uses(v_ast)}x, expression {uses(v_expr)}x; direct evaluations {len(ex)}/{len(ev)})",
               REL, he.lineno, witness="(hy.eval '(do (setv x 1) x)) does not run the statements / returns None", detail="one exec-mode and one eval-mode evaluation")
    if len(ex) == 1 and len(ev) == 1:
        ctx.check(ex[0].lineno < ev[0].lineno and isinstance(ev[0]._parent, ast.Return), "EVAL-RETURN", key + "|order",
                  "the statements must run before the expression, and the expression's value must be returned", REL, ev[0].lineno,
                  witness="(hy.eval '(do (setv x 1) x)) evaluates x before it is assigned", detail="exec then return eval")
        m_ex = norm(ex[0].args[0].args[2]) if len(ex[0].args[0].args) > 2 else ""
        m_ev = norm(ev[0].args[0].args[2]) if len(ev[0].args[0].args) > 2 else ""
        ctx.check(m_ex == "'exec'" and m_ev == "'eval'", "EVAL-RETURN", key + "|modes", f"compile modes are {m_ex}/{m_ev}", REL, ev[0].lineno, detail="exec / eval")
        same_ns = [norm(a) for a in ex[0].args[1:]] == [norm(a) for a in ev[0].args[1:]]
        ctx.check(same_ns, "EVAL-RETURN", key + "|namespaces", "the two evaluations use different globals/locals", REL, ev[0].lineno,
                  witness="a variable set by the statements is invisible to the final expression", detail="same (globals, locals)")


def pyq_stmt(n):
    while n is not None and not isinstance(n, ast.stmt):
        n = getattr(n, "_parent", None)
    return n


SELFTESTS = [
    dict(name="restore only on success", file=REL,
         old="    finally:\n        if locals is not None:\n            if hy_was:",
         new="    except Exception:\n        raise\n    else:\n        if locals is not None:\n            if hy_was:",
         rule="EVAL-RESTORE", key="try"),
    dict(name="unboxed snapshot", file=REL, old="hy_was = (locals['hy'],)", new="hy_was = locals['hy']", rule="EVAL-SNAPSHOT", key="snapshot-boxed"),
    dict(name="pop without default", file=REL, old="locals.pop('hy', None)", new="locals.pop('hy')", rule="EVAL-RESTORE", key="pop"),
    dict(name="expression before statements", file=REL,
         old='    eval(compile(_ast, filename, "exec"), globals, locals)\n\n    # Then eval the expression context and return that\n    return eval(compile(expr, filename, "eval"), globals, locals)',
         new='    r = eval(compile(expr, filename, "eval"), globals, locals)\n    eval(compile(_ast, filename, "exec"), globals, locals)\n    return r',
         rule="EVAL-RETURN", key="order"),
    dict(name="rename value twin", file=REL, kind="twin", edits=[
        ("        value = hy_eval(\n            hytree = model,", "        result = hy_eval(\n            hytree = model,"),
        ("                locals.pop('hy', None)\n    return value", "                locals.pop('hy', None)\n    return result")]),
]
