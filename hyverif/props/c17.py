"""C17 — traceback line numbers: every located node gets its position from a model or node inside the current form."""
CANON = True

import ast

from .. import pm, astoblig, compq, pyq, readerq
from ..pyflow import Reach
from ..pysrc import dotted, norm, flat
from .c21 import check_positions

R, CP = compq.RM, compq.CP
MODEL_MAKERS = {"mkexpr", "Expression", "E", "Symbol", "S", "List", "String", "Dict", "Keyword", "Integer", "dotted", "as_model"}


def _ends_in_replace(call):
    """Is this model-constructing call (transitively) the receiver of .replace(...), or an argument of a constructor that is?"""
    n = call
    while True:
        p = getattr(n, "_parent", None)
        if isinstance(p, ast.Attribute) and p.attr == "replace" and p.value is n and isinstance(getattr(p, "_parent", None), ast.Call):
            return True
        if isinstance(p, ast.Call) and any(a is n for a in p.args) or (isinstance(p, ast.keyword)):
            q = p if isinstance(p, ast.Call) else p._parent
            d = (dotted(q.func) or "").split(".")[-1]
            if d in MODEL_MAKERS or d in ("replace",):
                n = q
                continue
            return False
        if isinstance(p, (ast.List, ast.Tuple, ast.Starred, ast.BinOp, ast.IfExp, ast.ListComp, ast.GeneratorExp)):
            n = p
            continue
        return False


def check(ctx, src):
    ctx.rule("POS-SOURCE", "the position argument of every asty.X(pos, …) construction is a model or node of the current form — never a possibly empty compiler Result (whose line number is None) unless guarded")
    ctx.rule("POS-ATTRS", "Asty copies lineno/col_offset/end_lineno/end_col_offset from start_line/start_column/end_line/end_column (or the same-named attributes of a node); _storeize copies locations; "
             "the implicit `import hy` gets locations from fix_missing_locations")
    ctx.rule("POS-SYNTH", "every form the compiler synthesises and then compiles (mkexpr/Expression/Symbol/… in the compile functions) is given the position of the user's form with .replace(…) before it is compiled")
    ctx.rule("POS-OWNER", "reader position state is written only by getc/_set_source (shared with C21)")
    ctx.rule("POS-STEP", "getc advances the column per character and the line exactly at '\\n' (shared with C21)")
    ctx.rule("POS-FILL", "start captured before the handler, end after; replace fills only unset positions (shared with C21)")
    comp = compq.Compiler(src)
    check_positions(ctx, src)
    # --- Asty
    cp = comp.cp
    pa = None
    for st in cp.classes["Asty"].body:
        if isinstance(st, ast.Assign) and norm(st.targets[0]) == "POS_ATTRS":
            pa = ast.literal_eval(st.value)
    ctx.check(pa == {"lineno": "start_line", "col_offset": "start_column", "end_lineno": "end_line", "end_col_offset": "end_column"}, "POS-ATTRS", f"{CP}|Asty.POS_ATTRS", f"POS_ATTRS is {pa}", CP, 0,
              witness="tracebacks show the end line (or the column) as the line number", detail=str(pa))
    gp = cp.func("Asty._get_pos")
    t = flat(gp) if gp else ""
    ctx.check(gp is not None and pm.find(gp, "{attr: getattr(node, hy_attr, getattr(node, attr, None)) for attr, hy_attr in Asty.POS_ATTRS.items()}") is not None, "POS-ATTRS", f"{CP}|Asty._get_pos", "_get_pos must read the model attribute, falling back to the node attribute of the same name", CP, 0, detail="model attr, else node attr")
    ga = cp.func("Asty.__getattr__")
    t = flat(ga) if ga else ""
    ctx.check("lambda x, **kwargs: getattr(ast, name)(**Asty._get_pos(x), **kwargs)" in t, "POS-ATTRS", f"{CP}|Asty.__getattr__", "asty.X(pos, …) must build ast.X with the position of its first argument", CP, 0, detail="ast.X(**_get_pos(x), **kwargs)")
    st = cp.func("HyASTCompiler._storeize")
    ctx.check(st is not None and norm(st.body[-2]) == "ast.copy_location(new_name, name)", "POS-ATTRS", f"{CP}|_storeize|copy_location", "stored names must inherit the location of the loaded name", CP, 0, detail="ast.copy_location")
    hc = cp.func("hy_compile")
    ctx.check("body.append(ast.fix_missing_locations(ast.Import([ast.alias('hy', None)])))" in flat(hc), "POS-ATTRS", f"{CP}|hy_compile|import hy located", "the implicit import must get locations", CP, 0, detail="fix_missing_locations")
    # --- position sources
    n_pos = 0
    for m in (comp.rm, comp.cp):
        reaches = {}
        for call, classes, kwargs, splats, pos, via in astoblig.constructions(m):
            if via != "asty" or pos is None:
                continue
            f = m.enclosing_func(call)
            if f is None:
                continue
            top = f
            while m.enclosing_func(top) is not None:
                top = m.enclosing_func(top)
            rvars = compq.result_vars(top)
            n_pos += 1
            key = f"{m.rel}|{m.qual_of(call)}|{'/'.join(classes)}(pos={norm(pos)[:40]})"
            leaves = astoblig.value_sources(pos) if isinstance(pos, (ast.IfExp, ast.BoolOp)) else [pos]
            risky = [l for l in leaves if isinstance(l, ast.Name) and l.id in rvars]
            # a Result that certainly has an expression or a statement is fine: added an asty node just before, or tested
            if not risky:
                ctx.ok("POS-SOURCE", key, "model / node / expression", nontrivial=False)
                continue
            l = risky[0]
            if id(top) not in reaches:
                reaches[id(top)] = Reach(top)
            defs = reaches[id(top)].at.get(id(l)) or []
            safe = bool(defs) and all(_nonempty_result(h) for h in defs)
            guarded = any(isinstance(p, ast.If) and (f"{l.id}.stmts" in norm(p.test) or f"{l.id}.expr" in norm(p.test)) for p in _parents(call, top))
            if safe or guarded:
                ctx.ok("POS-SOURCE", key, "Result with a statement/expression added on every path")
            else:
                ctx.unres("POS-SOURCE", key, f"position taken from the Result `{l.id}`, which may be empty for forms such as (do): lineno would be None")
    ctx.need(n_pos >= 140, f"only {n_pos} asty constructions with a position argument found")
    # --- synthesized forms
    n_syn = 0
    for r_ in comp.registry:
        f = r_["func"]
        for c in pyq.calls(f):
            d = (dotted(c.func) or "").split(".")[-1]
            if d not in ("mkexpr", "Expression", "E") :
                continue
            # only outermost constructor calls
            p = c._parent
            if isinstance(p, ast.Call) and (dotted(p.func) or "").split(".")[-1] in MODEL_MAKERS and any(a is c for a in p.args):
                continue
            if isinstance(p, (ast.List, ast.Starred)):
                continue
            if comp.rm.qual_of(c).startswith("compile_macro_def.E"):
                continue
            n_syn += 1
            key = f"{R}|{comp.rm.qual_of(c)}|{norm(c)[:50]}"
            ctx.check(_ends_in_replace(c), "POS-SYNTH", key, "a synthesised form is compiled without being given the position of the user's form: its nodes default to line 1", R, c.lineno,
                      witness="(+= total i None) on line 7 raises with a traceback pointing at line 1", detail=".replace(expr)")
    ctx.need(n_syn >= 6, f"only {n_syn} synthesised forms found")
    # macro output inherits the call site's position through replace_hy_obj: the promoted model must be given the position
    # by its own (recursive, for sequences) `.replace(other)` - not by a base-class call that skips the children
    mo_ = src.py("hy/models.py")
    rho = mo_.func("replace_hy_obj")
    ctx.require(rho is not None, "replace_hy_obj not found")
    rets_ = [r for r in pyq.walk_no_nested(rho) if isinstance(r, ast.Return) and r.value is not None]
    def _recursive_replace(v):
        if isinstance(v, ast.Call) and isinstance(v.func, ast.Attribute) and v.func.attr == "replace":
            base = v.func.value
            if isinstance(base, ast.Name) and base.id[:1].isupper():
                return False        # Object.replace(model, other): the class's own replace is bypassed
            return True
        return None
    vs = [_recursive_replace(r.value) for r in rets_]
    ctx.decide("POS-SYNTH", "hy/models.py|replace_hy_obj|recursive replace", None if not vs or None in vs and False not in vs else all(v is True for v in vs),
               "replace_hy_obj must position the whole promoted model with its own `.replace(other)`; calling a base class's replace leaves the children of a freshly built sequence without positions",
               "hy/models.py", rho.lineno, witness="a macro returning [1 (/ 1 0)] as a raw list: the inner form has no line number in tracebacks", detail="as_model(obj).replace(other)")
    ctx.assume("which line a concrete traceback shows is not simulated; position sources taken from possibly empty Results are listed as unresolved")
    ctx.floor("POS-ATTRS", 5)


def _parents(n, stop):
    n = getattr(n, "_parent", None)
    while n is not None and n is not stop:
        yield n
        n = getattr(n, "_parent", None)


def _nonempty_result(h):
    if h[0] == "aug":
        v = h[1]
        if isinstance(v, ast.Call) and (dotted(v.func) or "").startswith("asty."):
            return True
        return all(_nonempty_result(x) for x in h[2]) if h[2] else False
    if h[0] == "val":
        v = h[1]
        if isinstance(v, ast.BinOp):
            return any(isinstance(x, ast.Call) and (dotted(x.func) or "").startswith("asty.") for x in ast.walk(v))
        return False
    return False


SELFTESTS = [
    dict(name="augassign without replace", file=R, old="            mkexpr(root, [target], mkexpr(a_ops[root][1], rest=values)).replace(expr)", new="            mkexpr(root, [target], mkexpr(a_ops[root][1], rest=values))", rule="POS-SYNTH", key="compile_augassign_expression"),
    dict(name="end line as lineno", file=CP, old='        "lineno": "start_line",', new='        "lineno": "end_line",', rule="POS-ATTRS", key="POS_ATTRS"),
    dict(name="CR counts as newline", file="hy/reader/reader.py", old='            if c == "\\n":\n                line += 1', new='            if c in "\\r\\n":\n                line += 1', rule="POS-STEP", key="getc"),
    dict(name="let body without replace", file=R, old='        return res + compiler.compile(mkexpr("do", *body).replace(expr))', new='        return res + compiler.compile(mkexpr("do", *body))', rule="POS-SYNTH", key="compile_let"),
]
