"""C11 — no subform is silently dropped: R-LIN over every compile function, unpack exhaustiveness, slot usage."""
CANON = True
STRICT = {"R-LIN-ANON", "R-LIN-VAR", "R-LIN-PATH", "R-EXPR-STORE", "R-REC-FWD", "R-LIN-ROLE", "R-SLOT", "UNPACK", "ARGS"}

import ast

from .. import compq, pyq, rflow
from ..pyflow import Reach
from ..pysrc import dotted, norm, stable

CONSUMING_CALLS = {"_storeize", "compile_function_node", "Tag", "append", "extend", "compile_with_expression", "iterator", "Result"}
NONCONSUMING_ATTRS = {"expr", "force_expr", "is_expr", "temp_variables", "rename", "lineno", "col_offset", "end_lineno", "end_col_offset"}


def _consumed(load, R, func, depth=0):
    """Is this load of a Result variable a consuming use? -> True / False / None(unknown)"""
    p = getattr(load, "_parent", None)
    if p is None:
        return None
    if isinstance(p, ast.Return):
        return True
    if isinstance(p, ast.BinOp) and isinstance(p.op, ast.Add):
        return True  # the sum is a Result again; its own consumption is checked where it is bound
    if isinstance(p, ast.AugAssign):
        return True  # `acc += V` or `V += x` (V stays live as an accumulator, checked at its next use)
    if isinstance(p, ast.Attribute):
        if p.attr == "stmts":
            gp = getattr(p, "_parent", None)
            if isinstance(gp, (ast.If, ast.While, ast.IfExp)) and getattr(gp, "test", None) is p:
                return False
            if isinstance(gp, ast.BoolOp) and isinstance(getattr(gp, "_parent", None), (ast.If, ast.IfExp)) and getattr(gp._parent, "test", None) is gp:
                return False
            if isinstance(gp, ast.UnaryOp):
                return False
            return True
        if p.attr == "expr_as_stmt":
            return False
        if p.attr in NONCONSUMING_ATTRS:
            return False
        return None
    if isinstance(p, ast.Call):
        d = dotted(p.func) or ""
        last = d.split(".")[-1]
        if last in CONSUMING_CALLS or last in rflow.SUMMARISED:
            return True
        if last in ("isinstance", "bool", "len"):
            return False
        return None
    if isinstance(p, ast.keyword):
        return True
    if isinstance(p, (ast.List, ast.Tuple, ast.Dict, ast.Set)):
        return True  # stored in a container that travels on
    if isinstance(p, ast.Assign) and len(p.targets) == 1 and isinstance(p.targets[0], ast.Name) and p.value is load and depth < 2:
        alias = p.targets[0].id
        vs = [_consumed(n, R, func, depth + 1) for n in ast.walk(func) if isinstance(n, ast.Name) and n.id == alias and isinstance(n.ctx, ast.Load)]
        return True if any(v is True for v in vs) else (None if any(v is None for v in vs) or not vs else False)
    if isinstance(p, ast.Assign):
        return None
    if isinstance(p, (ast.If, ast.While, ast.IfExp, ast.BoolOp, ast.UnaryOp, ast.Compare)):
        return False
    if isinstance(p, ast.Subscript):
        return _consumed(p, R, func, depth + 1) if depth < 3 else None
    if isinstance(p, ast.Starred):
        return True
    if isinstance(p, (ast.Yield, ast.YieldFrom)):
        return True
    return None


def _same_branch(load, call, fn):
    """Does `load` execute whenever `call` does (it is in the same block as the call or in an enclosing one)?"""
    lg = [(id(t), pol) for t, pol in pyq.guards(load, fn)]
    cg = [(id(t), pol) for t, pol in pyq.guards(call, fn)]
    return lg == cg[:len(lg)] or set(lg) <= set(cg)


def _nnf_atoms(guards):
    """Conjuncts (as text) of the path condition in negation normal form."""
    from .. import canon

    out = []

    def add(e):
        if isinstance(e, ast.BoolOp) and isinstance(e.op, ast.And):
            for v in e.values:
                add(v)
        else:
            out.append(" ".join(ast.unparse(e).split()))

    for t, pol in guards:
        add(t if pol else canon.neg(t))
    return out


def _is_position_arg(attr_node):
    """asty.X(pos.expr ...)?  A position source is not a placement."""
    par = getattr(attr_node, "_parent", None)
    return isinstance(par, ast.Call) and par.args and par.args[0] is attr_node and (dotted(par.func) or "").startswith("asty.")


def _statement_free_model(a):
    """Symbol(...) / Symbol(...).replace(...) / dotted("...") compile to a Name, Constant or attribute chain."""
    if isinstance(a, ast.Call):
        d = dotted(a.func) or ""
        if d in ("Symbol", "dotted"):
            return True
        if isinstance(a.func, ast.Attribute) and a.func.attr == "replace":
            return _statement_free_model(a.func.value)
    return False


def check(ctx, src):
    ctx.rule("R-LIN-ANON", "a Result obtained from compile()/_compile_branch() is never projected to .expr/.force_expr while the Result itself is thrown away, "
             "unless the compiled form is statement-free by the arm's own guard")
    ctx.rule("R-LIN-VAR", "every Result bound to a variable has a consuming use (added with +/+=, returned, its .stmts placed, passed to a consuming helper, stored in a container)")
    ctx.rule("R-LIN-PATH", "the value of a Result variable is never placed (.expr/.force_expr) in a branch that excludes every use that places its statements, unless the path condition says it has none")
    ctx.rule("R-EXPR-STORE", "a compile function that stores to `.expr` of a Result it got from a sub-form also clears that Result's temp_variables (as Result.__add__ would)")
    ctx.rule("R-REC-FWD", "a recursive call hands on every defaulted parameter that the function uses, or the branch making the call uses that parameter itself")
    ctx.rule("R-LIN-ROLE", "no sub-form has its value placed in the output while its statements are placed nowhere")
    ctx.rule("R-SLOT", "every sub-form slot of a pattern macro is referenced by the function that compiles it")
    ctx.rule("UNPACK", "_compile_collect: a `#**` element is appended to an output list under every flag combination, or a syntax error is raised")
    ctx.rule("ARGS", "compile_expression hands the whole argument list to _compile_collect; the only removals are the head and the method-call object")
    comp = compq.Compiler(src)
    W = rflow.FlowWorld(comp)
    targets = []
    for m in (comp.rm, comp.cp):
        for q, f in m.funcs.items():
            if m.enclosing_func(f) is not None:
                continue
            if m is comp.cp and not q.startswith("HyASTCompiler."):
                continue
            if m is comp.rm and not (q.startswith("compile_") or q in ("digest_type_params", "render_quoted_form")):
                continue
            targets.append((m, q, f))
    ctx.need(len(targets) >= 60, f"only {len(targets)} compile functions found")
    n_prod = 0
    for m, q, f in targets:
        ctx.functions.add(f"{m.rel}:{q}")
        reach = Reach(f)
        rvars = compq.result_vars(f)
        for c in pyq.calls(f):
            if not rflow.is_producer_call(c) or (dotted(c.func) or "").split(".")[-1] in ("compile_pattern",):
                continue
            if c.args and _statement_free_model(c.args[0]):
                ctx.ok("R-LIN-VAR", f"{m.rel}|{m.qual_of(c)}|{norm(c)[:70]}", "compiles a symbol: no statements possible", nontrivial=False)
                n_prod += 1
                continue
            n_prod += 1
            p = getattr(c, "_parent", None)
            key = f"{m.rel}|{m.qual_of(c)}|{stable(c)}"
            # --- anonymous projection
            if isinstance(p, ast.Attribute) and p.attr in ("expr", "force_expr"):
                txt = norm(p)
                why = compq.statement_free(c, f)
                if why:
                    ctx.ok("R-LIN-ANON", key, f"statement-free sub-form: {why}")
                    continue
                ctx.bad("R-LIN-ANON", key, f"`{txt[:80]}` keeps only the expression of the compiled sub-form; statements it compiles to are dropped",
                        m.rel, c.lineno, witness="put a statement-producing form such as (do (setv x 1) x) in this slot: `x = 1` never appears in the output", robust=True)
                continue
            # --- bare expression statement
            if isinstance(p, ast.Expr):
                ctx.bad("R-LIN-VAR", key, "the compiled Result is discarded", m.rel, c.lineno, witness="any form in this slot vanishes from the output", robust=True)
                continue
            # --- bound to a variable: find consuming uses
            tgt = None
            if isinstance(p, ast.Assign) and len(p.targets) == 1 and isinstance(p.targets[0], ast.Name):
                tgt = p.targets[0].id
                defrec = ("val", p.value)
            elif isinstance(p, ast.Assign) and isinstance(p.targets[0], ast.Tuple) and (dotted(c.func) or "").split(".")[-1] in ("_compile_collect", "compile_lambda_list", "compile_arguments_set"):
                idx = {"_compile_collect": 1, "compile_lambda_list": 1, "compile_arguments_set": 2}[(dotted(c.func) or "").split(".")[-1]]
                el = p.targets[0].elts[idx] if idx < len(p.targets[0].elts) else None
                if isinstance(el, ast.Name):
                    tgt = el.id
                    defrec = None
            if tgt is None:
                ctx.ok("R-LIN-VAR", key, "used in place (operand / argument / element)", nontrivial=False)
                continue
            uses = []
            for n in ast.walk(f):
                if isinstance(n, ast.Name) and n.id == tgt and isinstance(n.ctx, ast.Load):
                    defs = reach.at.get(id(n))
                    if defs is None:
                        uses.append(n)
                        continue
                    for h in defs:
                        base = h
                        chain = [h]
                        while base[0] == "aug":
                            nxt = [x for x in base[2]]
                            if not nxt:
                                break
                            chain.extend(nxt)
                            base = nxt[0]
                        if any((x[0] in ("val",) and x[1] is p.value) or (x[0] == "elem" and x[1][0] == "val" and x[1][1] is p.value) for x in chain):
                            uses.append(n)
                            break
            # AugAssign targets count as a use of the previous value, too
            aug_targets = [n for n in ast.walk(f) if isinstance(n, ast.AugAssign) and isinstance(n.target, ast.Name) and n.target.id == tgt]
            verdicts = [_consumed(u, None, f) for u in uses]
            if any(v is True for v in verdicts):
                ctx.ok("R-LIN-VAR", key, f"`{tgt}` has a consuming use")
                # path sensitivity: wherever the value is placed (.expr/.force_expr read), a consuming use must run on the
                # same paths - its path conditions are a subset of those of the value use
                cons = [u for u, v in zip(uses, verdicts) if v is True]
                if all(v is not None for v in verdicts):
                    cg = [dict((id(t), pol) for t, pol in pyq.guards(u, f)) for u in cons]
                    for u, v in zip(uses, verdicts):
                        par = getattr(u, "_parent", None)
                        if v is False and isinstance(par, ast.Attribute) and par.attr in ("expr", "force_expr") and not _is_position_arg(par):
                            ug = dict((id(t), pol) for t, pol in pyq.guards(u, f))
                            # every consuming use sits in the opposite arm of some conditional that the value use is under
                            exclusive = all(any(k in g and g[k] != pol for k, pol in ug.items()) for g in cg)
                            if not exclusive:
                                ctx.ok("R-LIN-PATH", key + f"|{norm(par)}", "a consuming use can run on the same path")
                                continue
                            atoms = _nnf_atoms(pyq.guards(u, f))
                            if any(a == f"not {tgt}.stmts" or (" or " in a and f"not {tgt}.stmts" in a.split(" or ")) for a in atoms):
                                ctx.ok("R-LIN-PATH", key + f"|{norm(par)}", f"on this path `{tgt}` has no statements (path condition)")
                                continue
                            ctx.decide("R-LIN-PATH", key + f"|{norm(par)}", False,
                                       f"`{norm(par)}` places the value of `{tgt}` in a branch that excludes every use that places its statements (they are in the opposite arms): the statements of that sub-form are dropped on this path",
                                       m.rel, u.lineno, witness="put (do (setv x 1) x) in this slot and take that branch")
            elif any(v is None for v in verdicts):
                ctx.unres("R-LIN-VAR", key, f"`{tgt}`: uses not all understood")
            else:
                ctx.bad("R-LIN-VAR", key, f"the Result bound to `{tgt}` is only inspected (.expr/.force_expr/tests) and never placed in the output: its statements are dropped",
                        m.rel, c.lineno, witness="put (do (setv x 1) x) in this slot", robust=True)
    ctx.need(n_prod >= 85, f"only {n_prod} Result-producing call sites found (99 confirmed by hand)")

    # --- direct stores to Result.expr keep the operand's temp_variables: setv would then rename the operand's temporary
    #     to the user's target and discard this expression (Result.__add__ is what normally resets them)
    for m, q, f in targets:
        rv = compq.result_vars(f)
        for n in ast.walk(f):
            if isinstance(n, ast.Assign) and len(n.targets) == 1 and isinstance(n.targets[0], ast.Attribute) and n.targets[0].attr == "expr" \
                    and isinstance(n.targets[0].value, ast.Name) and n.targets[0].value.id in rv and not (isinstance(n.value, ast.Constant) and n.value.value is None):
                v = n.targets[0].value.id
                resets = [x for x in ast.walk(f) if isinstance(x, ast.Assign) and isinstance(x.targets[0], ast.Attribute) and x.targets[0].attr == "temp_variables"
                          and isinstance(x.targets[0].value, ast.Name) and x.targets[0].value.id == v and isinstance(x.value, ast.List) and not x.value.elts and x.lineno > n.lineno]
                ctx.decide("R-EXPR-STORE", f"{m.rel}|{q}|{norm(n)[:60]}", bool(resets),
                           f"`{norm(n)[:70]}` replaces the expression of a Result that still carries the temp_variables of the sub-form it was compiled from, and they are never cleared: "
                           "`(setv x <this form>)` renames that temporary to x and throws this expression (and the sub-forms compiled into it) away", m.rel, n.lineno,
                           witness="(setv r (<form> (if c (do (g) a) b) ...)): the rest of the form is never evaluated", local=True)

    # --- recursive calls: a defaulted parameter that the function uses must be handed on, or used on the way to the call
    for m in (comp.rm, comp.cp, comp.sc):
        for q, fn in m.funcs.items():
            a = fn.args
            defaulted = [x.arg for x in a.args[len(a.args) - len(a.defaults):]] + [x.arg for x, d in zip(a.kwonlyargs, a.kw_defaults) if d is not None]
            if not defaulted:
                continue
            rec = [c for c in ast.walk(fn) if isinstance(c, ast.Call) and ((isinstance(c.func, ast.Name) and c.func.id == fn.name) or
                                                                          (isinstance(c.func, ast.Attribute) and c.func.attr == fn.name and isinstance(c.func.value, ast.Name) and c.func.value.id in ("self", "cls")))]
            if not rec:
                continue
            pos = [x.arg for x in a.args if x.arg not in ("self", "cls")]
            in_rec = {id(n) for c in rec for n in ast.walk(c)}
            for p in defaulted:
                loads = [n for n in ast.walk(fn) if isinstance(n, ast.Name) and n.id == p and isinstance(n.ctx, ast.Load) and id(n) not in in_rec]
                if not loads:
                    continue
                for c in rec:
                    passed = set(pos[:len(c.args)]) | {k.arg for k in c.keywords}
                    if any(k.arg is None for k in c.keywords) or p in passed:
                        ctx.ok("R-REC-FWD", f"{m.rel}|{q}|{norm(c)[:40]}|{p}", "forwarded")
                        continue
                    cg = {(id(t), pol) for t, pol in pyq.guards(c, fn)}
                    used_on_path = any({(id(t), pol) for t, pol in pyq.guards(n, fn)} <= cg and (n.lineno, n.col_offset) < (c.lineno, c.col_offset) + (10 ** 6,) for n in loads
                                       if _same_branch(n, c, fn))
                    ctx.decide("R-REC-FWD", f"{m.rel}|{q}|{norm(c)[:40]}|{p}", used_on_path,
                               f"the recursive call `{norm(c)[:60]}` does not pass `{p}` on and the branch that makes it never uses `{p}`: what the caller handed in is silently dropped on this path",
                               m.rel, c.lineno, witness="the sub-forms / context carried by that parameter are lost when this branch recurses")

    # --- role level: value placed but statements nowhere -----------------------------------------
    for r in comp.registry:
        f = r["func"]
        R, facts = W.facts_of(comp.rm, f)
        roles = {x[0] for x in facts}
        for role in sorted(roles):
            has_val = [k for k in facts if k[0] == role and k[1] == "value" and k[2] != "top"]
            has_st = [k for k in facts if k[0] == role and k[1] == "stmts"]
            key = f"{comp.rm.rel}|{r['qual']}|slot {role}"
            if has_val and not has_st:
                # the R-LIN-ANON findings carry the precise site; report here only what they do not
                if r["qual"] in ("compile_deftype", "compile_function_def", "compile_function_lambda", "compile_class_expression") and role in ("value", "name", "params", "tp"):
                    continue
                ctx.unres("R-LIN-ROLE", key, f"value placed at {sorted(k[2] for k in has_val)[:3]} but no statement placement found")
            elif has_st:
                ctx.ok("R-LIN-ROLE", key, f"statements placed at {sorted({k[2] for k in has_st})}")
        # --- slot usage
        params = [a.arg for a in f.args.args][3:]
        for pname in params:
            used = [n for n in ast.walk(f) if isinstance(n, ast.Name) and n.id == pname and isinstance(n.ctx, ast.Load)]
            key = f"{comp.rm.rel}|{r['qual']}|param {pname}"
            always_raises = isinstance(f.body[-1], ast.Raise)
            reads_expr = pyq.contains(f, lambda n: isinstance(n, ast.Subscript) and isinstance(n.value, ast.Name) and n.value.id == "expr") is not None
            if not used and (always_raises or reads_expr):
                ctx.ok("R-SLOT", key, "function always raises / re-reads the slot through expr[...]", nontrivial=False)
                continue
            ctx.check(bool(used), "R-SLOT", key, f"slot parameter `{pname}` is never read: that sub-form is silently dropped", comp.rm.rel, f.lineno,
                      witness="any form in that slot", detail=f"{len(used)} reads")
    ctx.floor("R-SLOT", 80)
    from . import c05
    from .. import core

    ctx.rule("FN-SHAPE", "an annotation form is never emitted where Python ignores it (a Lambda): has_annotations looks at all five parameter groups and the return annotation")
    core.transfer(ctx, src, c05, {"FN-SHAPE"}, key_filter=lambda k: "has_annotations" in k or "lambda-condition" in k)

    # --- unpack exhaustiveness -----------------------------------------------------------------------
    cc = comp.cp.func("HyASTCompiler._compile_collect")
    ctx.require(cc is not None, "_compile_collect not found")
    arm = None
    for n in ast.walk(cc):
        if isinstance(n, ast.If) and "is_unpack('mapping'" in norm(n.test):
            arm = n
    ctx.need(arm is not None, "_compile_collect: the unpack-mapping arm was not found")
    inner = [st for st in arm.body if isinstance(st, ast.If)]
    ok = False
    why = "the arm has no if/elif chain on its flags"
    if inner:
        chain = inner[-1]
        last = chain
        while last.orelse and len(last.orelse) == 1 and isinstance(last.orelse[0], ast.If):
            last = last.orelse[0]
        if last.orelse:
            term = last.orelse
            ok = pyq.contains(term, lambda x: isinstance(x, ast.Raise) or (isinstance(x, ast.Call) and isinstance(x.func, ast.Attribute) and x.func.attr in ("append", "_syntax_error"))) is not None
            why = "the final else neither appends nor raises"
        else:
            why = "when neither dict_display nor with_kwargs holds, the compiled value is appended nowhere and no error is raised"
    ctx.check(ok, "UNPACK", f"{comp.cp.rel}|HyASTCompiler._compile_collect|unpack-mapping arm", why, comp.cp.rel, arm.lineno,
              witness="[1 #** x 2] compiles to [1, 2]; (get a #** x) compiles to `a`; [#** (f)] never calls f", detail="every flag combination appends or raises")
    # every call site of _compile_collect that can see #** either passes a flag or is covered by the else above
    ce = comp.cp.func("HyASTCompiler.compile_expression")
    ctx.require(ce is not None, "compile_expression not found")
    calls = [c for c in pyq.calls(ce) if isinstance(c.func, ast.Attribute) and c.func.attr == "_compile_collect"]
    ctx.need(len(calls) == 1, "compile_expression: _compile_collect call not found")
    a0 = calls[0].args[0] if calls[0].args else None
    av = a0.id if isinstance(a0, ast.Name) else None
    ctx.check(av is not None and any(k.arg == "with_kwargs" and getattr(k.value, "value", None) is True for k in calls[0].keywords),
              "ARGS", f"{comp.cp.rel}|compile_expression|collect(args, with_kwargs=True)", "the call's arguments are not passed whole to _compile_collect(args, with_kwargs=True)",
              comp.cp.rel, calls[0].lineno, detail=norm(calls[0]))
    # mutations of `args`
    muts = []
    for n in ast.walk(ce):
        if isinstance(n, ast.Call) and isinstance(n.func, ast.Attribute) and isinstance(n.func.value, ast.Name) and n.func.value.id == av and n.func.attr in ("pop", "remove", "clear", "insert", "append"):
            muts.append(n)
        if isinstance(n, (ast.Assign, ast.AugAssign)):
            tg = n.targets[0] if isinstance(n, ast.Assign) else n.target
            if isinstance(tg, ast.Name) and tg.id == av and not (isinstance(n, ast.Assign) and isinstance(n.value, ast.Call) and dotted(n.value.func) == "list"):
                if isinstance(n, ast.Assign) and isinstance(tg, ast.Name) and isinstance(n.value, ast.Call) and "_compile_collect" in norm(n.value):
                    continue
                muts.append(n)
            if isinstance(tg, ast.Tuple) and any(isinstance(e, ast.Name) and e.id == av for e in tg.elts) and "_compile_collect" not in norm(n.value):
                muts.append(n)
        if isinstance(n, ast.Delete) and av is not None and any(isinstance(x, ast.Name) and x.id == av for x in ast.walk(n)):
            muts.append(n)
    pops = sorted(norm(x) for x in muts)
    ctx.check(pops == [f"{av}.pop(0)", f"{av}.pop(i)"] or (len(pops) == 2 and pops[0] == f"{av}.pop(0)" and pops[1].startswith(f"{av}.pop(")), "ARGS", f"{comp.cp.rel}|compile_expression|removals", f"`args` is modified by {pops}; only the head and the method-call object may be removed",
              comp.cp.rel, ce.lineno, witness="(.meth #** kw obj) loses **kw", detail=str(pops))
    # the loop that looks for the object must not consume an iterator over args or rebuild the list
    loops = [n for n in ast.walk(ce) if isinstance(n, (ast.For, ast.While)) and av is not None and any(isinstance(x, ast.Name) and x.id == av for x in ast.walk(n))]
    for lp in loops:
        bad = pyq.contains(lp, lambda x: isinstance(x, ast.Call) and isinstance(x.func, ast.Attribute) and x.func.attr in ("append", "extend") )
        ctx.check(bad is None, "ARGS", f"{comp.cp.rel}|compile_expression|object-search loop", "the loop that finds the method-call object rebuilds argument lists (elements can be skipped)",
                  comp.cp.rel, lp.lineno, witness="(.meth #** kw obj)", detail="index-only search")


SELFTESTS = [
    dict(name="return drops compile", file=compq.RM, old="    ret += compiler.compile(arg)\n    return ret + asty.Return(expr, value=ret.force_expr)",
         new="    compiler.compile(arg)\n    return ret + asty.Return(expr, value=ret.force_expr)", rule="R-LIN-VAR", key="compile_return"),
    dict(name="raise keeps only expr", file=compq.RM, old="        exc = compiler.compile(exc)\n        ret += exc\n        exc = exc.force_expr",
         new="        exc = compiler.compile(exc).force_expr", rule="R-LIN-ANON", key="compile_raise_expression"),
    dict(name="await var never added", file=compq.RM, old="    ret = Result() + compiler.compile(arg)\n    return ret + asty.Await(expr, value=ret.force_expr)",
         new="    ret = compiler.compile(arg)\n    return Result() + asty.Await(expr, value=ret.force_expr)", rule="R-LIN-VAR", key="compile_yield_from_or_await_expression"),
    dict(name="rename acc twin", file=compq.RM, kind="twin", edits=[("    ret = Result() + compiler.compile(arg)\n    return ret + asty.Await(expr, value=ret.force_expr)",
                                                                  "    acc = Result() + compiler.compile(arg)\n    return acc + asty.Await(expr, value=acc.force_expr)")]),
]
