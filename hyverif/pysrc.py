"""E1: parsed Python modules of hy/, function index, registries, small resolver."""
from __future__ import annotations

import ast

FUNC = (ast.FunctionDef, ast.AsyncFunctionDef)


def dotted(node):
    """`a.b.c` -> 'a.b.c' for Name/Attribute chains, else None."""
    parts = []
    while isinstance(node, ast.Attribute):
        parts.append(node.attr)
        node = node.value
    if isinstance(node, ast.Name):
        parts.append(node.id)
        return ".".join(reversed(parts))
    return None


def call_name(node):
    if isinstance(node, ast.Call):
        return dotted(node.func)
    return None


def const(node, default=None):
    if isinstance(node, ast.Constant):
        return node.value
    return default


def unparse(node):
    try:
        return ast.unparse(node)
    except Exception:
        return "<?>"


def norm(node):
    """Normalised statement/expression text: a line-number-free key.  The result also compares equal to pattern
    text that matches the node modulo canonical form and renaming of function locals (see pm.NormText)."""
    from .pm import NormText

    return NormText(" ".join(unparse(node).split())[:160], node if isinstance(node, ast.AST) else None)


class Module:
    def __init__(self, rel, tree, text, canon=False):
        self.rel = rel
        self.canon = canon
        self.tree = tree
        self.text = text
        self.funcs = {}  # qualname -> node
        self.classes = {}
        self._index(tree, "", None)

    def _index(self, node, prefix, parent):
        for child in ast.iter_child_nodes(node):
            if isinstance(child, (ast.expr_context, ast.operator, ast.boolop, ast.unaryop, ast.cmpop)):
                continue  # interpreter-wide singletons: never annotate them
            child._parent = node
            child._canon = self.canon
            if isinstance(child, FUNC):
                q = prefix + child.name
                child._qual = q
                self.funcs.setdefault(q, child)
                self._index(child, q + ".", child)
            elif isinstance(child, ast.ClassDef):
                q = prefix + child.name
                child._qual = q
                self.classes[q] = child
                self._index(child, q + ".", child)
            else:
                self._index(child, prefix, child)

    # -- queries ------------------------------------------------------------
    def func(self, qual):
        return self.funcs.get(qual)

    def enclosing_func(self, node):
        n = getattr(node, "_parent", None)
        while n is not None and not isinstance(n, FUNC):
            n = getattr(n, "_parent", None)
        return n

    def qual_of(self, node):
        f = node if isinstance(node, FUNC) else self.enclosing_func(node)
        return getattr(f, "_qual", "<module>") if f is not None else "<module>"

    def calls(self, root=None, name=None):
        for n in ast.walk(root or self.tree):
            if isinstance(n, ast.Call):
                cn = dotted(n.func)
                if name is None or cn == name or (cn and cn.split(".")[-1] == name):
                    yield n

    def toplevel_assign(self, name):
        """Value expression of the last module-level `name = ...`."""
        val = None
        for st in self.tree.body:
            if isinstance(st, ast.Assign):
                for t in st.targets:
                    if isinstance(t, ast.Name) and t.id == name:
                        val = st.value
            elif isinstance(st, ast.AnnAssign) and isinstance(st.target, ast.Name):
                if st.target.id == name and st.value is not None:
                    val = st.value
        return val


def parents(node):
    n = getattr(node, "_parent", None)
    while n is not None:
        yield n
        n = getattr(n, "_parent", None)


def own_nodes(func):
    """Walk a function body without descending into nested defs/lambdas/classes."""
    stack = list(func.body) if hasattr(func, "body") and isinstance(func.body, list) else [func.body]
    while stack:
        n = stack.pop()
        yield n
        for c in ast.iter_child_nodes(n):
            if isinstance(c, FUNC + (ast.ClassDef,)):
                continue
            stack.append(c)


def all_nodes(func):
    """Walk a function including nested closures (they share its variables)."""
    for st in func.body:
        yield from ast.walk(st)


def in_try_with_finally(node, stop=None):
    """Innermost enclosing Try nodes (body position only) that have a finalbody."""
    out = []
    child = node
    for p in parents(node):
        if p is stop:
            break
        if isinstance(p, (ast.Try, getattr(ast, "TryStar", ast.Try))):
            if p.finalbody and _in_list(child, p.body + sum((h.body for h in p.handlers), []) + p.orelse):
                out.append(p)
        if isinstance(p, FUNC):
            break
        child = p
    return out


def _in_list(child, lst):
    return any(child is x for x in lst)


def stmt_of(node):
    """The statement that contains `node`."""
    n = node
    while n is not None and not isinstance(n, ast.stmt):
        n = getattr(n, "_parent", None)
    return n


def decorators(func):
    for d in func.decorator_list:
        if isinstance(d, ast.Call):
            yield dotted(d.func), d
        else:
            yield dotted(d), d


# ---------------------------------------------------------------------------
# Constant folding for pure literal expressions (names of pattern macros etc.)
# ---------------------------------------------------------------------------

_SAFE_METHODS = {"split", "items", "keys", "values", "strip", "lower", "upper", "format", "join", "replace"}


class Unfoldable(Exception):
    pass


def fold(node, env=None):
    """Evaluate a pure literal expression (dicts, lists, comprehensions over
    them, str methods) using only values in `env`.  No repo code is run; names
    that are not literals in env raise Unfoldable.  Names resolving to ast
    classes etc. are mapped to opaque strings ('ast.Add')."""
    env = env or {}

    def ev(n, loc):
        if isinstance(n, ast.Constant):
            return n.value
        if isinstance(n, ast.Name):
            if n.id in loc:
                return loc[n.id]
            if n.id in env:
                return env[n.id]
            if n.id in ("None", "True", "False"):
                return {"None": None, "True": True, "False": False}[n.id]
            if n.id == "Inf":
                return float("inf")
            raise Unfoldable(n.id)
        if isinstance(n, ast.Attribute):
            d = dotted(n)
            if d and d.split(".")[0] in ("ast", "asty", "operator"):
                return Opaque(d)
            raise Unfoldable(unparse(n))
        if isinstance(n, (ast.List, ast.Tuple, ast.Set)):
            vals = []
            for e in n.elts:
                if isinstance(e, ast.Starred):
                    vals.extend(ev(e.value, loc))
                else:
                    vals.append(ev(e, loc))
            return {ast.List: list, ast.Tuple: tuple, ast.Set: set}[type(n)](vals)
        if isinstance(n, ast.Dict):
            out = {}
            for k, v in zip(n.keys, n.values):
                if k is None:
                    out.update(ev(v, loc))
                else:
                    out[ev(k, loc)] = ev(v, loc)
            return out
        if isinstance(n, ast.BinOp) and isinstance(n.op, ast.Add):
            return ev(n.left, loc) + ev(n.right, loc)
        if isinstance(n, ast.UnaryOp) and isinstance(n.op, ast.Not):
            return not ev(n.operand, loc)
        if isinstance(n, ast.UnaryOp) and isinstance(n.op, ast.USub):
            return -ev(n.operand, loc)
        if isinstance(n, ast.Compare) and len(n.ops) == 1:
            a, b = ev(n.left, loc), ev(n.comparators[0], loc)
            op = n.ops[0]
            if isinstance(op, ast.Is):
                return a is b
            if isinstance(op, ast.IsNot):
                return a is not b
            if isinstance(op, ast.Eq):
                return a == b
            if isinstance(op, ast.NotEq):
                return a != b
            if isinstance(op, ast.In):
                return a in b
            if isinstance(op, ast.NotIn):
                return a not in b
            raise Unfoldable("cmp")
        if isinstance(n, ast.IfExp):
            return ev(n.body, loc) if ev(n.test, loc) else ev(n.orelse, loc)
        if isinstance(n, ast.Subscript):
            return ev(n.value, loc)[ev(n.slice, loc)]
        if isinstance(n, ast.Call):
            if isinstance(n.func, ast.Attribute) and n.func.attr in _SAFE_METHODS:
                recv = ev(n.func.value, loc)
                if isinstance(recv, (str, dict, list, tuple)):
                    args = [ev(a, loc) for a in n.args]
                    return getattr(recv, n.func.attr)(*args)
            fn = dotted(n.func)
            if fn == "mangle" and len(n.args) == 1:
                return hy_mangle_simple(ev(n.args[0], loc))
            if fn in ("list", "tuple", "set", "sorted", "len") and len(n.args) == 1:
                return {"list": list, "tuple": tuple, "set": set, "sorted": sorted, "len": len}[fn](ev(n.args[0], loc))
            if fn == "float" and len(n.args) == 1:
                return float(ev(n.args[0], loc))
            raise Unfoldable(unparse(n))
        if isinstance(n, (ast.ListComp, ast.SetComp, ast.DictComp, ast.GeneratorExp)):
            results = []

            def rec(i, loc2):
                if i == len(n.generators):
                    if isinstance(n, ast.DictComp):
                        results.append((ev(n.key, loc2), ev(n.value, loc2)))
                    else:
                        results.append(ev(n.elt, loc2))
                    return
                g = n.generators[i]
                for item in ev(g.iter, loc2):
                    loc3 = dict(loc2)
                    bind(g.target, item, loc3)
                    if all(ev(c, loc3) for c in g.ifs):
                        rec(i + 1, loc3)

            rec(0, dict(loc))
            if isinstance(n, ast.DictComp):
                return dict(results)
            if isinstance(n, ast.SetComp):
                return set(results)
            return list(results)
        raise Unfoldable(type(n).__name__)

    def bind(target, value, loc):
        if isinstance(target, ast.Name):
            loc[target.id] = value
        elif isinstance(target, (ast.Tuple, ast.List)):
            value = list(value)
            if len(value) != len(target.elts):
                raise Unfoldable("unpack")
            for t, v in zip(target.elts, value):
                bind(t, v, loc)
        else:
            raise Unfoldable("target")

    return ev(node, {})


class Opaque(str):
    """A name we do not evaluate (ast.Add...) but can compare."""

    def __repr__(self):
        return f"<{str(self)}>"


def hy_mangle_simple(s):
    """mangle() restricted to what constant tables in the repo need: hyphens to
    underscores for plain identifiers.  Anything needing the hyx_ path is kept
    symbolic ('mangle(<s>)') - never evaluated through the repo's code."""
    s = str(s)
    lead = len(s) - len(s.lstrip("_"))
    body = s[lead:]
    cand = "_" * lead + (body[:1] + body[1:].replace("-", "_") if body else body)
    if cand.isidentifier():
        import keyword

        if not keyword.iskeyword(cand):
            return cand
    return f"mangle({s})"


def module_env(mod, names):
    """Fold the given module-level names (in order) into an environment."""
    env = {}
    for st in mod.tree.body:
        if isinstance(st, ast.Assign) and len(st.targets) == 1 and isinstance(st.targets[0], ast.Name):
            nm = st.targets[0].id
            if nm in names:
                try:
                    env[nm] = fold(st.value, env)
                except Unfoldable:
                    pass
    return env


def flat(node):
    """Whole normalised text of a node (not truncated); `"fragment" in flat(node)` is true when the fragment occurs
    textually or, read as a pattern (pm.py), matches somewhere inside the node modulo canonical form and local renames."""
    from .pm import NormText

    return NormText(" ".join(unparse(node).split()), node if isinstance(node, ast.AST) else None)


def stable(node, limit=70):
    """Text of a node for use in instance keys: function locals are replaced by v0, v1, ... in order of appearance, so
    that the key of a construct (and with it a known finding) survives the renaming of a local variable."""
    from . import pm

    try:
        locs, _ = pm.scope_info(node)
    except Exception:
        locs = set()
    names = {}
    touched = []
    for n in ast.walk(node):
        if isinstance(n, ast.Name) and n.id in locs:
            touched.append((n, n.id))
    touched.sort(key=lambda t: (getattr(t[0], "lineno", 0), getattr(t[0], "col_offset", 0)))
    try:
        for n, old in touched:
            n.id = names.setdefault(old, f"v{len(names)}")
        return " ".join(unparse(node).split())[:limit]
    finally:
        for n, old in touched:
            n.id = old
