"""C02 — and/or: short-circuit structure, polarity, operand order, nullary values, value storage."""
CANON = True
STRICT = {"R-LIN-ANON", "R-LIN-VAR", "R-LIN-PATH", "R-EXPR-STORE", "R-REC-FWD"}

import ast

from .. import compq, hysexp, placement, pyq
from ..pysrc import dotted, fold, norm
from .c01 import check_rtemp

FN = "compile_logical_or_and_and_operator"


def check(ctx, src):
    ctx.rule("PLACEMENT", "operand statements are either at top level (first operand) or inside an If guarded by the temporary; operand values go to BoolOp.values (frozen table)")
    ctx.rule("BOOL-POLARITY", "and -> (ast.And, guard = temp, nullary True); or -> (ast.Or, guard = not temp, nullary None); the nullary values agree with hy.pyops and its documentation")
    ctx.rule("BOOL-ORDER", "operands are compiled in argument order, appended to the BoolOp on the right, and a statement-bearing operand is nested inside the If of the operands before it")
    ctx.rule("BOOL-VALUE", "a statement-bearing operand unconditionally stores its value (force_expr, i.e. None for a pure statement) in the temporary; the final value is the temporary")
    ctx.rule("BOOL-APPEND", "a value is appended to an existing BoolOp only while the flag says the current expression is the BoolOp this call created; every site that replaces the current expression clears the flag")
    ctx.rule("R-TEMP", "renameable temporaries (shared with C01)")
    comp = compq.Compiler(src)
    R = compq.RM
    placement.check_placement(ctx, src, [FN], "PLACEMENT", comp)
    f = comp.rm.func(FN)
    ctx.require(f is not None, f"{FN} not found")
    # --- polarity table
    ops = pyq.contains(f, lambda n: isinstance(n, ast.Dict) and {getattr(k, "value", None) for k in n.keys} == {"and", "or"})
    ctx.need(ops is not None, "ops table not found")
    table = fold(ops)
    ctx.decide("BOOL-POLARITY", f"{R}|{FN}|ops", table == {"and": ("ast.And", True), "or": ("ast.Or", None)}, f"ops table is {table}", R, ops.lineno,
              witness="(and) / (or) / the operator node are wrong", detail=str(table))
    neg = pyq.contains(f, lambda n: isinstance(n, ast.If) and norm(n.test) in ("operator == 'or'", "operator == \"or\"") and "ast.Not()" in norm(n))
    ctx.check(neg is not None and "cond = asty.UnaryOp(node, op=ast.Not(), operand=cond)" in [norm(s) for s in neg.body], "BOOL-POLARITY", f"{R}|{FN}|negation-for-or",
              "the guard of a statement-bearing operand must be negated exactly for `or`", R, f.lineno,
              witness="(or 0 (do (f) 1)) skips (f) / (and 0 (do (f) 1)) runs it", detail="if operator == 'or': cond = not cond")
    null = pyq.contains(f, lambda n: isinstance(n, ast.If) and norm(n.test) == "len(args) == 0")
    ctx.check(null is not None and "value=default" in norm(null.body[0]), "BOOL-POLARITY", f"{R}|{FN}|nullary", "the nullary case must return the table's default", R, f.lineno, detail="Constant(default)")
    # pyops agreement
    py = src.hy("hy/pyops.hy")
    for name, want in (("and", "True"), ("or", "None")):
        d = py.defn(name)
        ctx.need(d is not None, f"pyops {name} not found")
        doc = d.items[3]
        kv = {doc.items[i].val: doc.items[i + 1] for i in range(1, len(doc.items) - 1, 2) if doc.items[i].kind == "kw"}
        nl = kv.get("nullary")
        ll = d.items[2]
        rest = next((ll.items[i + 1].val for i in range(len(ll.items) - 1) if ll.items[i].is_sym("#*")), None)
        rest = rest or next((x.items[1].val for x in ll.items if x.kind == "expr" and x.head() == "unpack-iterable" and len(x.items) == 2), None)
        first = hysexp.value_for_count(d.items[-1], rest, 0) if rest else None
        ctx.decide("BOOL-POLARITY", f"hy/pyops.hy|{name}|nullary doc", None if nl is None else nl.val == want, f"hy.pyops.{name}: documented nullary value {nl.val if nl else None}; the macro returns {want}",
                   "hy/pyops.hy", d.line, detail=want)
        ctx.decide("BOOL-POLARITY", f"hy/pyops.hy|{name}|nullary", None if first is None else first.src() == want,
                   f"hy.pyops.{name} returns {first.src() if first else None} for no arguments; the macro returns {want}", "hy/pyops.hy", d.line,
                   witness=f"(hy.pyops.{name}) differs from ({name})", detail=f"{want}")
    # --- order
    loop = next((n for n in pyq.walk_no_nested(f) if isinstance(n, ast.For)), None)
    ctx.need(loop is not None, "operand loop not found")
    ctx.check(norm(loop.iter) == "map(compiler.compile, args)", "BOOL-ORDER", f"{R}|{FN}|iteration", f"operands are iterated as `{norm(loop.iter)}`", R, loop.lineno,
              witness="operands are evaluated in another order", detail="map(compiler.compile, args)")
    enb = next((n for n in ast.walk(f) if isinstance(n, ast.FunctionDef) and n.name == "enbool"), None)
    ctx.need(enb is not None, "enbool not found")
    app = pyq.contains(enb, lambda n: isinstance(n, ast.Call) and norm(n) == "expr.values.append(value)")
    new = pyq.contains(enb, lambda n: isinstance(n, ast.Call) and dotted(n.func) == "asty.BoolOp")
    ctx.check(app is not None and new is not None and "values=[expr, value]" in norm(new) and "op=opnode()" in norm(new), "BOOL-ORDER", f"{R}|{FN}|enbool",
              "enbool must append on the right / create BoolOp(values=[expr, value]) with the operator of the table", R, enb.lineno, detail="append right")
    # append only under the flag
    guard = app
    while guard is not None and not isinstance(guard, ast.If):
        guard = guard._parent
    # FLAG: the variable the append is guarded by.  It says "the current expression is the BoolOp this call created";
    # the rules below are about that role, whatever the variable is called.
    gt = guard.test if guard is not None else None
    flag = gt.id if isinstance(gt, ast.Name) else next((v.id for v in getattr(gt, "values", []) if isinstance(v, ast.Name)), None)
    ctx.decide("BOOL-APPEND", f"{R}|{FN}|append-guard", None if gt is None or flag is None else isinstance(gt, ast.Name),
               f"values are appended under `{norm(gt) if gt is not None else None}`: the test must be exactly the flag (a type test also matches a nested and/or the user wrote)",
               R, app.lineno if app else f.lineno, witness="(and a b (do (s) (or p q)) c) appends c to the user's `or`", detail="if <flag>")

    def _sets(node, value):
        return [n for n in ast.walk(node) if isinstance(n, ast.Assign) and len(n.targets) == 1 and isinstance(n.targets[0], ast.Name) and n.targets[0].id == flag
                and isinstance(n.value, ast.Constant) and n.value.value is value]

    ctx.decide("BOOL-APPEND", f"{R}|{FN}|flag-set-on-create", None if flag is None else len(_sets(enb, True)) == 1, "the flag must be set exactly where a new BoolOp is created", R, enb.lineno, detail="set on creation")
    # put(): the helper that replaces the current expression by a new assignment - the nested function that builds the Assign
    put = next((n for n in ast.walk(f) if isinstance(n, ast.FunctionDef) and n is not f and any(isinstance(c, ast.Call) and dotted(c.func) == "asty.Assign" for c in ast.walk(n))), None)
    ctx.need(put is not None, "put not found")
    ctx.decide("BOOL-APPEND", f"{R}|{FN}|put-clears-flag", None if flag is None else bool(_sets(put, False)) and any(isinstance(s, ast.Nonlocal) and flag in s.names for s in ast.walk(put)),
               "put() replaces the current expression (a new assignment) but does not clear the flag", R, put.lineno,
               witness="(and a b (do (s) (or p q)) c): c is appended inside the wrong BoolOp", detail="<flag> = False in put")
    first_arm = loop.body[0] if isinstance(loop.body[0], ast.If) else None
    ctx.check(first_arm is not None and norm(first_arm.test) == "ret is None" and flag is not None and bool([n for st in first_arm.body for n in _sets(st, False)]), "BOOL-APPEND",
              f"{R}|{FN}|first-clears-flag", "the first operand must clear the flag", R, loop.lineno, detail="cleared")
    # --- statement-bearing operand
    arm = first_arm.orelse[0] if first_arm is not None and first_arm.orelse and isinstance(first_arm.orelse[0], ast.If) else None
    ctx.need(arm is not None and norm(arm.test) == "value.stmts", "the statement-bearing operand arm was not found")
    texts = [norm(s) for s in arm.body]
    ctx.check("branch = asty.If(node, test=cond, body=value.stmts, orelse=[])" in texts and "stmts.append(branch)" in texts and "stmts = branch.body" in texts, "BOOL-ORDER",
              f"{R}|{FN}|nesting", "a statement-bearing operand must be placed in an If appended to the current statement list, and later operands must nest inside that If's body",
              R, arm.lineno, witness="(and a (do (f) b) (do (g) c)) runs (g) although b was falsy", detail="stmts.append(If); stmts = If.body")
    ctx.check(texts and texts[-1] == "stmts.append(put(node, value.force_expr))", "BOOL-VALUE", f"{R}|{FN}|store-unconditional",
              f"the operand's value must be stored unconditionally as the last step (`{texts[-1] if texts else None}`)", R, arm.lineno,
              witness="(and 1 (setv x 5)) returns 1 instead of None", detail="stmts.append(put(node, value.force_expr))")
    ctx.check("cond = get(node)" in texts, "BOOL-VALUE", f"{R}|{FN}|guard-from-temp", "the guard must read the temporary (creating it from the value so far)", R, arm.lineno, detail="cond = get(node)")
    get = next((n for n in ast.walk(f) if isinstance(n, ast.FunctionDef) and n.name == "get"), None)
    ctx.need(get is not None, "get not found")
    ctx.check(pyq.contains(get, lambda n: isinstance(n, ast.If) and norm(n.test) == "var is None" and "stmts.append(put(node, ret.force_expr))" in [norm(s) for s in n.body]) is not None,
              "BOOL-VALUE", f"{R}|{FN}|first-store", "get() must first store the value computed so far", R, get.lineno, detail="put(node, ret.force_expr)")
    fin = pyq.contains(f, lambda n: isinstance(n, ast.If) and norm(n.test) == "var" and "ret.expr = get(expr)" in [norm(s) for s in n.body])
    ctx.check(fin is not None, "BOOL-VALUE", f"{R}|{FN}|final-value", "when a temporary was used, the form's value must be the temporary", R, f.lineno, detail="ret.expr = get(expr)")
    check_rtemp(ctx, comp)
    from . import c11 as _c11
    from .. import core as _core

    ctx.rule("R-LIN", "Result-flow rules shared with C11, for the functions of this property: no value placed on a path that excludes the placement of its statements, no expression replaced while the operand's "
             "temporaries stay exposed, no recursive call that loses a parameter")
    _core.transfer(ctx, src, _c11, {"R-LIN-PATH", "R-EXPR-STORE", "R-REC-FWD"}, key_filter=lambda k: any(f in k for f in ('compile_logical_or_and_and_operator',)))
    ctx.floor("BOOL-APPEND", 4)


_R = compq.RM
SELFTESTS = [
    dict(name="negate for and", file=_R, old='            if operator == "or":\n                # Negate the conditional.', new='            if operator == "and":\n                # Negate the conditional.',
         rule="BOOL-POLARITY", key="negation-for-or"),
    dict(name="nullary or -> False", file=_R, old='ops = {"and": (ast.And, True), "or": (ast.Or, None)}', new='ops = {"and": (ast.And, True), "or": (ast.Or, False)}', rule="BOOL-POLARITY", key="ops"),
    dict(name="store only if expr", file=_R, old="            stmts.append(put(node, value.force_expr))\n        else:", new="            if value.expr:\n                stmts.append(put(node, value.expr))\n        else:",
         rule="BOOL-VALUE", key="store-unconditional"),
    dict(name="type test instead of flag", file=_R, old="                if can_append:\n                    expr.values.append(value)", new="                if can_append and isinstance(expr, ast.BoolOp):\n                    expr.values.append(value)",
         rule="BOOL-APPEND", key="append-guard"),
    dict(name="no nesting", file=_R, old="            stmts.append(branch)\n            stmts = branch.body\n", new="            stmts.append(branch)\n", rule="BOOL-ORDER", key="nesting", allow_analysis_error=True),
    dict(name="reversed operands", file=_R, old="    for value in map(compiler.compile, args):", new="    for value in map(compiler.compile, reversed(args)):", rule="BOOL-ORDER", key="iteration"),
]
