"""Function-level edit distance against the reviewed tree.

A failed *absence* test ("the expected construct was not found") is evidence of a defect only when the analysis can be
sure it still recognises the function: either a pattern comparison was a near miss (pm.near), or the function as a whole
is nearly the function that was reviewed - its canonical statements (locals renamed per statement, so renaming is
invisible) differ from the reviewed ones in a few statements only.  A function rewritten at large is "not recognised":
the instance is unresolved.  The reviewed statements are kept as short digests in reviewed_functions.json
(tools/mk_reviewed.py); they never decide a property by themselves - they only gate whether a failed rule is believed.
"""
from __future__ import annotations

import ast
import difflib
import hashlib
import json
import os

from .pysrc import FUNC, stable

_REV = None
SMALL_ABS = 6        # statements inserted + deleted
SMALL_MID = 10


def small(ch, n, loose=False):
    """Few statements changed: at most SMALL_ABS, or up to SMALL_MID when that is at most half of the function.
    loose (findings with an explicit truth-table counterexample): up to SMALL_MID, or 60 % of the function."""
    if loose:
        return ch <= SMALL_MID or ch <= 0.6 * n
    return ch <= SMALL_ABS or (ch <= SMALL_MID and 2 * ch <= n)


def statements(func):
    """Digest of each statement of a function in source order (compound statements: their header)."""
    out = []

    def head(st):
        if isinstance(st, (ast.If, ast.While)):
            return "if/while " + stable(st.test, 400)
        if isinstance(st, (ast.For, ast.AsyncFor)):
            return "for " + stable(ast.Tuple(elts=[st.target, st.iter], ctx=ast.Load()), 400)
        if isinstance(st, (ast.With, ast.AsyncWith)):
            return "with " + " ".join(stable(i.context_expr, 200) for i in st.items)
        if isinstance(st, ast.Try):
            return "try"
        if isinstance(st, FUNC):
            return "def " + st.name
        if isinstance(st, ast.ClassDef):
            return "class " + st.name
        if isinstance(st, ast.Match):
            return "match " + stable(st.subject, 200)
        return stable(st, 600)

    def walk(stmts):
        for st in stmts:
            if isinstance(st, ast.Expr) and isinstance(st.value, ast.Constant) and isinstance(st.value.value, str):
                continue
            out.append(hashlib.sha1(head(st).encode()).hexdigest()[:8])
            if isinstance(st, FUNC + (ast.ClassDef,)):
                continue
            for fld in ("body", "orelse", "finalbody"):
                b = getattr(st, fld, None)
                if isinstance(b, list) and b and isinstance(b[0], ast.stmt):
                    walk(b)
            for h in getattr(st, "handlers", []) or []:
                out.append(hashlib.sha1(("except " + (stable(h.type, 200) if h.type else "")).encode()).hexdigest()[:8])
                walk(h.body)
            for c in getattr(st, "cases", []) or []:
                out.append(hashlib.sha1(("case " + stable(c.pattern, 200)).encode()).hexdigest()[:8])
                walk(c.body)

    walk(func.body)
    return out


def reviewed():
    global _REV
    if _REV is None:
        try:
            with open(os.path.join(os.path.dirname(os.path.abspath(__file__)), "reviewed_functions.json")) as f:
                _REV = json.load(f)
        except OSError:
            _REV = {}
    return _REV


def distance(rel, qual, func):
    """-> (changed statements, reviewed size) or None when the function is not in the reviewed tree."""
    want = reviewed().get(rel, {}).get(qual)
    if want is None:
        return None
    got = statements(func)
    sm = difflib.SequenceMatcher(a=want, b=got, autojunk=False)
    same = sum(b.size for b in sm.get_matching_blocks())
    return (len(want) - same) + (len(got) - same), len(want)


def small_edit(mod, line, loose=False):
    """Is the function of module `mod` (canonical form) containing `line` a small edit of its reviewed self?
    -> (True/False, description)"""
    best = None
    for q, f in mod.funcs.items():
        if f.lineno <= line <= (getattr(f, "end_lineno", None) or f.lineno):
            if best is None or f.lineno >= best[1].lineno:
                best = (q, f)
    if best is None:
        return False, "no enclosing function"
    q, f = best
    d = distance(mod.rel, q, f)
    if d is None:
        return False, f"{q} is not a function of the reviewed tree"
    ch, n = d
    ok = small(ch, n, loose)
    return ok, f"{q}: {ch} of {n} reviewed statements changed"


def file_small_edit(mod):
    """No line given: every function of the module must be a small edit (and none may be new or gone)."""
    rev = reviewed().get(mod.rel, {})
    for q, f in mod.funcs.items():
        d = distance(mod.rel, q, f)
        if d is None:
            return False, f"{q} is not a function of the reviewed tree"
        if not small(d[0], d[1]):
            return False, f"{q}: {d[0]} of {d[1]} reviewed statements changed"
    for q in rev:
        if q not in mod.funcs:
            return False, f"{q} of the reviewed tree is gone"
    return True, "all functions as reviewed or nearly so"


# ---------------------------------------------------------------------------------------------------------------
# The same for .hy sources: top-level forms, compared token by token (strings and comments do not count)
# ---------------------------------------------------------------------------------------------------------------

HY_SMALL = 12      # tokens inserted + deleted
HY_MID = 25        # ... or up to this many when that is at most 30 % of the form


def hy_key(form):
    h = form.head() or form.kind
    nm = form.items[1].src()[:60] if form.kind == "expr" and len(form.items) > 1 else ""
    return f"{h} {nm}"


def hy_tokens(form):
    out = []
    for n in form.walk():
        if n.kind in ("sym", "kw", "num"):
            out.append(n.src())
        elif n.kind == "str":
            out.append("<str>" if len(n.val) > 30 else n.src())
        else:
            out.append(n.kind)
    return [hashlib.sha1(t.encode()).hexdigest()[:6] for t in out]


def hy_forms(hyfile):
    res = {}
    for f in hyfile.forms:
        if f.kind == "expr":
            k = hy_key(f)
            while k in res:
                k += "'"
            res[k] = f
    return res


def hy_end_line(form):
    return max((n.line for n in form.walk()), default=form.line)


def hy_small_edit(hyfile, line, loose=False):
    rev = reviewed().get(hyfile.rel)
    if rev is None:
        return False, f"{hyfile.rel} is not a file of the reviewed tree"
    forms = hy_forms(hyfile)
    if line:
        hit = [(k, f) for k, f in forms.items() if f.line <= line <= hy_end_line(f)]
        if not hit:
            return False, "no enclosing top-level form"
        todo = hit[-1:]
    else:
        todo = list(forms.items())
        gone = [k for k in rev if k not in forms]
        if gone:
            return False, f"top-level form `{gone[0]}` of the reviewed tree is gone"
    for k, f in todo:
        want = rev.get(k)
        if want is None:
            return False, f"`{k}` is not a top-level form of the reviewed tree"
        got = hy_tokens(f)
        sm = difflib.SequenceMatcher(a=want, b=got, autojunk=False)
        same = sum(b.size for b in sm.get_matching_blocks())
        ch = (len(want) - same) + (len(got) - same)
        if not (ch <= HY_SMALL or (ch <= HY_MID and ch <= 0.3 * len(want)) or (loose and (ch <= HY_MID or ch <= 0.6 * len(want)))):
            return False, f"`{k}`: {ch} of {len(want)} reviewed tokens changed"
    return True, "as reviewed or nearly so"
