#!/bin/bash
# usage: collect_agent.sh <PROP> [N ...]  -- verifies breaking seeds N (default 3 4) of /tmp/wt/<PROP>/_seed, keeps the confirmed
# ones under /verif/seeded/, copies and verifies the neutral refactoring into /verif/neutral/<PROP>-1/, removes the worktree.
P=$1; shift; NS=${@:-3 4}
for N in $NS; do
  if [ -f /tmp/wt/$P/_seed/patch$N.diff ]; then /verif/tools/verify_seed.sh $P $N; else echo "$P-$N: no patch"; fi
done
for f in /tmp/wt/$P/_seed/neutral*.diff; do
  [ -f "$f" ] || continue
  K=$(basename $f .diff | sed 's/neutral//')
  D=/verif/neutral/$P-$K; mkdir -p $D
  cp $f $D/patch.diff; cp /tmp/wt/$P/_seed/neutral$K.json $D/meta.agent.json 2>/dev/null
  W=/tmp/vs/neu-$P-$K; rm -rf $W; git -C /repo worktree prune; git -C /repo worktree add -q --detach $W HEAD
  cd $W
  if git apply --check $D/patch.diff 2>/dev/null; then
    git apply $D/patch.diff
    PYTHONDONTWRITEBYTECODE=1 PYTHONPATH=$W timeout 1800 /venv/bin/python -m pytest -q -p no:cacheprovider --timeout=900 -rf 2>&1 | grep -E "^FAILED|passed|failed" | sed 's/ - .*//' | sort > /tmp/vs/neu-$P-$K.tests.log
    SAME=no; diff -q <(grep ^FAILED /tmp/vs/baseline.tests.log) <(grep ^FAILED /tmp/vs/neu-$P-$K.tests.log) >/dev/null && SAME=yes
    echo "neutral $P-$K: applies, tests_same=$SAME [$(grep -E ' passed' /tmp/vs/neu-$P-$K.tests.log | tail -1 | sed 's/ in .*//')]"
    echo "{\"tests_same\": \"$SAME\", \"head\": \"$(git -C /repo rev-parse --short HEAD)\"}" > $D/verified.json
  else
    echo "neutral $P-$K: PATCH-DOES-NOT-APPLY"
  fi
  cd /; git -C /repo worktree remove --force $W
done
git -C /repo worktree remove --force /tmp/wt/$P 2>/dev/null; rm -rf /tmp/wt/$P
