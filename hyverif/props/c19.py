"""C19 — truncated input is PrematureEndOfInput: EOF-sentinel discipline of the character reader."""
CANON = True

import ast

from .. import core, pyq, readerq
from ..pysrc import dotted, norm, flat
from ..readerq import HR, RD
from .c40 import check_cont

STRICT = {"EOF-SENTINEL", "PEOI-GUARD", "PEOI-PASS", "SRC-RESET", "REPL-CONT"}

# per-source state of Reader (confirmed by reading getc/peekc/saving_chars): what each holds
RESET_ATTRS = {
    "_peek_chars": "characters read ahead but not consumed",
    "_saved_chars": "the stack of saving_chars() buffers",
    "_pos": "line and column of the last consumed character",
    "_eof_tracker": "position of the last non-space character",
    "_stream": "the text stream itself",
}

EOF_OK_CALLERS = {
    ("line_comment", "chars"): "a comment may end at the end of input",
    ("parse", "peeking"): "look-ahead for an optional shebang",
    ("slurp_space", "peeking"): "whitespace may run to the end of input",
    ("read_ident", "peeking"): "an identifier may end at the end of input",
}


def _is_sentinel_call(n):
    return isinstance(n, ast.Call) and isinstance(n.func, ast.Attribute) and n.func.attr in ("getc", "peekc") and dotted(n.func.value) == "self" and not n.args


_PEOI_BUILDERS = set()      # methods of the reader classes that only build (return) a PrematureEndOfInput


def _find_builders(rq):
    _PEOI_BUILDERS.clear()
    for name, (m, f) in rq.methods.items():
        rets = [r for r in ast.walk(f) if isinstance(r, ast.Return) and r.value is not None]
        body = [s_ for s_ in f.body if not (isinstance(s_, ast.Expr) and isinstance(s_.value, ast.Constant))]
        if len(rets) == 1 and len(body) == 1 and body[0] is rets[0] and "PrematureEndOfInput" in str(norm(rets[0].value)):
            _PEOI_BUILDERS.add(name)


def _peoi(e):
    """Is the raised expression a PrematureEndOfInput (directly, or through a builder method)?"""
    if e is None:
        return False
    if "PrematureEndOfInput" in str(norm(e)):
        return True
    return isinstance(e, ast.Call) and isinstance(e.func, ast.Attribute) and isinstance(e.func.value, ast.Name) and e.func.value.id == "self" and e.func.attr in _PEOI_BUILDERS


def _raises_peoi(stmts):
    return any(isinstance(s, ast.Raise) and _peoi(s.exc) for s in stmts)


def _raises_other_lex(stmts):
    return any(isinstance(s, ast.Raise) and s.exc is not None and "LexException" in norm(s.exc) and not _peoi(s.exc) for s in stmts)


def check_peoi_guard(ctx, rq):
    """PEOI-GUARD (shared with C40)."""
    hr, rd = rq.hr, rq.rd
    _find_builders(rq)
    # --- converse -----------------------------------------------------------------------------
    n_raise = 0
    for m in (hr, rd):
        for r in [n for n in ast.walk(m.tree) if isinstance(n, ast.Raise) and n.exc is not None and _peoi(n.exc)]:
            n_raise += 1
            q = m.qual_of(r)
            iff = r._parent
            f = m.enclosing_func(r)
            ordinal = 1 + sum(1 for x in ast.walk(f) if isinstance(x, ast.Raise) and x.exc is not None and _peoi(x.exc) and (x.lineno, x.col_offset) < (r.lineno, r.col_offset))
            key = f"{m.rel}|{q}|raise PrematureEndOfInput #{ordinal}"
            if not isinstance(iff, ast.If):
                ctx.unres("PEOI-GUARD", key, "not directly under an if")
                continue
            t = norm(iff.test)
            verdict = None
            why = t
            reads = ("self.getc()", "self.peekc()", "self._stream.read(1)")

            def eof_test(tt):
                """True: tt holds exactly at the end of input; False: it also holds for ordinary characters; None: unknown."""
                if isinstance(tt, ast.BoolOp) and isinstance(tt.op, ast.And) and len(tt.values) == 2 and isinstance(tt.values[1], ast.UnaryOp) and isinstance(tt.values[1].operand, ast.Name) and tt.values[1].operand.id == "eof_ok":
                    tt = tt.values[0]
                if isinstance(tt, ast.Compare) and len(tt.ops) == 1 and isinstance(tt.ops[0], ast.Eq) and isinstance(tt.comparators[0], ast.Constant) and tt.comparators[0].value == "":
                    tt = ast.UnaryOp(op=ast.Not(), operand=tt.left)
                if isinstance(tt, ast.UnaryOp) and isinstance(tt.op, ast.Not):
                    o = tt.operand
                    if isinstance(o, ast.Name) and o.id != "eof_ok":
                        asg = [v_ for t_, v_, _ in pyq.assign_pairs(f) if isinstance(t_, ast.Name) and t_.id == o.id]
                        return True if asg and all(norm(a) in reads for a in asg) else None
                    if norm(o) in reads:
                        return True
                    if isinstance(o, ast.Call) and isinstance(o.func, ast.Attribute) and o.func.attr in ("strip", "lstrip", "rstrip"):
                        return False        # also true for white space
                    return None
                if isinstance(tt, ast.BoolOp) and isinstance(tt.op, ast.Or):
                    parts = [eof_test(v) for v in tt.values]
                    weak = any(isinstance(c_, ast.Call) and ((isinstance(c_.func, ast.Attribute) and c_.func.attr == "isspace") or dotted(c_.func) == "isnormalizedspace") for v in tt.values for c_ in ast.walk(v))
                    return False if weak or False in parts else (True if all(p_ is True for p_ in parts) else None)
                if isinstance(tt, ast.Call) and ((isinstance(tt.func, ast.Attribute) and tt.func.attr == "isspace") or dotted(tt.func) == "isnormalizedspace"):
                    return False
                return None

            if isinstance(iff.test, ast.UnaryOp) and isinstance(iff.test.op, ast.Not) and isinstance(iff.test.operand, ast.Name) and iff.test.operand.id == "eof_ok":
                # raised after a read loop that only ends when the stream is exhausted (`while c := read(): ...`)
                par = getattr(iff, "_parent", None)
                sibs = getattr(par, "body", []) if par is not None else []
                k = next((i_ for i_, x in enumerate(sibs) if x is iff), None)
                prev = [x for x in sibs[:k] if isinstance(x, ast.While)] if k is not None else []
                if prev:
                    w = prev[-1]
                    verdict = True if (isinstance(w.test, ast.NamedExpr) and norm(w.test.value) in reads and not any(isinstance(b, ast.Break) for b in ast.walk(w))) else None
                    why = "after a loop that ends only at the end of the stream"
            else:
                verdict = eof_test(iff.test)
            ctx.decide("PEOI-GUARD", key, verdict, f"PrematureEndOfInput is raised under `{t}`, which is also true for characters that are not the end of input: complete but invalid text is reported as incomplete",
                       m.rel, r.lineno, witness="`# x` (hash, space, text): the REPL prompts for more input for ever", detail=str(why))
    ctx.need(n_raise >= 4, f"only {n_raise} PrematureEndOfInput raise sites found")



def check(ctx, src):
    ctx.rule("EOF-SENTINEL", "getc()/peekc() return '' at the end of input; every use of such a value in hy_reader.py is a truthiness test whose false arm raises PrematureEndOfInput, is dominated by such a test, "
             "is an optional look-ahead, or is followed on every path by a consuming read that raises PrematureEndOfInput at the end of input — never a comparison whose failing arm raises another error")
    ctx.rule("PEOI-GUARD", "conversely, PrematureEndOfInput is raised only after observing the end of input (a falsy getc()/peekc() value or an exhausted chars()/peeking()), not under a weaker test that ordinary characters also satisfy")
    ctx.rule("EOF-OK", "chars()/peeking() are called with eof_ok=True only where the construct may legitimately end with the input")
    ctx.rule("PEOI-PASS", "try_parse_one_form passes LexException (and so PrematureEndOfInput) through before its catch-all converts other exceptions; the REPL routes PrematureEndOfInput to a continuation")
    ctx.rule("SRC-RESET", "every new source resets the reader's look-ahead and position state")
    rq = readerq.Reader(src)
    hr, rd = rq.hr, rq.rd
    _find_builders(rq)
    eof_safe = _eof_safe_methods(rq)

    def _is_eof_test_of(t_, v_):
        """`not v` or `v == ''`"""
        if isinstance(t_, ast.UnaryOp) and isinstance(t_.op, ast.Not) and isinstance(t_.operand, ast.Name) and t_.operand.id == v_:
            return True
        return isinstance(t_, ast.Compare) and len(t_.ops) == 1 and isinstance(t_.ops[0], ast.Eq) and isinstance(t_.left, ast.Name) and t_.left.id == v_ \
            and isinstance(t_.comparators[0], ast.Constant) and t_.comparators[0].value == ""

    def _mentions_peek(t_, f_):
        """the test reads self.peekc() directly or through a local bound to it"""
        if "self.peekc()" in norm(t_):
            return True
        peeked = {x.id for x, v_, _ in pyq.assign_pairs(f_) if isinstance(x, ast.Name) and norm(v_) == "self.peekc()"}
        return any(isinstance(n, ast.Name) and n.id in peeked for n in ast.walk(t_))
    n_sites = 0
    for q, f in hr.funcs.items():
        if not q.startswith("HyReader."):
            continue
        for c in [n for n in ast.walk(f) if _is_sentinel_call(n)]:
            if hr.enclosing_func(c) is not f:
                continue
            n_sites += 1
            ctx.functions.add(f"{HR}:{q}")
            p = c._parent
            key = f"{HR}|{q}|{norm(pyq_stmt(c))[:70]}"
            after = readerq.following(c, f)

            def marker(n):
                if isinstance(n, ast.Call) and isinstance(n.func, ast.Attribute) and dotted(n.func.value) == "self":
                    if n.func.attr in eof_safe:
                        return True
                    if n.func.attr == "chars" and not any(k.arg == "eof_ok" for k in n.keywords) and not n.args:
                        return True
                return False

            if isinstance(p, ast.Assign) and isinstance(p.targets[0], ast.Name):
                v = p.targets[0].id
                test = next((s for s in after if isinstance(s, ast.If) and _is_eof_test_of(s.test, v)), None)
                early = None
                for s2 in after:
                    if s2 is test or any(marker(x) for x in ast.walk(s2)):
                        break
                    if isinstance(s2, ast.If) and any(isinstance(x, ast.Name) and x.id == v for x in ast.walk(s2.test)) and _raises_other_lex(s2.body):
                        early = s2
                        break
                idx0 = pyq.top_stmt_index(f, c)
                dominated = idx0 is not None and any(isinstance(s3, ast.If) and "self.peekc()" in norm(s3.test) and _raises_peoi(s3.body) and _truth_at_eof(s3.test, next((x for x in ast.walk(s3.test) if _is_sentinel_call(x)), None)) is True
                                                     for s3 in f.body[:idx0])
                if dominated:
                    ctx.ok("EOF-SENTINEL", key, "dominated by an end-of-input test on peekc() at the start of the function")
                elif early is not None:
                    ctx.bad("EOF-SENTINEL", key, f"`{v}` holds a getc()/peekc() value ('' at the end of input) and is tested by `{norm(early.test)}`, whose failing arm raises a plain LexException, before any end-of-input test",
                            HR, early.lineno, witness="cut the input right after this read: LexException instead of PrematureEndOfInput")
                elif test is not None and _raises_peoi(test.body):
                    ctx.ok("EOF-SENTINEL", key, f"`if not {v}: raise PrematureEndOfInput`")
                elif readerq.must_pass(after, lambda n: marker(n) or (isinstance(n, ast.If) and norm(n.test).startswith("not ") and _raises_peoi(n.body))):
                    ctx.ok("EOF-SENTINEL", key, "every path continues into a read that raises PrematureEndOfInput at the end of input")
                else:
                    ctx.bad("EOF-SENTINEL", key, f"the end-of-input value '' is stored in `{v}` and used without a PrematureEndOfInput test on some path", HR, c.lineno,
                            witness="cut the input right here: a different error (or none) is reported instead of PrematureEndOfInput")
            elif isinstance(p, ast.Compare):
                iff = p
                while iff is not None and not isinstance(iff, (ast.If, ast.stmt)):
                    iff = iff._parent
                if isinstance(iff, ast.If) and _raises_other_lex(iff.body):
                    ctx.bad("EOF-SENTINEL", key, "the read is compared with a character and the failing arm raises a plain LexException; at the end of input '' fails the comparison too", HR, c.lineno,
                            witness='f"{x  (cut inside a replacement field) raises LexException instead of PrematureEndOfInput')
                else:
                    ctx.unres("EOF-SENTINEL", key, "comparison of a sentinel read")
            elif isinstance(p, ast.UnaryOp) and isinstance(p.op, ast.Not):
                iff = p._parent
                ok = isinstance(iff, ast.If) and iff.test is p and _raises_peoi(iff.body)
                ctx.check(ok, "EOF-SENTINEL", key, "a negated sentinel read does not lead to PrematureEndOfInput", HR, c.lineno, detail="if not read(): raise PrematureEndOfInput")
            elif isinstance(p, (ast.Attribute, ast.Call)) and _guard_of(c) is not None:
                # the read feeds a guard that raises PrematureEndOfInput: the guard must be true for '' (the end of input)
                g = _guard_of(c)
                v = _truth_at_eof(g.test, c)
                if v is True:
                    ctx.ok("EOF-SENTINEL", key, f"guard `{norm(g.test)}` is true at the end of input (its exactness is judged by PEOI-GUARD)")
                elif v is False:
                    ctx.bad("EOF-SENTINEL", key, f"the guard `{norm(g.test)}` is false for '' (the end of input), so a text cut here does not raise PrematureEndOfInput", HR, c.lineno,
                            witness="(f #  — cut right after a `#` — raises a plain LexException")
                else:
                    ctx.unres("EOF-SENTINEL", key, f"guard `{norm(g.test)}` not understood")
            elif isinstance(p, ast.BoolOp):
                # read_ident() or getc(): must be dominated by an EOF guard earlier in the function
                idx = pyq.top_stmt_index(f, c)
                dom = any(isinstance(s, ast.If) and _mentions_peek(s.test, f) and _raises_peoi(s.body) for s in f.body[:idx])
                ctx.check(dom, "EOF-SENTINEL", key, "a sentinel read used as a fallback value is not dominated by an end-of-input test", HR, c.lineno, detail="dominated by `if not peekc…: raise PrematureEndOfInput`")
            else:
                ctx.unres("EOF-SENTINEL", key, f"use in {type(p).__name__}")
    ctx.need(n_sites >= 5, f"only {n_sites} sentinel reads found in hy_reader.py (5 confirmed by hand)")

    check_peoi_guard(ctx, rq)

    # --- eof_ok ------------------------------------------------------------------------------------
    for m in (hr, rd):
        for c in pyq.calls(m.tree):
            if isinstance(c.func, ast.Attribute) and c.func.attr in ("chars", "peeking") and dotted(c.func.value) == "self":
                eof_ok = any(k.arg == "eof_ok" and getattr(k.value, "value", None) is True for k in c.keywords) or (c.args and getattr(c.args[0], "value", None) is True)
                q = m.qual_of(c).split(".")[-1]
                key = f"{m.rel}|{q}|{norm(c)}"
                if eof_ok:
                    ctx.decide("EOF-OK", key, (q, c.func.attr) in EOF_OK_CALLERS, f"`{q}` reads with eof_ok=True: a construct cut off by the end of input ends silently instead of raising PrematureEndOfInput",
                              m.rel, c.lineno, witness="cut the input inside this construct", detail=EOF_OK_CALLERS.get((q, c.func.attr), ""))
                else:
                    ctx.ok("EOF-OK", key, "default eof_ok=False: raises PrematureEndOfInput when the input ends")
    for name in ("chars", "peeking"):
        m, f = rq.methods[name]
        last = f.body[-1]
        ctx.check(isinstance(last, ast.If) and norm(last.test) == "not c and (not eof_ok)" and _raises_peoi(last.body), "EOF-OK", f"{RD}|Reader.{name}|raises", f"Reader.{name} no longer raises PrematureEndOfInput when the stream ends and eof_ok is false",
                  RD, f.lineno, witness="(foo  reads as if it were complete", detail="if not c and not eof_ok: raise")
        d = f.args.defaults
        ctx.check(len(d) == 1 and getattr(d[0], "value", None) is False, "EOF-OK", f"{RD}|Reader.{name}|default", f"the default of eof_ok in Reader.{name} is not False", RD, f.lineno, detail="eof_ok=False")
    # --- pass-through: decided by C18's analysis of the converting try (which handler a LexException reaches first)
    from . import c18

    core.transfer(ctx, src, c18, {"FUNNEL-TRY"}, key_filter=lambda k: k.endswith("|handlers"), rename={"FUNNEL-TRY": "PEOI-PASS"})
    check_cont(ctx, src)
    # --- source reset: the per-source state (frozen list, confirmed by reading) must be assigned by _set_source
    m, ss = rq.methods["_set_source"]
    assigned = set()
    todo, seen = [ss], set()
    while todo:
        fn = todo.pop()
        if id(fn) in seen:
            continue
        seen.add(id(fn))
        for n in ast.walk(fn):
            if isinstance(n, ast.Assign):
                for t in n.targets:
                    for e in (t.elts if isinstance(t, (ast.Tuple, ast.List)) else [t]):
                        if isinstance(e, ast.Attribute) and dotted(e.value) == "self":
                            assigned.add(e.attr)
        for c in rq.calls_of(fn):
            if c in rq.methods:
                todo.append(rq.methods[c][1])
    cls = rd.classes.get("Reader")
    for attr, why in RESET_ATTRS.items():
        used = [n for n in ast.walk(cls) if isinstance(n, ast.Attribute) and n.attr == attr and dotted(n.value) == "self" and rd.enclosing_func(n) is not ss] if cls is not None else []
        verdict = True if attr in assigned else (False if used else None)
        ctx.decide("SRC-RESET", f"{RD}|Reader._set_source|self.{attr}", verdict, f"_set_source no longer resets `self.{attr}` ({why}) for a new stream although the character primitives still use it: "
                   "state left by an aborted read leaks into the next source read with the same reader", RD, ss.lineno,
                   witness="REPL: after `(setv xs #` fails, the next truncated input reads as complete (or a valid one fails)", detail="assigned per source")
    ctx.floor("EOF-OK", 8)


def _eof_safe_methods(rq):
    """Methods of the reader that, called at the end of input, raise PrematureEndOfInput on every path (summary,
    computed to a fixpoint): they iterate chars()/peeking() without eof_ok, or test a getc()/peekc() value for
    emptiness and raise, or start by calling another such method."""
    safe = set()

    def direct(n):
        if isinstance(n, ast.Call) and isinstance(n.func, ast.Attribute) and dotted(n.func.value) == "self":
            if n.func.attr in safe:
                return True
            if n.func.attr in ("chars", "peeking") and not any(k.arg == "eof_ok" for k in n.keywords) and not n.args:
                return True
        if isinstance(n, ast.If) and _raises_peoi(n.body):
            t = n.test
            if isinstance(t, ast.UnaryOp) and isinstance(t.op, ast.Not):
                o = t.operand
                if _is_sentinel_call(o):
                    return True
                if isinstance(o, ast.Name):
                    return True  # `if not c: raise PrematureEndOfInput` (c's origin is judged by PEOI-GUARD)
        return False

    changed = True
    while changed:
        changed = False
        for name, (m, f) in rq.methods.items():
            if name in safe or name in ("chars", "peeking", "getc", "peekc"):
                continue
            body = [s for s in f.body if not (isinstance(s, ast.Expr) and isinstance(s.value, ast.Constant))]
            if readerq.must_pass(body, direct):
                safe.add(name)
                changed = True
    return safe


def _guard_of(call):
    """The `if` whose test contains this read and whose body raises PrematureEndOfInput."""
    n = call
    while n is not None and not isinstance(n, ast.stmt):
        n = getattr(n, "_parent", None)
    if isinstance(n, ast.If) and any(x is call for x in ast.walk(n.test)) and _raises_peoi(n.body):
        return n
    return None


def _truth_at_eof(test, read):
    """Value of `test` when the sentinel read returns '' — for the handful of predicate shapes the reader uses."""
    def val(e):
        if e is read:
            return ""
        if isinstance(e, ast.Call) and isinstance(e.func, ast.Attribute) and e.func.attr in ("strip", "lstrip", "rstrip", "lower", "upper") and val(e.func.value) == "":
            return ""
        if isinstance(e, ast.Call) and dotted(e.func) == "isnormalizedspace" and e.args and val(e.args[0]) == "":
            return False  # the whitespace regex needs at least one character
        if isinstance(e, ast.UnaryOp) and isinstance(e.op, ast.Not):
            v = val(e.operand)
            return None if v is None else (not v)
        if isinstance(e, ast.Compare) and len(e.ops) == 1 and isinstance(e.comparators[0], ast.Constant):
            v = val(e.left)
            if v is None:
                return None
            if isinstance(e.ops[0], ast.Eq):
                return v == e.comparators[0].value
            if isinstance(e.ops[0], ast.NotEq):
                return v != e.comparators[0].value
            if isinstance(e.ops[0], ast.In):
                return v in e.comparators[0].value
        if isinstance(e, ast.BoolOp):
            vs = [val(v) for v in e.values]
            if any(v is None for v in vs):
                return None
            return all(vs) if isinstance(e.op, ast.And) else any(vs)
        return None
    v = val(test)
    return None if v is None else bool(v)


def _eof_checked_later(after):
    """A later `x = self.getc(); if not x: raise PEOI` or plain `if not self.getc()...` on every path."""
    def mk(n):
        return isinstance(n, ast.If) and norm(n.test).startswith("not ") and _raises_peoi(n.body)
    return readerq.must_pass(after, mk)


def pyq_stmt(n):
    while n is not None and not isinstance(n, ast.stmt):
        n = getattr(n, "_parent", None)
    return n


SELFTESTS = [
    dict(name="fcomponent compares without EOF test (F3)", file=HR,
         old='            c = self.getc()\n            if not c:\n                raise PrematureEndOfInput.from_reader(\n                    f"Premature end of input while reading a field of an {fstring_mode}-string", self\n                )\n            if c != "}":',
         new='            if not self.getc() == "}":', rule="EOF-SENTINEL", key="read_fcomponent"),
    dict(name="form EOF test dropped", file=HR, old='                if not c:\n                    raise PrematureEndOfInput.from_reader(\n                        "Premature end of input while attempting to parse one form", self\n                    )\n',
         new="", rule="EOF-SENTINEL", key="try_parse_one_form"),
    dict(name="bracket string may end at EOF", file=HR, old="        delim = []\n        for c in self.chars():", new="        delim = []\n        for c in self.chars(eof_ok=True):", rule="EOF-OK", key="bracketed_string"),
    dict(name="LexException handler after catch-all", file=HR, old="            except LexException:\n                raise\n            except Exception as e:", new="            except SyntaxError:\n                raise\n            except Exception as e:",
         rule="PEOI-PASS", key="LexException first"),
    dict(name="buffers not reset", file=RD, old="            self._peek_chars = deque()\n            self._saved_chars = []\n", new="", rule="SRC-RESET", key="_peek_chars"),
    dict(name="rename char twin", file=HR, kind="twin", edits=[("                c = self.getc()\n                start = self._pos\n                if not c:", "                ch = self.getc()\n                start = self._pos\n                if not ch:"),
                                                             ("                handler = self.reader_table.get(c)\n                model = handler(self, c) if handler else self.read_default(c)", "                handler = self.reader_table.get(ch)\n                model = handler(self, ch) if handler else self.read_default(ch)")]),
]
