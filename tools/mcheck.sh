#!/bin/bash
# usage: mcheck.sh <prop> [files...] : unchanged tree (quick+thorough), seeds targeting the property, neutral variants of the files
P=$1; shift
cd /verif
echo "== unchanged"; /venv/bin/python -m hyverif $P --no-write 2>&1 | grep -v conda | cut -c1-500
echo "== thorough"; /venv/bin/python -m hyverif $P --no-write --tier thorough 2>&1 | grep -v "conda\|KNOWN-FINDING" | cut -c1-400
echo "== seeds"; /venv/bin/python tools/run_seeds_par.py --props $P ${P^^} 2>&1 | grep -v conda | cut -c1-220
if [ $# -gt 0 ]; then echo "== neutral"; /venv/bin/python tools/neutral_mut.py run --props $P "$@" 2>&1 | grep -v conda | grep -v "VIOL=- .*ERR=- "; /venv/bin/python tools/neutral_summary.py; fi
