"""C06 — let is lexically scoped: every binding construct is routed through the scope chain; scope entry/exit pairing."""
CANON = True

import ast

from .. import boolfn, compq, pyq
from ..pysrc import dotted, norm
from .c05 import check_scopefn_params

R, CP, SC = compq.RM, compq.CP, compq.SC


def check_scope_routing(ctx, comp, rule="R-ID-SCOPE"):
    """Every place that turns a user symbol into a variable reference or binding tells the scope chain (shared with C07)."""
    rm, cp = comp.rm, comp.cp
    cs = cp.func("HyASTCompiler.compile_symbol")
    ctx.require(cs is not None, "compile_symbol not found")
    r = sorted((n for n in pyq.walk_no_nested(cs) if isinstance(n, ast.Return)), key=lambda n: n.lineno)
    last = r[-1] if r else None
    ctx.check(last is not None and isinstance(last.value, ast.Call) and dotted(last.value.func) == "self.scope.access" and "asty.Name(symbol, id=mangle(symbol), ctx=ast.Load())" in norm(last.value),
              rule, f"{CP}|compile_symbol|access", "a symbol reference is not passed through scope.access (let renaming and closure tracking miss it)", CP, cs.lineno,
              witness="(let [x 1] x) reads the global x", detail="self.scope.access(Name)")
    st = cp.func("HyASTCompiler._storeize")
    ctx.require(st is not None, "_storeize not found")
    arm = pyq.contains(st, lambda n: isinstance(n, ast.If) and norm(n.test) == "isinstance(name, ast.Name)")
    ok = arm is not None and pyq.contains(arm.body, lambda n: isinstance(n, ast.If) and norm(n.test) == "func == ast.Store" and "self.scope.assign(new_name)" in [norm(s) for s in n.body]) is not None
    ctx.check(ok, rule, f"{CP}|_storeize|assign", "a stored name is not passed through scope.assign", CP, st.lineno, witness="(let [x 1] (setv x 2) x) assigns the global x", detail="scope.assign under Store")
    rn = cp.func("Result.rename")
    ctx.require(rn is not None, "Result.rename not found")
    arm = pyq.contains(rn, lambda n: isinstance(n, ast.If) and norm(n.test) == "isinstance(var, ast.Name)")
    ctx.check(arm is not None and "compiler.scope.assign(var)" in [norm(s) for s in arm.body], rule, f"{CP}|Result.rename|assign", "renamed temporaries are not registered as assignments of the new name",
              CP, rn.lineno, witness="(let [x 1] (setv x (if a (do (f) 1) 2)) x) assigns the global x", detail="scope.assign(var)")
    for fname, what in (("compile_function_def", "function"), ("compile_class_expression", "class")):
        f = rm.func(fname)
        ctx.require(f is not None, f"{fname} not found")
        d = pyq.contains(f, lambda n: isinstance(n, ast.Call) and norm(n) == "compiler.scope.define(name)")
        w = pyq.contains(f, lambda n: isinstance(n, ast.With) and "scope.create(ScopeFn" in norm(n))
        ctx.check(d is not None and w is not None and d.lineno < w.lineno, rule, f"{R}|{fname}|define", f"the {what} name is not defined in the enclosing scope before the body's scope is entered",
                  R, f.lineno, witness=f"(let [f 1] (def{'n' if what == 'function' else 'class'} f …) f) still sees the let binding", detail="scope.define(name) before the body scope")
    im = rm.func("compile_import")
    ctx.require(im is not None, "compile_import not found")
    def _resolved(e):
        if isinstance(e, ast.Name):
            ds = [n.value for n in ast.walk(im) if isinstance(n, ast.Assign) and len(n.targets) == 1 and isinstance(n.targets[0], ast.Name) and n.targets[0].id == e.id]
            if len(ds) == 1:
                return ds[0]
        return e

    dargs = [_resolved(c.args[0]) for c in pyq.calls(im) if dotted(c.func) == "compiler.scope.define" and c.args]
    kinds = sorted("mangled name" if isinstance(a, ast.Call) and dotted(a.func) == "mangle" else
                   ("first component" if isinstance(a, ast.Subscript) and isinstance(a.slice, ast.Constant) and a.slice.value == 0 and isinstance(a.value, ast.Call)
                    and isinstance(a.value.func, ast.Attribute) and a.value.func.attr == "split" else f"other: {norm(a)}") for a in dargs)
    defs = kinds
    ctx.decide(rule, f"{R}|compile_import|define", None if not dargs else kinds == ["first component", "mangled name"],
               f"import registers {kinds}; it must register the mangled alias of each imported name and the first component of a dotted module", R, im.lineno,
               witness="(import os.path) (defn f [] (nonlocal os) …) compiles to `nonlocal os`", detail=str(defs))
    dt = rm.func("compile_deftype")
    ctx.require(dt is not None, "compile_deftype not found")
    ctx.check(pyq.contains(dt, lambda n: isinstance(n, ast.Call) and norm(n) == "compiler.scope.define(mangle(name))") is not None, rule, f"{R}|compile_deftype|define",
              "deftype does not register the alias name with the scope", R, dt.lineno, witness="(deftype T int) (defn f [] (nonlocal T) …) compiles to `nonlocal T`", detail="scope.define(mangle(name))")
    gn = rm.func("compile_global_or_nonlocal")
    ctx.require(gn is not None, "compile_global_or_nonlocal not found")
    ctx.check(pyq.contains(gn, lambda n: isinstance(n, ast.Call) and norm(n) == "compiler.scope.define_nonlocal(ret, root)") is not None, rule, f"{R}|compile_global_or_nonlocal|define_nonlocal",
              "global/nonlocal declarations are not registered with the scope", R, gn.lineno, detail="define_nonlocal(ret, root)")


def check(ctx, src):
    ctx.rule("R-ID-SCOPE", "every construct that turns a user symbol into a variable reference or binding (symbol load, stores through _storeize, renamed temporaries, defn/defclass/import/deftype names, "
             "global/nonlocal, function parameters, match captures [C08], except variables [C09]) is routed through the scope chain, so that let can rename it")
    ctx.rule("LET-SCOPE", "ScopeLet renames bound names on access and assign and otherwise delegates to its parent; define() drops a shadowed binding; add() maps the mangled name to a fresh reserved name")
    ctx.rule("LET-ORDER", "compile_let compiles each value inside the let scope but before its own name is added, and the body inside the scope")
    ctx.rule("SCOPE-PAIR", "scopes are entered only by `with`; __enter__ links the parent and installs the scope, __exit__ restores the parent; ScopeFn.__exit__ hands unbound names to the parent")
    ctx.rule("SCOPE-PARAMS", "function scopes record all five kinds of parameters as defined")
    comp = compq.Compiler(src)
    check_scope_routing(ctx, comp)
    sc = comp.sc
    # --- ScopeLet
    for meth in ("access", "assign"):
        f = sc.func(f"ScopeLet.{meth}")
        ctx.require(f is not None, f"ScopeLet.{meth} not found")
        texts = [norm(s) for s in f.body]
        ctx.check(texts == [f"self._rename_if_bound(node) or self.parent.{meth}(node)", "return node.node"], "LET-SCOPE", f"{SC}|ScopeLet.{meth}|rename-or-delegate",
                  f"ScopeLet.{meth} is {texts}", SC, f.lineno, witness="a let-bound name is not renamed / an unbound name is not passed to the enclosing scope", detail="rename or delegate")
    f = sc.func("ScopeLet._rename_if_bound")
    ctx.require(f is not None, "_rename_if_bound not found")
    ctx.check(pyq.contains(f, lambda n: isinstance(n, ast.If) and norm(n.test) == "node.name in self.bindings" and "node.name = self.bindings[node.name]" in [norm(s) for s in n.body]) is not None,
              "LET-SCOPE", f"{SC}|ScopeLet._rename_if_bound|lookup", "renaming no longer looks the node's name up in bindings", SC, f.lineno, detail="node.name = bindings[node.name]")
    f = sc.func("ScopeLet.define")
    ctx.require(f is not None, "ScopeLet.define not found")
    ctx.check([norm(s) for s in f.body] == ["self.bindings.pop(name, None)", "self.parent.define(name)"], "LET-SCOPE", f"{SC}|ScopeLet.define|shadow",
              "a definition (defn/defclass/import) inside a let must drop the let binding of that name and be passed on", SC, f.lineno,
              witness="(let [f 1] (defn f [] 2) (f)) calls 1", detail="pop + parent.define")
    f = sc.func("ScopeLet.add")
    ctx.require(f is not None, "ScopeLet.add not found")
    st = pyq.contains(f, lambda n: isinstance(n, ast.Assign) and norm(n) == "self.bindings[name] = new_name")
    nm = pyq.contains(f, lambda n: isinstance(n, ast.Assign) and norm(n) == "name = mangle(target)")
    rs = pyq.contains(f, lambda n: isinstance(n, ast.Return) and norm(n.value) == "Symbol(new_name).replace(target)")
    ctx.check(st is not None and nm is not None and rs is not None, "LET-SCOPE", f"{SC}|ScopeLet.add|binding", "add() must key the binding by the mangled name and return the renamed symbol", SC, f.lineno,
              detail="bindings[mangle(target)] = new_name; return Symbol(new_name)")
    # --- compile_let / compile_assign order
    ca = comp.rm.func("compile_assign")
    ctx.require(ca is not None, "compile_assign not found")
    w = pyq.contains(ca, lambda n: isinstance(n, ast.With) and norm(n.items[0].context_expr) == "let_scope or nullcontext()" and "result = compiler.compile(value)" in [norm(s) for s in n.body])
    add = pyq.contains(ca, lambda n: isinstance(n, ast.If) and norm(n.test) == "let_scope" and "target = let_scope.add(target)" in [norm(s) for s in n.body])
    ctx.check(w is not None and add is not None and w.lineno < add.lineno, "LET-ORDER", f"{R}|compile_assign|value-then-add",
              "a let value must be compiled inside the let scope before its own name is added to it", R, ca.lineno, witness="(let [x 1] (let [x (+ x 1)] x)) : the inner value reads the inner (unbound) x",
              detail="with let_scope: compile(value); then let_scope.add(target)")
    cl = comp.rm.func("compile_let")
    ctx.require(cl is not None, "compile_let not found")
    mk = pyq.contains(cl, lambda n: isinstance(n, ast.Assign) and norm(n) == "scope = compiler.scope.create(ScopeLet)")
    sv = mk.targets[0].id if mk is not None and isinstance(mk.targets[0], ast.Name) else None
    call = pyq.contains(cl, lambda n: isinstance(n, ast.Call) and dotted(n.func) == "compile_assign" and any(k.arg == "let_scope" and isinstance(k.value, ast.Name) and k.value.id == sv for k in n.keywords))
    body = pyq.contains(cl, lambda n: isinstance(n, ast.With) and isinstance(n.items[0].context_expr, ast.Name) and n.items[0].context_expr.id == sv and pyq.contains(n.body, lambda x: isinstance(x, ast.Call) and "mkexpr('do', *body)" in norm(x)) is not None)
    ctx.check(mk is not None and call is not None and body is not None, "LET-ORDER", f"{R}|compile_let|structure", "compile_let must create one ScopeLet, compile every binding with it, and compile the body inside it",
              R, cl.lineno, detail="create; compile_assign(let_scope=scope); with scope: body")
    # --- pairing
    en = sc.func("ScopeBase.__enter__")
    ex = sc.func("ScopeBase.__exit__")
    ctx.require(en is not None and ex is not None, "ScopeBase.__enter__/__exit__ not found")
    t_en = [norm(s) for s in en.body]
    ctx.check("self.compiler.scope = self" in t_en and t_en[-1] == "return self" and "self.parent = self.compiler.scope" in norm(en.body[0]), "SCOPE-PAIR", f"{SC}|ScopeBase.__enter__|install",
              "__enter__ must record the current scope as parent and install itself", SC, en.lineno, detail="parent = compiler.scope; compiler.scope = self")
    t_ex = [norm(s) for s in ex.body]
    ctx.check(t_ex == ["if self.parent: self.compiler.scope = self.parent", "return False"], "SCOPE-PAIR", f"{SC}|ScopeBase.__exit__|restore", f"__exit__ is {t_ex}: it must restore the parent and not swallow exceptions",
              SC, ex.lineno, witness="after a let, later code is still compiled inside it (names leak) / compile errors are swallowed", detail="restore parent; return False")
    manual = []
    for m in comp.mods:
        for c in pyq.calls(m.tree):
            if isinstance(c.func, ast.Attribute) and c.func.attr in ("__enter__", "__exit__") and "super()" not in norm(c):
                manual.append(f"{m.rel}:{c.lineno}")
    ctx.check(not manual, "SCOPE-PAIR", "whole-compiler|manual __enter__", f"scopes are entered manually at {manual}", "", 0, detail="none")
    n_create = 0
    for m in (comp.rm, comp.cp):
        for c in pyq.calls(m.tree):
            if isinstance(c.func, ast.Attribute) and c.func.attr == "create" and "scope" in norm(c.func.value):
                n_create += 1
                # either used as a with item directly, or bound to a name that is later a with item
                p = c._parent
                ok = isinstance(p, ast.withitem) or (isinstance(p, ast.IfExp) and True) or (isinstance(p, ast.Assign))
                ctx.check(ok, "SCOPE-PAIR", f"{m.rel}|{m.qual_of(c)}|{norm(c)}", "a created scope is not entered through `with`", m.rel, c.lineno, detail="with-entered")
    fx = sc.func("ScopeFn.__exit__")
    ctx.require(fx is not None, "ScopeFn.__exit__ not found")
    # every reference seen in the function whose name is not defined here is handed to the parent scope: the call
    # self.parent.access(<ref>) is reached exactly when `<ref>.name not in self.defined` (no further condition)
    pa = [c for c in pyq.calls(fx) if dotted(c.func) == "self.parent.access"]
    v, cex = boolfn.equivalent(pa, fx, boolfn.Atoms(D="__.name in self.defined"), lambda e: not e["D"], free_unknown=True)
    loops = [n for n in pyq.walk_no_nested(fx) if isinstance(n, ast.For) and norm(n.iter) == "self.seen"]
    in_loop = bool(pa) and all(any(c is x for l_ in loops for x in ast.walk(l_)) for c in pa)
    ctx.decide_tt("SCOPE-PAIR", f"{SC}|ScopeFn.__exit__|propagate", None if v is None or not pa else (v and in_loop),
                  f"every name seen but not defined in a function scope must be handed to the parent scope (differs for {cex}; inside the loop over self.seen: {in_loop})",
                  SC, fx.lineno, witness="(let [x 1] (fn [] x x)): the second reference to x is not renamed to the let's variable", detail="for ref in self.seen: if ref.name not in self.defined: parent.access(ref)")
    sup = [c for c in pyq.calls(fx) if isinstance(c.func, ast.Attribute) and c.func.attr == "__exit__" and isinstance(c.func.value, ast.Call) and dotted(c.func.value.func) == "super"]
    ctx.check(bool(sup), "SCOPE-PAIR", f"{SC}|ScopeFn.__exit__|super", "ScopeFn.__exit__ must finish through ScopeBase.__exit__ (which restores the parent scope)", SC, fx.lineno, detail="super().__exit__")
    check_scopefn_params(ctx, comp, "SCOPE-PARAMS")
    from . import c12
    from .. import core

    ctx.rule("R-ID-FRESH", "every let binding gets a fresh reserved name (two bindings of one symbol in one let are distinct variables)")
    core.transfer(ctx, src, c12, {"R-ID-FRESH"}, key_filter=lambda k: "ScopeLet.add" in k)
    ctx.floor("R-ID-SCOPE", 8)


SELFTESTS = [
    dict(name="symbol without scope.access", file=CP, old="return self.scope.access(asty.Name(symbol, id=mangle(symbol), ctx=ast.Load()))", new="return asty.Name(symbol, id=mangle(symbol), ctx=ast.Load())",
         rule="R-ID-SCOPE", key="compile_symbol"),
    dict(name="let define keeps binding", file=SC, old="        self.bindings.pop(name, None)\n        self.parent.define(name)", new="        self.parent.define(name)", rule="LET-SCOPE", key="ScopeLet.define"),
    dict(name="add before value", file=R, old="        with let_scope or nullcontext():\n            result = compiler.compile(value)\n        if let_scope:\n            target = let_scope.add(target)",
         new="        if let_scope:\n            target = let_scope.add(target)\n        with let_scope or nullcontext():\n            result = compiler.compile(value)", rule="LET-ORDER", key="value-then-add"),
    dict(name="exit keeps scope", file=SC, old="        if self.parent:\n            self.compiler.scope = self.parent\n        return False", new="        return False", rule="SCOPE-PAIR", key="ScopeBase.__exit__"),
    dict(name="import registers dotted", file=R, old='compiler.scope.define(prefix.split(".")[0])', new="compiler.scope.define(prefix)", rule="R-ID-SCOPE", key="compile_import"),
]
