"""Placement facts for all compile functions (shared by C01/C02/C04/C05/C08/C09)."""
import ast

from . import compq, rflow

HELPERS = ("compile_assign", "compile_function_node", "compile_lambda_list", "compile_arguments_set", "compile_pattern")
CP_METHODS = ("_compile_collect", "_compile_branch", "compile_expression", "compile_fcomponent", "compile_fstring", "compile_list", "compile_dict", "compile_tuple")
CP_SLOTS = {"compile_expression": ["expr"]}


def all_facts(src, comp=None):
    """-> {function name: set of (slot index:name, kind, sink)}"""
    comp = comp or compq.Compiler(src)
    W = rflow.FlowWorld(comp)
    out = {}
    seen = set()
    for r in comp.registry:
        f = r["func"]
        if id(f) in seen:
            continue
        seen.add(id(f))
        R, facts = W.facts_of(comp.rm, f)
        out[f.name] = _label(R, facts)
    for name in HELPERS:
        f = comp.rm.func(name)
        if f is None:
            continue
        slots = [a.arg for a in f.args.args + f.args.kwonlyargs if a.arg not in rflow.NON_SLOT]
        R, facts = W.facts_of(comp.rm, f, slots)
        out[name] = _label(R, facts)
    for name in CP_METHODS:
        f = comp.cp.func("HyASTCompiler." + name)
        if f is None:
            continue
        slots = CP_SLOTS.get(name) or [a.arg for a in f.args.args if a.arg not in rflow.NON_SLOT]
        R, facts = W.facts_of(comp.cp, f, slots)
        out[name] = _label(R, facts)
    return out


def _label(R, facts):
    idx = {s: i for i, s in enumerate(R.slots)}
    return {(f"{idx.get(role, '?')}:{role}", kind, sink) for (role, kind, sink) in facts}


def _idx(role):
    return role.split(":")[0]


def check_placement(ctx, src, funcs, rule="PLACEMENT", comp=None, facts=None):
    """Compare today's placement facts of `funcs` with the frozen table."""
    from .placement_table import KNOWN_BAD, TABLE

    comp = comp or compq.Compiler(src)
    facts = facts or all_facts(src, comp)
    for fn in funcs:
        ctx.require(fn in TABLE, f"{fn} is not in the placement table")
        ctx.require(fn in facts, f"compile function {fn} not found (anchor vanished)")
        ctx.functions.add(f"{compq.RM}:{fn}")
        want = {(_idx(r), k, s): r for (r, k, s) in TABLE[fn]}
        bad_known = {(_idx(r), k, s): (r, why) for (f2, (r, k, s)), why in KNOWN_BAD.items() if f2 == fn}
        got = {(_idx(r), k, s): r for (r, k, s) in facts[fn]}
        for key, role in sorted(got.items()):
            k = f"{fn}|slot {role}|{key[1]}|{key[2]}"
            if key in bad_known:
                ctx.bad(rule, k, bad_known[key][1], compq.RM, 0, witness="a statement-producing form in that slot")
            elif key in want:
                ctx.ok(rule, k, "as reviewed")
            else:
                what = "statements" if key[1] == "stmts" else "value"
                allowed = sorted(s for (i, kk, s) in want if i == key[0] and kk == key[1])
                # Only two kinds of new placement are reported, because they are what a misplacement looks like and the
                # engine resolves them exactly: statements hoisted to the level of the construct although every reviewed
                # placement is inside a branch, and a sub-form landing in the sibling field of the reviewed one
                # (body <-> orelse, handlers <-> finalbody).  Any other new sink is a flow the engine labels differently
                # after a restructuring: unresolved.
                hoisted = key[1] == "stmts" and key[2] == "top" and allowed and "top" not in allowed
                sibling = any(a.split(".")[0] == key[2].split(".")[0] and a != key[2] and {a.split(".")[-1], key[2].split(".")[-1]} <= {"body", "orelse", "finalbody", "handlers"}
                              for a in allowed if "." in a and "." in key[2])
                if hoisted:
                    ctx.bad(rule, k, f"the statements of sub-form `{role.split(':')[1]}` are hoisted to the level of the construct itself (they run unconditionally, before it); the reviewed placements are {allowed}",
                            compq.RM, 0, witness="a statement-producing / side-effecting form in that slot is evaluated unconditionally instead of inside its branch")
                elif sibling:
                    ctx.bad(rule, k, f"the {what} of sub-form `{role.split(':')[1]}` now reach {key[2]}; the reviewed placements are {allowed}", compq.RM, 0,
                            witness="the sub-form runs in the wrong branch / clause")
                else:
                    ctx.unres(rule, k, f"new placement of the {what} of sub-form `{role.split(':')[1]}` in {key[2]} (reviewed: {allowed})")
        for key, role in sorted(want.items()):
            if key not in got:
                k = f"{fn}|slot {role}|{key[1]}|{key[2]}|missing"
                what = "statements" if key[1] == "stmts" else "value"
                # Not finding a reviewed placement is not evidence of a defect: the flow may have moved into a shape the
                # engine does not follow (a helper, a container).  Dropped statements are R-LIN's business (C11), which
                # reports the construct that drops them.
                ctx.unres(rule, k, f"the reviewed placement of the {what} of sub-form `{role.split(':')[1]}` in {key[2]} was not found")
    return facts
