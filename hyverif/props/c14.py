"""C14 — hy2py output is valid Python: necessary conditions for ast.unparse to succeed and re-parse."""
CANON = True
STRICT = {"H2P-SAME", "R-ID-MANGLE", "O0", "OUTERVAR-CLOSED"}

import ast

from .. import compq, core, pyq
from ..pysrc import dotted, norm, flat
from . import c05, c07, c10, c34

CM = "hy/cmdline.py"
CO = "hy/compat.py"


def _transfer(ctx, sub, rules, rename=None):
    for i in sub.instances:
        if i["rule"] in rules:
            ctx.instances.append(dict(i))
    for f in sub.findings:
        if f.rule in rules:
            ctx.findings.append(f)
    for u in sub.unresolved:
        if u["rule"] in rules:
            ctx.unresolved.append(u)
    for r in rules:
        if r in sub.rules:
            ctx.rules[r] = sub.rules[r]


def check(ctx, src):
    ctx.rule("H2P-SAME", "hy2py_worker unparses exactly the object hy_compile returned")
    ctx.rule("H2P-KEYWORDS", "the unparse wrapper (keyword mincing) works on a deep copy, never rewrites Constant values, and only rewrites identifier strings that are Python keywords other than True/False/None")
    ctx.rule("H2P-LAMBDA", "no annotated parameter is emitted inside a Lambda (Python cannot print it)")
    comp = compq.Compiler(src)
    cm = src.py(CM)
    w = cm.func("hy2py_worker")
    ctx.require(w is not None, "hy2py_worker not found")
    asg = pyq.contains(w, lambda n: isinstance(n, ast.Assign) and isinstance(n.value, ast.Call) and dotted(n.value.func) == "hy_compile")
    ctx.need(asg is not None, "hy2py_worker: hy_compile call not found")
    v = norm(asg.targets[0])
    un = [c for c in pyq.calls(w) if dotted(c.func) == "ast.unparse"]
    ctx.check(len(un) == 1 and norm(un[0].args[0]) == v and norm(asg.value.args[0]) == "hst", "H2P-SAME", f"{CM}|hy2py_worker|unparse(compiled)", f"hy2py prints `{norm(un[0]) if un else None}`; it must unparse the module `{v}` that hy_compile returned for the whole stream",
              CM, w.lineno, witness="hy2py prints code for a different tree than the one that is executed", detail=f"ast.unparse({v})")
    stores = [n for n in ast.walk(w) if isinstance(n, (ast.Assign, ast.AugAssign)) and norm(n.targets[0] if isinstance(n, ast.Assign) else n.target).startswith(v) and n is not asg]
    ctx.check(not stores, "H2P-SAME", f"{CM}|hy2py_worker|not modified", f"the compiled module is modified before printing: {[norm(s)[:40] for s in stores]}", CM, w.lineno, detail="unmodified")
    # --- keyword mincing
    co = src.py(CO)
    ru = co.func("rewriting_unparse")
    ctx.require(ru is not None, "rewriting_unparse not found")
    t = flat(ru)
    ctx.check("ast_obj = copy.deepcopy(ast_obj)" in t and t.rstrip().endswith("return true_unparse(ast_obj)"), "H2P-KEYWORDS", f"{CO}|rewriting_unparse|copy", "the wrapper must work on a deep copy and finish with the real unparse", CO, ru.lineno,
              witness="calling hy2py mutates the AST that is then executed", detail="deepcopy; true_unparse")
    ctx.check("if type(node) is ast.Constant: continue" in t, "H2P-KEYWORDS", f"{CO}|rewriting_unparse|constants untouched", "string constants that happen to be keywords must not be rewritten", CO, ru.lineno, witness='the literal "class" is printed as a mangled string', detail="skip Constant")
    ctx.check("if type(v) is str and keyword.iskeyword(v) and (v not in ('True', 'False', 'None')):" in t, "H2P-KEYWORDS", f"{CO}|rewriting_unparse|which strings", "only identifier fields holding a Python keyword (other than True/False/None) may be rewritten", CO, ru.lineno, detail="keyword and not a constant name")
    ctx.check("setattr(node, field, chr(ord(v[0]) - ord('a') + ord('𝐚')) + v[1:])" in t, "H2P-KEYWORDS", f"{CO}|rewriting_unparse|NFKC-equivalent", "the replacement must be the NFKC-equivalent spelling (first letter in MATHEMATICAL BOLD)", CO, ru.lineno, detail="𝐚-offset first letter")
    # --- shared rules
    sub = core.Ctx(ctx.prop, ctx.tier, ctx.seed)
    c10.check(sub, src)
    _transfer(ctx, sub, {"O0", "O1"})
    sub = core.Ctx(ctx.prop, ctx.tier, ctx.seed)
    c34.check(sub, src)
    _transfer(ctx, sub, {"R-ID-MANGLE", "R-ID-MANGLE-STORE"})
    sub = core.Ctx(ctx.prop, ctx.tier, ctx.seed)
    c07.check(sub, src)
    _transfer(ctx, sub, {"OUTERVAR-CLOSED"})
    sub = core.Ctx(ctx.prop, ctx.tier, ctx.seed)
    c05.check(sub, src)
    for i in sub.instances:
        if i["rule"] == "FN-SHAPE" and ("has_annotations" in i["key"] or "lambda-condition" in i["key"]):
            i = dict(i); i["rule"] = "H2P-LAMBDA"; ctx.instances.append(i)
    for f in sub.findings:
        if f.rule == "FN-SHAPE" and ("has_annotations" in f.key or "lambda-condition" in f.key):
            f.rule = "H2P-LAMBDA"; ctx.findings.append(f)
    ctx.assume("behavioural equality of the printed source and the AST is not decided; only necessary conditions for unparse/re-parse are")
    ctx.floor("O0", 150)
    ctx.floor("R-ID-MANGLE", 45)


SELFTESTS = [
    dict(name="constants minced", file=CO, old="            if type(node) is ast.Constant:\n                # Don't touch string literals.\n                continue\n", new="", rule="H2P-KEYWORDS", key="constants untouched"),
    dict(name="except name unmangled", file=compq.RM, old="            name = mangle(compiler._nonconst(name))\n\n        if exceptions == \"ALL\":", new="            name = str(compiler._nonconst(name))\n\n        if exceptions == \"ALL\":", rule="R-ID-MANGLE", key="compile_try_expression"),
    dict(name="annotated rest in lambda", file=compq.RM, old="for param in (posonly or []) + args + kwonly + [rest, kwargs]", new="for param in (posonly or []) + args + kwonly", rule="H2P-LAMBDA", key="has_annotations"),
    dict(name="TypeAlias without type_params", file=compq.RM, old="        **(digest_type_params(compiler, tp) or dict(type_params = [])))", new="        **digest_type_params(compiler, tp))", rule="O0", key="compile_deftype"),
]
