"""C13 — deterministic compilation across processes (hash-order / entropy taint)."""
CANON = True
STRICT = {"DET-SET", "DET-ENTROPY", "DET-HYSET"}

import ast

from .. import detflow
from ..pysrc import norm

COMPILE_PATH = [
    "hy/compiler.py", "hy/scoping.py", "hy/core/result_macros.py", "hy/macros.py",
    "hy/models.py", "hy/model_patterns.py", "hy/reader/__init__.py", "hy/reader/reader.py",
    "hy/reader/hy_reader.py", "hy/reader/mangling.py", "hy/reader/exceptions.py",
    "hy/importer.py", "hy/compat.py", "hy/errors.py",
]
HY_FILES = ["hy/core/macros.hy", "hy/core/util.hy", "hy/core/hy_repr.hy", "hy/pyops.hy"]

HY_ORDER_FREE = {"in", "not-in", ".add", ".discard", ".remove", "len", "sorted", ".update", "set", "frozenset", "bool", "not"}


def check(ctx, src):
    ctx.rule("DET-SET", "every expression of set type on the compile path is used only in order-insensitive ways "
             "(membership, len, truthiness, set algebra, sorted, any/all, add/update/discard); iterating it, "
             "list()/tuple()/join/*-unpacking it, or storing it in an AST node is a report")
    ctx.rule("DET-ENTROPY", "id()/hash()/time/random/pid/listdir values on the compile path are used only for membership tests")
    ctx.rule("DET-HYSET", "same as DET-SET for set-valued variables in the core .hy files")
    mods = [src.py(r) for r in COMPILE_PATH if src.exists(r)]
    ctx.need(len(mods) >= 12, "compile-path modules missing")
    facts = detflow.SetFacts(mods)
    ctx.need({"defined", "iterators"} <= set(facts.set_attrs), "scope classes no longer keep `defined`/`iterators` sets (anchor vanished)")
    for m in mods:
        for q, n, verdict, how in detflow.scan_module(facts, m):
            ctx.functions.add(f"{m.rel}:{q}")
            p = getattr(n, "_parent", None)
            key = f"{m.rel}|{q}|{norm(n)}|in {norm(p) if p is not None else ''}"
            if verdict == "ok":
                ctx.ok("DET-SET", key, how, nontrivial=not isinstance(p, ast.Assign))
            elif verdict == "report":
                ctx.bad("DET-SET", key, how + "; the emitted order varies with PYTHONHASHSEED",
                        m.rel, n.lineno,
                        witness="any program that puts two or more distinct names into this set", robust=True)
            else:
                ctx.unres("DET-SET", key, how)
        for n, fn, ok, how in detflow.scan_entropy(m):
            q = m.qual_of(n)
            key = f"{m.rel}|{q}|{fn}|{norm(getattr(n, '_parent', n))}"
            if ok:
                ctx.ok("DET-ENTROPY", key, how)
            elif q.split(".")[-1] in ("__hash__",) or fn == "os.environ":
                ctx.ok("DET-ENTROPY", key, "inside __hash__ / environment switch that does not reach the AST", nontrivial=False)
            elif m.rel in ("hy/importer.py", "hy/errors.py", "hy/compat.py"):
                ctx.unres("DET-ENTROPY", key, how)
            else:
                ctx.bad("DET-ENTROPY", key, f"per-process value {fn}() is used outside a membership test on the compile path ({how})",
                        m.rel, n.lineno, witness="compile the same source in two processes")
    ctx.floor("DET-SET", 25)

    # .hy side
    for rel in HY_FILES:
        if not src.exists(rel):
            continue
        hf = src.hy(rel)
        setvars = set()
        for f in hf.find("setv"):
            items = f.items[1:]
            for t, v in zip(items[::2], items[1::2]):
                if t.kind == "sym" and (v.kind == "set" or (v.kind == "expr" and v.head() in ("set", "frozenset"))):
                    setvars.add(t.val)
        for node in hf.walk():
            if node.kind == "sym" and node.val in setvars:
                par = node._parent
                if par is None:
                    continue
                head = par.head() if par.kind == "expr" else None
                key = f"{rel}|{node.val}|{par.src()[:80]}"
                if head == "setv" or head == "global":
                    continue
                if head in HY_ORDER_FREE:
                    ctx.ok("DET-HYSET", key, f"({head} ...)")
                elif head in ("for", "lfor", "gfor", "sfor", "dfor", "list", "tuple", ".join", "map", "iter", "next", "unpack-iterable") or par.kind == "list":
                    ctx.bad("DET-HYSET", key, f"set `{node.val}` is iterated by ({head} ...): hash order", rel, node.line,
                            witness="two or more elements in the set", robust=True)
                else:
                    ctx.unres("DET-HYSET", key, f"use in ({head} ...)")
        # set-valued expressions iterated in place: (lfor x (sfor …) …), (for [x #{…}] …), (dfor m (set …) …)
        for node in hf.walk():
            is_set = node.kind == "set" or (node.kind == "expr" and node.head() in ("sfor", "set", "frozenset"))
            par = node._parent
            if not is_set or par is None:
                continue
            head = par.head() if par.kind == "expr" else None
            key = f"{rel}|inline {node.src()[:40]}|in ({head} …)"
            if (head in ("lfor", "gfor", "dfor") and node is not par.items[-1]) or (par.kind == "list" and par._parent is not None and par._parent.head() == "for") \
                    or head in ("list", "tuple", "map", "enumerate", "zip", "iter", "next", ".join", "unpack-iterable"):
                ctx.bad("DET-HYSET", key, f"a set-valued expression is iterated by ({head or 'for'} …): the order of the result depends on PYTHONHASHSEED", rel, node.line,
                        witness="two or more elements: e.g. the dict that (local-macros) expands to lists its keys in a different order per process", robust=True)
            elif head in HY_ORDER_FREE or head in ("sfor", "setv", "when", "if", "and", "or", "|", "&", "-"):
                ctx.ok("DET-HYSET", key, f"({head} …)", nontrivial=False)
    ctx.floor("DET-HYSET", 4)


SELFTESTS = [
    dict(name="local macros deduplicated through a set", file="hy/core/macros.hy", old="""  (setv seen #{})
  (dfor
    state _hy_compiler.local_state_stack
    m (get state "macros")
    :if (not-in m seen)
    :do (.add seen m)
    m (hy.models.Symbol (hy.macros.local-macro-name m))))""", new="""  (dfor
    m (sfor state _hy_compiler.local_state_stack  m (get state "macros")  m)
    m (hy.models.Symbol (hy.macros.local-macro-name m))))""", rule="DET-HYSET", key="inline"),
    dict(name="finalize sorted->list", file="hy/scoping.py", old="return sorted(res)", new="return list(res)",
         rule="DET-SET", key="ScopeGen.finalize"),
    dict(name="finalize sorted(list())", file="hy/scoping.py", old="return sorted(res)", new="return sorted(list(res))", kind="twin"),
    dict(name="undefined list->set", file="hy/scoping.py", old="undefined = list(node.names)", new="undefined = set(node.names)",
         rule="DET-SET", key="visit_OuterVar"),
    dict(name="anon var from id()", file="hy/compiler.py", old='return f"_hy_{base}{name}_{self.anon_var_count}"',
         new='return f"_hy_{base}{name}_{id(self)}"', rule="DET-ENTROPY", key="get_anon_var"),
]
