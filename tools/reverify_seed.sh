#!/bin/bash
# usage: reverify_seed.sh <NAME>  -- re-verifies /verif/seeded/<NAME>/{patch.diff,demo.py} against /repo HEAD in a scratch
# worktree: demo passes on HEAD, fails with the patch, test suite unchanged.  Writes /verif/seeded/<NAME>/meta.json.
set -u
NAME=$1
D=/verif/seeded/$NAME
W=/tmp/vs/re-$NAME
mkdir -p /tmp/vs; rm -rf "$W"; git -C /repo worktree prune
git -C /repo worktree add -q --detach "$W" HEAD || { echo "$NAME: worktree failed"; exit 2; }
cd "$W"; mkdir -p _seed; cp "$D/demo.py" _seed/demo1.py
export PYTHONDONTWRITEBYTECODE=1 PYTHONPATH="$W"
timeout 600 /venv/bin/python _seed/demo1.py >/tmp/vs/re-$NAME.clean.log 2>&1; RC_CLEAN=$?
if ! git apply --check "$D/patch.diff" 2>/dev/null; then echo "$NAME: PATCH-DOES-NOT-APPLY"; cd /; git -C /repo worktree remove --force "$W"; exit 3; fi
git apply "$D/patch.diff"
timeout 600 /venv/bin/python _seed/demo1.py >/tmp/vs/re-$NAME.patched.log 2>&1; RC_PATCHED=$?
timeout 1800 /venv/bin/python -m pytest -q -p no:cacheprovider --timeout=900 -rf 2>&1 | grep -E "^FAILED|passed|failed" | sed 's/ - .*//' | sort > /tmp/vs/re-$NAME.tests.log
SAME=no; diff -q <(grep ^FAILED /tmp/vs/baseline.tests.log) <(grep ^FAILED /tmp/vs/re-$NAME.tests.log) >/dev/null && SAME=yes
SUMMARY=$(grep -E " passed" /tmp/vs/re-$NAME.tests.log | tail -1 | sed 's/ in .*//')
HEADSHA=$(git -C /repo rev-parse --short HEAD)
echo "$NAME: demo_clean=$RC_CLEAN demo_patched=$RC_PATCHED tests_same=$SAME [$SUMMARY] head=$HEADSHA"
/venv/bin/python - "$NAME" "$RC_CLEAN" "$RC_PATCHED" "$SAME" "$SUMMARY" "$HEADSHA" <<'PY'
import json, sys, os
name, rc_clean, rc_patched, same, summary, head = sys.argv[1:7]
d = f"/verif/seeded/{name}"
agent = {}
try: agent = json.load(open(os.path.join(d, "meta.agent.json")))
except Exception: pass
meta = dict(
    property=name.split("-")[0],
    breaks=agent.get("summary", ""),
    needs_to_manifest=agent.get("needs", ""),
    files=agent.get("files", []),
    verified_against_head=head,
    what_i_ran=[
        f"git worktree add /tmp/vs/re-{name} HEAD; demo on clean tree -> exit {rc_clean}",
        f"git apply patch.diff; demo -> exit {rc_patched}",
        f"pytest -q -p no:cacheprovider (whole suite) with the patch -> {summary}; FAILED set identical to unpatched tree: {same}",
        "demo is run as <worktree>/_seed/demo1.py with PYTHONPATH=<worktree>",
    ],
    confirmed=(rc_clean == "0" and rc_patched != "0" and same == "yes"),
)
json.dump(meta, open(os.path.join(d, "meta.json"), "w"), indent=1)
PY
cd /; git -C /repo worktree remove --force "$W"
