#!/venv/bin/python
"""Mechanical behaviour-preserving rewrites of hy's Python sources, used to measure false alarms.

Each transformation is applied to one file of a scratch copy of /repo (never /repo itself); every check is
then run against the copy with --repo.  A VIOLATION or ANALYSIS-ERROR on such a copy is a false alarm.

usage: neutral_mut.py list
       neutral_mut.py emit <transform> <relpath>            -> prints transformed source
       neutral_mut.py run [-j N] [--tests] [-t T1,T2] [FILE ...]   -> matrix; --tests also runs the test suite on each variant
"""
import ast
import concurrent.futures as cf
import copy
import json
import os
import shutil
import subprocess
import sys
import tempfile

FILES = [
    "hy/compiler.py", "hy/core/result_macros.py", "hy/scoping.py", "hy/macros.py", "hy/models.py",
    "hy/reader/hy_reader.py", "hy/reader/reader.py", "hy/reader/mangling.py", "hy/reader/__init__.py",
    "hy/repl.py", "hy/cmdline.py", "hy/importer.py", "hy/model_patterns.py", "hy/errors.py", "hy/reader/exceptions.py",
]

FUNC = (ast.FunctionDef, ast.AsyncFunctionDef, ast.Lambda)
PROPS = "all"


# ---------------------------------------------------------------------------------------------------------
# T1: rename function locals
# ---------------------------------------------------------------------------------------------------------

def _params(f):
    a = f.args
    ps = [x.arg for x in a.posonlyargs + a.args + a.kwonlyargs]
    if a.vararg:
        ps.append(a.vararg.arg)
    if a.kwarg:
        ps.append(a.kwarg.arg)
    return set(ps)


def _bound_names(f):
    """Names bound in f's own scope (and its comprehensions), not in nested defs; minus params/global/nonlocal."""
    bound, declared = set(), set()
    body = f.body if isinstance(f.body, list) else [f.body]
    stack = list(body)
    while stack:
        n = stack.pop()
        if isinstance(n, (ast.FunctionDef, ast.AsyncFunctionDef, ast.ClassDef)):
            continue  # the def's own name is an anchor: not renamed
        if isinstance(n, ast.Lambda):
            continue
        if isinstance(n, (ast.Global, ast.Nonlocal)):
            declared |= set(n.names)
        if isinstance(n, ast.Name) and isinstance(n.ctx, (ast.Store, ast.Del)):
            bound.add(n.id)
        if isinstance(n, ast.ExceptHandler) and n.name:
            bound.add(n.name)
        if isinstance(n, (ast.Import, ast.ImportFrom)):
            continue  # imported names are not renamed
        stack.extend(ast.iter_child_nodes(n))
    return bound - declared - _params(f), declared


class RenameLocals(ast.NodeTransformer):
    def __init__(self, suffix="_rn"):
        self.maps = [{}]
        self.suffix = suffix

    def _enter(self, f):
        bound, declared = _bound_names(f)
        m = dict(self.maps[-1])
        for p in _params(f):
            m.pop(p, None)
        for b in bound:
            if b.startswith("__") or b == "_":
                continue
            m[b] = b + self.suffix
        return m

    def visit_FunctionDef(self, node):
        node.decorator_list = [self.visit(d) for d in node.decorator_list]
        node.args = self._visit_args(node.args)
        if node.returns is not None:
            node.returns = self.visit(node.returns)
        glob = set()
        for n in ast.walk(node):
            if isinstance(n, ast.Global):
                glob |= set(n.names)
        m = self._enter(node)
        for g in glob:
            m.pop(g, None)
        self.maps.append(m)
        node.body = [self.visit(s) for s in node.body]
        self.maps.pop()
        return node

    visit_AsyncFunctionDef = visit_FunctionDef

    def _visit_args(self, a):
        a.defaults = [self.visit(d) for d in a.defaults]
        a.kw_defaults = [self.visit(d) if d is not None else None for d in a.kw_defaults]
        return a

    def visit_Lambda(self, node):
        node.args = self._visit_args(node.args)
        m = dict(self.maps[-1])
        for p in _params(node):
            m.pop(p, None)
        self.maps.append(m)
        node.body = self.visit(node.body)
        self.maps.pop()
        return node

    def visit_ClassDef(self, node):
        # class bodies: names bound there are attributes; do not rename inside, but methods are handled
        node.bases = [self.visit(b) for b in node.bases]
        node.decorator_list = [self.visit(d) for d in node.decorator_list]
        cls_bound = set()
        for st in node.body:
            for n in ast.walk(st) if not isinstance(st, (ast.FunctionDef, ast.AsyncFunctionDef)) else []:
                if isinstance(n, ast.Name) and isinstance(n.ctx, ast.Store):
                    cls_bound.add(n.id)
        m = dict(self.maps[-1])
        for b in cls_bound:
            m.pop(b, None)
        self.maps.append(m)
        node.body = [self.visit(s) for s in node.body]
        self.maps.pop()
        return node

    def visit_Name(self, node):
        new = self.maps[-1].get(node.id)
        if new:
            node.id = new
        return node

    def visit_Nonlocal(self, node):
        node.names = [self.maps[-1].get(n, n) for n in node.names]
        return node

    def visit_ExceptHandler(self, node):
        self.generic_visit(node)
        if node.name and node.name in self.maps[-1]:
            node.name = self.maps[-1][node.name]
        return node


def t_rename(tree):
    # module level has an empty map: only function locals are renamed
    return RenameLocals().visit(tree)


# ---------------------------------------------------------------------------------------------------------
# T2: invert if/else and conditional expressions
# ---------------------------------------------------------------------------------------------------------

def _neg(e):
    if isinstance(e, ast.UnaryOp) and isinstance(e.op, ast.Not):
        return e.operand
    return ast.UnaryOp(op=ast.Not(), operand=e)


class InvertIf(ast.NodeTransformer):
    def visit_If(self, node):
        self.generic_visit(node)
        if node.orelse and not (len(node.orelse) == 1 and isinstance(node.orelse[0], ast.If)):
            # do not invert when the body is a single If either (would turn into elif shape change only) - fine to invert
            node.test, node.body, node.orelse = _neg(node.test), node.orelse, node.body
        return node

    def visit_IfExp(self, node):
        self.generic_visit(node)
        if not isinstance(node.orelse, ast.IfExp):
            node.test, node.body, node.orelse = _neg(node.test), node.orelse, node.body
        return node


def t_invert_if(tree):
    return InvertIf().visit(tree)


# ---------------------------------------------------------------------------------------------------------
# T3: bind returned / tested expressions to a local first
# ---------------------------------------------------------------------------------------------------------

class ExtractLocals(ast.NodeTransformer):
    def __init__(self):
        self.k = 0
        self.in_func = 0

    def _fresh(self, base):
        self.k += 1
        return f"_{base}{self.k}"

    def visit_FunctionDef(self, node):
        self.in_func += 1
        self.generic_visit(node)
        self.in_func -= 1
        node.body = self._block(node.body)
        return node

    visit_AsyncFunctionDef = visit_FunctionDef

    def _block(self, stmts):
        out = []
        for st in stmts:
            if isinstance(st, ast.Return) and st.value is not None and not isinstance(st.value, (ast.Name, ast.Constant)) and not _has_yield(st.value):
                v = self._fresh("rv")
                out.append(ast.Assign(targets=[ast.Name(id=v, ctx=ast.Store())], value=st.value, lineno=0))
                out.append(ast.Return(value=ast.Name(id=v, ctx=ast.Load())))
            elif isinstance(st, ast.If) and isinstance(st.test, (ast.Call, ast.Compare, ast.BoolOp)) and not _has_walrus(st.test):
                v = self._fresh("c")
                out.append(ast.Assign(targets=[ast.Name(id=v, ctx=ast.Store())], value=st.test, lineno=0))
                st.test = ast.Name(id=v, ctx=ast.Load())
                out.append(st)
            else:
                out.append(st)
        return out

    def generic_visit(self, node):
        super().generic_visit(node)
        if self.in_func:
            for fld in ("body", "orelse", "finalbody"):
                blk = getattr(node, fld, None)
                if isinstance(blk, list) and blk and isinstance(blk[0], ast.stmt) and not isinstance(node, (ast.FunctionDef, ast.AsyncFunctionDef, ast.ClassDef)):
                    # an `elif` is an If that is the only statement of an orelse: hoisting its test there is still
                    # correct because the block runs only when the earlier tests failed
                    setattr(node, fld, self._block(blk))
        return node


def _has_yield(e):
    return any(isinstance(n, (ast.Yield, ast.YieldFrom, ast.Await)) for n in ast.walk(e))


def _has_walrus(e):
    return any(isinstance(n, ast.NamedExpr) for n in ast.walk(e))


def t_extract(tree):
    return ExtractLocals().visit(tree)


# ---------------------------------------------------------------------------------------------------------
# T4/T5: comparison operand order, literal container kind
# ---------------------------------------------------------------------------------------------------------

class SwapEq(ast.NodeTransformer):
    def visit_Compare(self, node):
        self.generic_visit(node)
        if len(node.ops) == 1 and isinstance(node.ops[0], (ast.Eq, ast.NotEq)) and isinstance(node.comparators[0], ast.Constant) \
                and isinstance(node.comparators[0].value, (str, int)) and not isinstance(node.left, ast.Constant):
            node.left, node.comparators = node.comparators[0], [node.left]
        return node


class TupleToSet(ast.NodeTransformer):
    def visit_Compare(self, node):
        self.generic_visit(node)
        if len(node.ops) == 1 and isinstance(node.ops[0], (ast.In, ast.NotIn)):
            c = node.comparators[0]
            if isinstance(c, (ast.Tuple, ast.List)) and c.elts and all(isinstance(e, ast.Constant) and isinstance(e.value, str) for e in c.elts):
                node.comparators = [ast.Set(elts=c.elts)]
        return node


def t_swap_eq(tree):
    return SwapEq().visit(tree)


def t_tuple_set(tree):
    return TupleToSet().visit(tree)


# ---------------------------------------------------------------------------------------------------------
# T6: no-op statements at the start of every block; T8: keyword argument order of pure calls
# ---------------------------------------------------------------------------------------------------------

class InsertNoop(ast.NodeTransformer):
    def generic_visit(self, node):
        super().generic_visit(node)
        for fld in ("body", "orelse", "finalbody"):
            blk = getattr(node, fld, None)
            if isinstance(blk, list) and blk and isinstance(blk[0], ast.stmt) and not isinstance(node, (ast.Module, ast.ClassDef)):
                if fld == "orelse" and isinstance(node, ast.If) and len(blk) == 1 and isinstance(blk[0], ast.If):
                    continue  # keep elif chains
                i = 0
                if fld == "body" and isinstance(node, (ast.FunctionDef, ast.AsyncFunctionDef)) and isinstance(blk[0], ast.Expr) and isinstance(blk[0].value, ast.Constant) and isinstance(blk[0].value.value, str):
                    i = 1
                while i < len(blk) and isinstance(blk[i], (ast.Global, ast.Nonlocal)):
                    i += 1
                blk.insert(i, ast.Pass())
        return node


def t_noop(tree):
    return InsertNoop().visit(tree)


def _pure(e):
    return all(isinstance(n, (ast.Name, ast.Attribute, ast.Constant, ast.List, ast.Tuple, ast.Load, ast.Store, ast.expr_context, ast.Starred, ast.UnaryOp, ast.Not, ast.USub)) for n in ast.walk(e))


class KwReorder(ast.NodeTransformer):
    def visit_Call(self, node):
        self.generic_visit(node)
        if len(node.keywords) >= 2 and all(k.arg is not None and _pure(k.value) for k in node.keywords):
            node.keywords = list(reversed(node.keywords))
        return node


def t_kw_reorder(tree):
    return KwReorder().visit(tree)


# ---------------------------------------------------------------------------------------------------------
# T13: conditional expression in return/assignment -> if statement
# ---------------------------------------------------------------------------------------------------------

class IfExpToIf(ast.NodeTransformer):
    def generic_visit(self, node):
        super().generic_visit(node)
        for fld in ("body", "orelse", "finalbody"):
            blk = getattr(node, fld, None)
            if isinstance(blk, list) and blk and isinstance(blk[0], ast.stmt):
                out = []
                for st in blk:
                    if isinstance(st, ast.Return) and isinstance(st.value, ast.IfExp):
                        e = st.value
                        out.append(ast.If(test=e.test, body=[ast.Return(value=e.body)], orelse=[]))
                        out.append(ast.Return(value=e.orelse))
                    elif isinstance(st, ast.Assign) and isinstance(st.value, ast.IfExp) and len(st.targets) == 1 and isinstance(st.targets[0], ast.Name):
                        e = st.value
                        out.append(ast.If(test=e.test, body=[ast.Assign(targets=[copy.deepcopy(st.targets[0])], value=e.body, lineno=0)],
                                          orelse=[ast.Assign(targets=[copy.deepcopy(st.targets[0])], value=e.orelse, lineno=0)]))
                    else:
                        out.append(st)
                setattr(node, fld, out)
        return node


def t_ifexp(tree):
    return IfExpToIf().visit(tree)


def t_reformat(tree):
    return tree


TRANSFORMS = {
    "reformat": t_reformat,
    "rename": t_rename,
    "invert_if": t_invert_if,
    "extract": t_extract,
    "swap_eq": t_swap_eq,
    "tuple_set": t_tuple_set,
    "noop": t_noop,
    "kw_reorder": t_kw_reorder,
    "ifexp": t_ifexp,
}


def transform(name, text):
    tree = ast.parse(text)
    tree = TRANSFORMS[name](tree)
    ast.fix_missing_locations(tree)
    out = ast.unparse(tree) + "\n"
    ast.parse(out)
    return out


# ---------------------------------------------------------------------------------------------------------

def one(job):
    tname, rel, tests = job
    tmp = tempfile.mkdtemp(prefix=f"hyneut-{tname}-", dir="/tmp")
    try:
        subprocess.run(["rsync", "-a", "--exclude", ".git", "--exclude", "__pycache__", "/repo/", tmp + "/"], check=True)
        p = os.path.join(tmp, rel)
        old = open(p).read()
        # transformed in a subprocess: the ast module shares context/operator singletons between trees, which makes
        # concurrent in-process transformations interfere
        r0 = subprocess.run(["/venv/bin/python", os.path.abspath(__file__), "emit", tname, rel], capture_output=True, text=True)
        new = r0.stdout
        if r0.returncode != 0 or not new.strip():
            return tname, rel, "TRANSFORM-ERROR", r0.stderr[-200:], None
        changed = ast.dump(ast.parse(old)) != ast.dump(ast.parse(new))
        open(p, "w").write(new)
        tres = None
        if tests:
            r = subprocess.run(["/venv/bin/python", "-m", "pytest", "-q", "-p", "no:cacheprovider", "--timeout=900"],
                               cwd=tmp, capture_output=True, text=True, env={**os.environ, "PYTHONPATH": tmp, "PYTHONDONTWRITEBYTECODE": "1"})
            tail = [l for l in r.stdout.splitlines() if " passed" in l or " failed" in l or "error" in l.lower()][-1:]
            tres = tail[0] if tail else r.stdout[-200:]
        out = subprocess.run(["/venv/bin/python", "-m", "hyverif", PROPS, "--no-write", "--repo", tmp], capture_output=True, text=True,
                             cwd="/verif", env={**os.environ, "VERIF_TIER": ""}).stdout
    finally:
        shutil.rmtree(tmp, ignore_errors=True)
    viol = sorted({l.split("property=")[1].split()[0] for l in out.splitlines() if l.startswith("VIOLATION")})
    errs = sorted({l.split("property=")[1].split()[0] for l in out.splitlines() if l.startswith("ANALYSIS-ERROR")})
    lines = [l.replace(tmp + "/", "")[:260] for l in out.splitlines() if ": [" in l or l.startswith("ANALYSIS-ERROR")]
    return tname, rel, ("unchanged" if not changed else "ok"), dict(viol=viol, err=errs, lines=lines), tres


def main():
    args = sys.argv[1:]
    if not args or args[0] == "list":
        print("\n".join(TRANSFORMS)); return
    if args[0] == "emit":
        sys.stdout.write(transform(args[1], open(os.path.join("/repo", args[2])).read())); return
    args = args[1:]
    global PROPS
    jobs, tests, ts = 16, False, list(TRANSFORMS)
    while args and args[0].startswith("-"):
        if args[0] == "-j":
            jobs = int(args[1]); args = args[2:]
        elif args[0] == "--tests":
            tests = True; args = args[1:]
        elif args[0] == "--props":
            PROPS = args[1]; args = args[2:]
        elif args[0] == "-t":
            ts = args[1].split(","); args = args[2:]
        else:
            raise SystemExit("bad option")
    files = args or FILES
    work = [(t, f, tests) for t in ts for f in files]
    with cf.ThreadPoolExecutor(jobs) as ex:
        rows = list(ex.map(one, work))
    fa = 0
    detail = {}
    for t, f, st, info, tres in rows:
        if st in ("TRANSFORM-ERROR",):
            print(f"{t:11s} {f:28s} {st} {info}"); continue
        v, e = info["viol"], info["err"]
        if v or e:
            fa += 1
        print(f"{t:11s} {f:28s} {st:9s} VIOL={','.join(v) or '-':24s} ERR={','.join(e) or '-':20s}" + (f" tests: {tres}" if tres else ""))
        detail[f"{t}|{f}"] = info
    print(f"{fa}/{len(rows)} variants raised an alarm")
    json.dump(detail, open("/tmp/neutral_detail.json", "w"), indent=1)


if __name__ == "__main__":
    main()
