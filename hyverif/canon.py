"""Canonical form of Python ASTs.

The rules of this framework are structural.  To keep them from firing on edits that leave behaviour
unchanged, every module is brought into a canonical form before any rule looks at it, so that the
common behaviour-preserving rewrites all map to the same tree:

  E1  `K == x` / `K != x` (constant on the left)            ->  `x == K` / `x != K`
  E2  `x in [..]` / `{..}` / `(..)` of constants            ->  tuple, elements sorted
  E3  `not (a == b)`, `not (a and b)`, `not not a` ...        ->  negation normal form
  E4  keyword arguments of a call                            ->  sorted by name
  E5  `b if not c else a`                                    ->  `a if c else b`
  S1  `pass` next to other statements                        ->  removed
  S2  `return a if c else b`, `x = a if c else b`            ->  if-statements
  S3  `if not c: A else: B`                                  ->  `if c: B else: A`   (also `!=`, `is not`, `not in`)
  S4  `if c: ...; return/raise/continue/break  else: B`      ->  `if c: ...`  followed by B   (guard-clause form;
      when only the else-branch terminates the test is negated first)
  S5  `v = E` directly followed by the only use of `v`       ->  E substituted for `v`
  S6  `x = x + e`                                            ->  `x += e`

New nodes carry the position of the node they replace, so reports still name real source lines.
The transformation is purely syntactic; nothing is evaluated.  Each pass can be switched off with
HYVERIF_CANON_OFF=S5,E4 (used only to debug the framework).
"""
from __future__ import annotations

import ast
import copy
import os

OFF = set(filter(None, os.environ.get("HYVERIF_CANON_OFF", "").split(",")))

NEG_OP = {ast.Eq: ast.NotEq, ast.NotEq: ast.Eq, ast.Is: ast.IsNot, ast.IsNot: ast.Is, ast.In: ast.NotIn, ast.NotIn: ast.In,
          ast.Lt: ast.GtE, ast.GtE: ast.Lt, ast.Gt: ast.LtE, ast.LtE: ast.Gt}
NEGATIVE_OPS = (ast.NotEq, ast.IsNot, ast.NotIn)
TERMINATORS = (ast.Return, ast.Raise, ast.Continue, ast.Break)
FUNC = (ast.FunctionDef, ast.AsyncFunctionDef)


def pysrc_dotted(e):
    parts = []
    while isinstance(e, ast.Attribute):
        parts.append(e.attr)
        e = e.value
    if isinstance(e, ast.Name):
        parts.append(e.id)
        return ".".join(reversed(parts))
    return None


def on(p):
    return p not in OFF


def loc(new, old):
    return ast.copy_location(new, old)


def neg(e):
    """Negation of a test, in negation normal form."""
    if isinstance(e, ast.UnaryOp) and isinstance(e.op, ast.Not):
        return e.operand
    if isinstance(e, ast.Compare) and len(e.ops) == 1 and type(e.ops[0]) in NEG_OP and not isinstance(e.ops[0], (ast.Lt, ast.Gt, ast.LtE, ast.GtE)):
        return loc(ast.Compare(left=e.left, ops=[NEG_OP[type(e.ops[0])]()], comparators=e.comparators), e)
    if isinstance(e, ast.BoolOp):
        op = ast.Or() if isinstance(e.op, ast.And) else ast.And()
        return loc(ast.BoolOp(op=op, values=[neg(v) for v in e.values]), e)
    return loc(ast.UnaryOp(op=ast.Not(), operand=e), e)


def is_negative(e):
    if isinstance(e, ast.UnaryOp) and isinstance(e.op, ast.Not):
        return True
    if isinstance(e, ast.Compare) and len(e.ops) == 1 and isinstance(e.ops[0], NEGATIVE_OPS):
        return True
    if isinstance(e, ast.BoolOp) and all(is_negative(v) for v in e.values):
        return True
    return False


def _neg_score(e):
    k = 0
    for n in ast.walk(e):
        if isinstance(n, ast.UnaryOp) and isinstance(n.op, ast.Not):
            k += 1
        elif isinstance(n, ast.Compare):
            k += sum(1 for o in n.ops if isinstance(o, NEGATIVE_OPS))
    return k


def prefer_negated(test):
    """Is the negation of `test` the canonical orientation of a two-armed conditional?  The choice depends only on the
    pair {test, not test}: fewer negations first, then the shorter / smaller text."""
    other = neg(test)
    a, b = _neg_score(test), _neg_score(other)
    if a != b:
        return b < a
    ta, tb = ast.unparse(test), ast.unparse(other)
    return (len(tb), tb) < (len(ta), ta)


def _const_key(c):
    return (type(c.value).__name__, repr(c.value))


def _strip_keys(e):
    if isinstance(e, ast.Call) and isinstance(e.func, ast.Attribute) and e.func.attr == "keys" and not e.args and not e.keywords:
        return e.func.value
    return e


class Expr(ast.NodeTransformer):
    """Expression-level canonicalisation (bottom-up)."""

    def visit_UnaryOp(self, node):
        self.generic_visit(node)
        if on("E3") and isinstance(node.op, ast.Not):
            o = node.operand
            if isinstance(o, ast.UnaryOp) and isinstance(o.op, ast.Not):
                # `not not x` is bool(x); as a test it is x.  Only tests are rewritten (see Stmt), keep here.
                return node
            if isinstance(o, ast.Compare) and len(o.ops) == 1 and not isinstance(o.ops[0], (ast.Lt, ast.Gt, ast.LtE, ast.GtE)):
                return neg(o)
            if isinstance(o, ast.BoolOp):
                return neg(o)
        return node

    def visit_For(self, node):
        self.generic_visit(node)
        if on("E7"):
            node.iter = _strip_keys(node.iter)
        return node

    def visit_comprehension(self, node):
        self.generic_visit(node)
        if on("E7"):
            node.iter = _strip_keys(node.iter)
        return node

    def visit_Compare(self, node):
        self.generic_visit(node)
        if on("E7") and len(node.ops) == 1 and isinstance(node.ops[0], (ast.In, ast.NotIn)):
            node.comparators = [_strip_keys(node.comparators[0])]
        if len(node.ops) == 1:
            op, r = node.ops[0], node.comparators[0]
            if on("E1") and isinstance(op, (ast.Eq, ast.NotEq)) and isinstance(node.left, ast.Constant) and not isinstance(r, ast.Constant):
                node.left, node.comparators = r, [node.left]
            if on("E2") and isinstance(op, (ast.In, ast.NotIn)) and isinstance(r, (ast.List, ast.Set, ast.Tuple)) and r.elts \
                    and all(isinstance(e, ast.Constant) for e in r.elts):
                node.comparators = [loc(ast.Tuple(elts=sorted(r.elts, key=_const_key), ctx=ast.Load()), r)]
        return node

    def visit_Call(self, node):
        self.generic_visit(node)
        # E7: `d.keys()` where only the iteration / membership of the keys matters is `d`
        if on("E7"):
            fname = node.func.attr if isinstance(node.func, ast.Attribute) else (node.func.id if isinstance(node.func, ast.Name) else None)
            if fname in ("update", "difference_update", "intersection_update", "symmetric_difference_update", "union", "difference", "intersection", "issubset", "issuperset", "isdisjoint",
                         "set", "frozenset", "list", "tuple", "sorted", "len", "iter", "any", "all", "extend"):
                node.args = [_strip_keys(a) for a in node.args]
        if on("E4") and len(node.keywords) > 1:
            node.keywords = sorted(node.keywords, key=lambda k: (k.arg is None, k.arg or ""))
        if on("E6") and isinstance(node.func, ast.Name) and node.func.id == "list" and len(node.args) == 1 and not node.keywords and isinstance(node.args[0], ast.Call):
            inner = node.args[0]
            # list(map(f, xs)) == [f(v) for v in xs]   (f a plain name / attribute: evaluated once either way, and pure)
            if isinstance(inner.func, ast.Name) and inner.func.id == "map" and len(inner.args) == 2 and not inner.keywords and isinstance(inner.args[0], (ast.Name, ast.Attribute)):
                v = loc(ast.Name(id="_m", ctx=ast.Store()), node)
                call = loc(ast.Call(func=inner.args[0], args=[loc(ast.Name(id="_m", ctx=ast.Load()), node)], keywords=[]), node)
                return loc(ast.ListComp(elt=call, generators=[ast.comprehension(target=v, iter=inner.args[1], ifs=[], is_async=0)]), node)
            # list(sorted(xs)) == sorted(xs)
            if isinstance(inner.func, ast.Name) and inner.func.id == "sorted":
                return inner
        return node

    def visit_IfExp(self, node):
        self.generic_visit(node)
        if on("E5") and prefer_negated(node.test):
            node.test, node.body, node.orelse = neg(node.test), node.orelse, node.body
        return node


_SIMPLE = (ast.Name, ast.Constant, ast.Attribute, ast.expr_context, ast.operator, ast.unaryop, ast.cmpop, ast.boolop, ast.keyword, ast.Starred,
           ast.Tuple, ast.List, ast.Subscript, ast.Slice, ast.UnaryOp, ast.BinOp, ast.Compare, ast.JoinedStr, ast.FormattedValue)


def _eval_order(node):
    """Sub-expressions of `node` in (approximate) evaluation order, parents after their operands."""
    if isinstance(node, ast.Assign):
        yield from _eval_order(node.value)
        for t in node.targets:
            yield from _eval_order(t)
        return
    if isinstance(node, ast.AugAssign):
        yield from _eval_order(node.target)
        yield from _eval_order(node.value)
        return
    for c in ast.iter_child_nodes(node):
        yield from _eval_order(c)
    yield node


def _evaluated_first(holder, use):
    """Is `use` reached before anything that could have an effect (a call, a comprehension, an await...)?"""
    for n in _eval_order(holder):
        if n is use:
            return True
        if not isinstance(n, _SIMPLE):
            return False
    return False


def _terminates(block):
    return bool(block) and isinstance(block[-1], TERMINATORS)


def _names_in(node):
    for n in ast.walk(node):
        if isinstance(n, ast.Name):
            yield n


class Canon:
    def __init__(self):
        self.func_stack = []
        self.counts = {}

    # -- occurrence counts (per outermost function, closures included) -----------------------------------
    def _count(self, func):
        c = {}
        for n in ast.walk(func):
            if isinstance(n, ast.Name):
                c[n.id] = c.get(n.id, 0) + 1
            elif isinstance(n, (ast.Global, ast.Nonlocal)):
                for x in n.names:
                    c[x] = c.get(x, 0) + 10
            elif isinstance(n, ast.ExceptHandler) and n.name:
                c[n.name] = c.get(n.name, 0) + 10
            elif isinstance(n, ast.arg):
                c[n.arg] = c.get(n.arg, 0) + 10
        return c

    # -- driver -------------------------------------------------------------------------------------------
    def module(self, tree):
        tree = Expr().visit(tree)
        tree.body = self.block(tree.body, None)
        ast.fix_missing_locations(tree)
        return tree

    def block(self, stmts, outer):
        # 1. recurse into compound statements first
        out = []
        for st in stmts:
            out.extend(self.stmt(st, outer))
        # 2. block-level rewrites, repeated until stable
        changed = True
        while changed:
            changed = False
            new = []
            i = 0
            while i < len(out):
                st = out[i]
                # S1
                if on("S1") and isinstance(st, ast.Pass) and len(out) > 1:
                    changed = True
                    i += 1
                    continue
                # S3: orientation of two-armed conditionals (after S5 may have changed the test)
                if on("S3") and isinstance(st, ast.If) and st.orelse and prefer_negated(st.test):
                    st.test, st.body, st.orelse = neg(st.test), st.orelse, st.body
                    changed = True
                # S8: `if a: (if b: X)` with no else on either -> `if a and b: X`
                if on("S8") and isinstance(st, ast.If) and not st.orelse and len(st.body) == 1 and isinstance(st.body[0], ast.If) and not st.body[0].orelse:
                    inner = st.body[0]
                    vals = (st.test.values if isinstance(st.test, ast.BoolOp) and isinstance(st.test.op, ast.And) else [st.test]) + \
                           (inner.test.values if isinstance(inner.test, ast.BoolOp) and isinstance(inner.test.op, ast.And) else [inner.test])
                    st.test = loc(ast.BoolOp(op=ast.And(), values=vals), st.test)
                    st.body = inner.body
                    changed = True
                # S4: guard-clause form
                if on("S4") and isinstance(st, ast.If) and st.orelse:
                    if not _terminates(st.body) and _terminates(st.orelse):
                        st.test, st.body, st.orelse = neg(st.test), st.orelse, st.body
                    if _terminates(st.body):
                        tail = st.orelse
                        st.orelse = []
                        new.append(st)
                        new.extend(tail)
                        changed = True
                        i += 1
                        continue
                # S5: single-use temporary
                if on("S5") and outer is not None and i + 1 < len(out) and self._inline(st, out[i + 1], outer):
                    changed = True
                    i += 1
                    continue
                new.append(st)
                i += 1
            out = new
        return out or [ast.Pass()]

    def _inline(self, st, nxt, outer):
        if not (isinstance(st, ast.Assign) and len(st.targets) == 1 and isinstance(st.targets[0], ast.Name)):
            return False
        v = st.targets[0].id
        if self.counts.get(id(outer), {}).get(v, 0) != 2:
            return False
        if any(isinstance(n, (ast.Yield, ast.YieldFrom, ast.Await, ast.NamedExpr)) for n in ast.walk(st.value)):
            return False
        # where may the single use be?  Only in the part of the next statement that is evaluated exactly once, first.
        if isinstance(nxt, (ast.Return, ast.Expr, ast.Assign, ast.AugAssign, ast.AnnAssign, ast.Raise, ast.Assert, ast.Delete)):
            holder = nxt
        elif isinstance(nxt, ast.If):
            holder = nxt.test
        elif isinstance(nxt, (ast.For, ast.AsyncFor)):
            holder = nxt.iter
        elif isinstance(nxt, (ast.With, ast.AsyncWith)):
            holder = nxt.items[0].context_expr
        else:
            return False
        uses = [n for n in _names_in(holder) if n.id == v and isinstance(n.ctx, ast.Load)]
        if len(uses) != 1:
            return False
        # evaluation order: nothing with an effect may be evaluated between the assignment and the use
        if not _evaluated_first(holder, uses[0]):
            return False
        # not inside a lambda/comprehension of the holder (would change how often it is evaluated)
        target = uses[0]

        class Sub(ast.NodeTransformer):
            done = False

            def visit_Lambda(self, node):
                return node

            def _comp(self, node):
                # only the first iterable of a comprehension is evaluated once, in the enclosing scope
                node.generators[0].iter = self.visit(node.generators[0].iter)
                return node

            visit_ListComp = visit_SetComp = visit_DictComp = visit_GeneratorExp = _comp

            def visit_Name(self, node):
                if node is target:
                    Sub.done = True
                    return st.value
                return node

        Sub.done = False
        if holder is nxt:
            Sub().visit(nxt)
        else:
            new = Sub().visit(holder)
            if isinstance(nxt, ast.If):
                nxt.test = new
            elif isinstance(nxt, (ast.For, ast.AsyncFor)):
                nxt.iter = new
            else:
                nxt.items[0].context_expr = new
        if not Sub.done:
            return False
        self.counts[id(outer)][v] = 0
        return True

    def stmt(self, st, outer):
        """Canonicalise one statement; returns a list of statements."""
        if isinstance(st, FUNC + (ast.ClassDef,)):
            is_outer = outer is None and isinstance(st, FUNC)
            inner_outer = outer
            if isinstance(st, FUNC) and outer is None:
                inner_outer = st
                self.counts[id(st)] = self._count(st)
            elif isinstance(st, ast.ClassDef):
                inner_outer = None if outer is None else outer
            st.body = self.block(st.body, inner_outer)
            return [st]
        # S2: conditional expressions at statement level
        if on("S2") and isinstance(st, ast.Return) and isinstance(st.value, ast.IfExp):
            e = st.value
            a = loc(ast.Return(value=e.body), st)
            b = loc(ast.Return(value=e.orelse), st)
            return self.stmt(loc(ast.If(test=e.test, body=[a], orelse=[b]), st), outer)
        if on("S2") and isinstance(st, ast.Assign) and isinstance(st.value, ast.IfExp) and len(st.targets) == 1:
            e = st.value
            a = loc(ast.Assign(targets=[copy.deepcopy(st.targets[0])], value=e.body), st)
            b = loc(ast.Assign(targets=[copy.deepcopy(st.targets[0])], value=e.orelse), st)
            if outer is not None and isinstance(st.targets[0], ast.Name):
                c = self.counts.get(id(outer))
                if c is not None:
                    c[st.targets[0].id] = c.get(st.targets[0].id, 0) + 1
            return self.stmt(loc(ast.If(test=e.test, body=[a], orelse=[b]), st), outer)
        # S10: `a, *b = xs` (xs a plain name) -> `a = xs[0]`; `b = xs[1:]`
        if on("S10") and isinstance(st, ast.Assign) and len(st.targets) == 1 and isinstance(st.targets[0], ast.Tuple) and len(st.targets[0].elts) == 2 \
                and isinstance(st.targets[0].elts[0], ast.Name) and isinstance(st.targets[0].elts[1], ast.Starred) and isinstance(st.targets[0].elts[1].value, ast.Name) \
                and isinstance(st.value, ast.Name):
            a, b = st.targets[0].elts[0], st.targets[0].elts[1].value
            first = loc(ast.Assign(targets=[a], value=loc(ast.Subscript(value=loc(ast.Name(id=st.value.id, ctx=ast.Load()), st), slice=loc(ast.Constant(value=0), st), ctx=ast.Load()), st)), st)
            rest = loc(ast.Assign(targets=[b], value=loc(ast.Subscript(value=loc(ast.Name(id=st.value.id, ctx=ast.Load()), st),
                                                                       slice=loc(ast.Slice(lower=loc(ast.Constant(value=1), st), upper=None, step=None), st), ctx=ast.Load()), st)), st)
            if outer is not None:
                c = self.counts.get(id(outer))
                if c is not None:
                    c[st.value.id] = c.get(st.value.id, 0) + 1
            return self.stmt(first, outer) + self.stmt(rest, outer)
        # S7: `_, x = pair()` -> `x = pair()[1]` for the library calls that return a pair
        if on("S7") and isinstance(st, ast.Assign) and len(st.targets) == 1 and isinstance(st.targets[0], ast.Tuple) and len(st.targets[0].elts) == 2 \
                and isinstance(st.value, ast.Call) and (pysrc_dotted(st.value.func) or "") in ("os.path.splitext", "os.path.split", "divmod", "render_quoted_form"):
            a, b = st.targets[0].elts
            keep = None
            if isinstance(a, ast.Name) and a.id == "_" and isinstance(b, ast.Name):
                keep = (b, 1)
            elif isinstance(b, ast.Name) and b.id == "_" and isinstance(a, ast.Name):
                keep = (a, 0)
            if keep is not None:
                sub = loc(ast.Subscript(value=st.value, slice=loc(ast.Constant(value=keep[1]), st), ctx=ast.Load()), st)
                return self.stmt(loc(ast.Assign(targets=[keep[0]], value=sub), st), outer)
        if on("S6") and isinstance(st, ast.Assign) and len(st.targets) == 1 and isinstance(st.targets[0], ast.Name) \
                and isinstance(st.value, ast.BinOp) and isinstance(st.value.left, ast.Name) and st.value.left.id == st.targets[0].id \
                and isinstance(st.value.op, ast.Add):
            if outer is not None:
                c = self.counts.get(id(outer))
                if c is not None:
                    c[st.targets[0].id] = c.get(st.targets[0].id, 0) - 1
            return [loc(ast.AugAssign(target=st.targets[0], op=st.value.op, value=st.value.right), st)]
        if isinstance(st, ast.If):
            if on("E3") and isinstance(st.test, ast.UnaryOp) and isinstance(st.test.op, ast.Not) and isinstance(st.test.operand, ast.UnaryOp) \
                    and isinstance(st.test.operand.op, ast.Not):
                st.test = st.test.operand.operand
            st.body = self.block(st.body, outer)
            st.orelse = self.block(st.orelse, outer) if st.orelse else []
            return [st]
        for fld in ("body", "orelse", "finalbody"):
            blk = getattr(st, fld, None)
            if isinstance(blk, list) and blk and isinstance(blk[0], ast.stmt):
                setattr(st, fld, self.block(blk, outer))
        if isinstance(st, (ast.Try,) + ((ast.TryStar,) if hasattr(ast, "TryStar") else ())):
            for h in st.handlers:
                h.body = self.block(h.body, outer)
        if isinstance(st, ast.Match):
            for c in st.cases:
                c.body = self.block(c.body, outer)
        return [st]


def canonical(tree, rel=None):
    """Return the canonical form of a module tree (the argument is consumed)."""
    if "ALL" in OFF:
        return tree
    tree = propagate_aliases(tree)
    if rel is not None:
        tree = inline_constants(tree, rel)
        tree = inline_helpers(tree, rel)
        ast.fix_missing_locations(tree)
    return Canon().module(tree)


def canonical_snippet(text):
    """Canonical form of a source fragment given as text (expression or statements), for comparing with canonical trees."""
    tree = ast.parse(text)
    wrapper = ast.Module(body=[ast.FunctionDef(name="_snippet", args=ast.arguments(posonlyargs=[], args=[], kwonlyargs=[], kw_defaults=[], defaults=[]),
                                               body=tree.body, decorator_list=[], type_params=[])], type_ignores=[])
    ast.fix_missing_locations(wrapper)
    c = Canon()
    wrapper = Expr().visit(wrapper)
    f = wrapper.body[0]
    # single-use temporaries are inlined inside the fragment as they are in the analysed code, unless the pattern opts
    # out (first line `#keep`): needed when the real code uses the name again outside the fragment
    c.counts[id(f)] = {} if text.lstrip().startswith("#keep") else c._count(f)
    f.body = c.block(f.body, f)
    return f.body


# ---------------------------------------------------------------------------------------------------------------
# H1: inlining of helper functions that today's (reviewed) tree does not have
# ---------------------------------------------------------------------------------------------------------------
#
# "Extract a helper" is the most common clean-up.  The analyses are intraprocedural with summaries for the functions of
# the reviewed tree (hyverif/known_functions.json); a helper that is not in that list and is simple - straight-line exit:
# at most one `return`, as its last statement; no recursion, generators, decorators or nested definitions - is expanded
# at its call sites, so that the caller again reads as it did before the extraction.  Anything else is left alone.

import json as _json

_KNOWN = None


def known_functions(rel):
    global _KNOWN
    if _KNOWN is None:
        try:
            with open(os.path.join(os.path.dirname(os.path.abspath(__file__)), "known_functions.json")) as f:
                _KNOWN = _json.load(f)
        except OSError:
            _KNOWN = {}
    return set(_KNOWN.get(rel, ()))


def _simple_helper(f):
    if not isinstance(f, ast.FunctionDef) or f.decorator_list:
        return False
    a = f.args
    if a.vararg or a.kwarg or a.kwonlyargs or a.posonlyargs:
        return False
    body = [s for s in f.body if not (isinstance(s, ast.Expr) and isinstance(s.value, ast.Constant) and isinstance(s.value.value, str))]
    if not body:
        return False
    rets = [n for n in ast.walk(f) if isinstance(n, ast.Return)]
    if len(rets) > 1 or (rets and rets[0] is not body[-1]):
        return False
    for n in ast.walk(f):
        if n is not f and isinstance(n, (ast.FunctionDef, ast.AsyncFunctionDef, ast.ClassDef, ast.Lambda, ast.Yield, ast.YieldFrom, ast.Await, ast.Global)):
            return False
        if isinstance(n, ast.Call) and isinstance(n.func, ast.Name) and n.func.id == f.name:
            return False
        if isinstance(n, ast.Call) and isinstance(n.func, ast.Attribute) and n.func.attr == f.name:
            return False
    return True


class _Inliner:
    def __init__(self, rel):
        self.known = known_functions(rel)
        self.n = 0
        self.helpers = {}      # simple name -> (FunctionDef, is_method)

    def collect(self, tree):
        def visit(node, qual, in_class):
            for ch in ast.iter_child_nodes(node):
                if isinstance(ch, (ast.FunctionDef, ast.AsyncFunctionDef)):
                    q = qual + ch.name
                    if q not in self.known and _simple_helper(ch):
                        self.helpers[ch.name] = (ch, in_class)
                    visit(ch, q + ".", False)
                elif isinstance(ch, ast.ClassDef):
                    visit(ch, qual + ch.name + ".", True)
                else:
                    visit(ch, qual, in_class)
        visit(tree, "", False)
        return bool(self.helpers)

    def _call_of(self, e):
        """(helper def, call) if e is a call of a known simple helper with plain positional/keyword arguments."""
        if not isinstance(e, ast.Call) or any(isinstance(a, ast.Starred) for a in e.args) or any(k.arg is None for k in e.keywords):
            return None
        name, is_self = None, False
        if isinstance(e.func, ast.Name):
            name = e.func.id
        elif isinstance(e.func, ast.Attribute) and isinstance(e.func.value, ast.Name) and e.func.value.id in ("self", "cls"):
            name, is_self = e.func.attr, True
        if name not in self.helpers:
            return None
        f, is_method = self.helpers[name]
        if is_method != is_self:
            return None
        return f

    def expand(self, f, call, is_method):
        """-> (statements, value expression or None) for one call of helper f."""
        self.n += 1
        suf = f"__h{self.n}"
        params = [a.arg for a in f.args.args]
        args = list(call.args)
        if is_method:
            params = params[1:]
        bound = {}
        for p, a in zip(params, args):
            bound[p] = a
        for k in call.keywords:
            bound[k.arg] = k.value
        defaults = dict(zip([a.arg for a in f.args.args][len(f.args.args) - len(f.args.defaults):], f.args.defaults))
        for p in params:
            if p not in bound:
                if p not in defaults:
                    return None
                bound[p] = copy.deepcopy(defaults[p])
        body = [copy.deepcopy(s) for s in f.body if not (isinstance(s, ast.Expr) and isinstance(s.value, ast.Constant) and isinstance(s.value.value, str))]
        nonlocal_names = set()
        for s in body:
            for n in ast.walk(s):
                if isinstance(n, ast.Nonlocal):
                    nonlocal_names |= set(n.names)
        local = set(params)
        for s in body:
            for n in ast.walk(s):
                if isinstance(n, ast.Name) and isinstance(n.ctx, (ast.Store, ast.Del)):
                    local.add(n.id)
                elif isinstance(n, ast.ExceptHandler) and n.name:
                    local.add(n.name)
        local -= nonlocal_names
        ren = {x: x + suf for x in local}
        # a parameter that the helper never rebinds and whose argument is a plain name or a constant is replaced by the
        # argument itself (no binding statement): the caller then reads exactly as before the extraction
        stored = set()
        for s in body:
            for n in ast.walk(s):
                if isinstance(n, ast.Name) and isinstance(n.ctx, (ast.Store, ast.Del)):
                    stored.add(n.id)
        direct = {}
        for p_ in params:
            a_ = bound[p_]
            if p_ in stored:
                continue
            if isinstance(a_, ast.Name) and a_.id not in nonlocal_names:
                direct[p_] = a_
            elif isinstance(a_, ast.Constant) and not isinstance(a_.value, (bytes, str)) or (isinstance(a_, ast.Constant) and isinstance(a_.value, str) and len(a_.value) < 40):
                direct[p_] = a_

        class R(ast.NodeTransformer):
            def visit_Name(self, node):
                if node.id in direct and isinstance(node.ctx, ast.Load):
                    return loc(copy.deepcopy(direct[node.id]), node)
                if node.id in ren:
                    node.id = ren[node.id]
                return node

            def visit_Compare(self, node):
                self.generic_visit(node)
                if len(node.ops) == 1 and isinstance(node.ops[0], (ast.Is, ast.IsNot)) and isinstance(node.left, ast.Constant) and isinstance(node.comparators[0], ast.Constant) \
                        and (node.left.value is None or node.comparators[0].value is None):
                    same = node.left.value is node.comparators[0].value
                    return loc(ast.Constant(value=same if isinstance(node.ops[0], ast.Is) else not same), node)
                return node

            def visit_If(self, node):
                self.generic_visit(node)
                if isinstance(node.test, ast.Constant) and isinstance(node.test.value, bool):
                    return (node.body if node.test.value else node.orelse) or None
                return node

            def visit_IfExp(self, node):
                self.generic_visit(node)
                if isinstance(node.test, ast.Constant) and isinstance(node.test.value, bool):
                    return node.body if node.test.value else node.orelse
                return node

            def visit_ExceptHandler(self, node):
                self.generic_visit(node)
                if node.name in ren:
                    node.name = ren[node.name]
                return node

            def visit_Nonlocal(self, node):
                return None

        out = []
        for p in params:
            if p not in direct:
                out.append(loc(ast.Assign(targets=[loc(ast.Name(id=ren[p], ctx=ast.Store()), call)], value=bound[p]), call))
        value = None
        for s in body:
            s = R().visit(s)
            if s is None:
                continue
            for s1 in (s if isinstance(s, list) else [s]):
                if isinstance(s1, ast.Return):
                    value = s1.value
                else:
                    out.append(s1)
        return out, value

    def block(self, stmts):
        out = []
        for st in stmts:
            for fld in ("body", "orelse", "finalbody"):
                blk = getattr(st, fld, None)
                if isinstance(blk, list) and blk and isinstance(blk[0], ast.stmt):
                    setattr(st, fld, self.block(blk))
            for h in getattr(st, "handlers", []) or []:
                h.body = self.block(h.body)
            for c in getattr(st, "cases", []) or []:
                c.body = self.block(c.body)
            out.extend(self.stmt(st))
        return out

    def stmt(self, st):
        # the expression of the statement that is evaluated once, first
        holder = None
        if isinstance(st, (ast.Assign, ast.AugAssign, ast.Return, ast.Expr, ast.AnnAssign)) and getattr(st, "value", None) is not None:
            holder = "value"
        elif isinstance(st, ast.If):
            holder = "test"
        elif isinstance(st, (ast.For, ast.AsyncFor)):
            holder = "iter"
        elif isinstance(st, ast.Raise) and st.exc is not None:
            holder = "exc"
        if holder is None:
            return [st]
        pre = []
        for _ in range(8):  # several helper calls in one statement: expand one at a time while that keeps evaluation order
            e = getattr(st, holder)
            target = None
            order = list(_eval_order(e))
            for i, n in enumerate(order):
                if isinstance(n, ast.Call) and self._call_of(n) is not None:
                    inside = {id(x) for x in ast.walk(n)}
                    if all(isinstance(x, _SIMPLE) or id(x) in inside for x in order[:i]):
                        target = n
                    break
            if target is None:
                break
            f = self._call_of(target)
            exp = self.expand(f, target, self.helpers[f.name][1])
            if exp is None:
                break
            stmts, value = exp
            # arguments of the call may themselves contain helper calls: expand inside the produced statements later
            pre.extend(self.block(stmts))
            if value is None:
                value = loc(ast.Constant(value=None), target)

            class Sub(ast.NodeTransformer):
                def visit_Call(self, node):
                    if node is target:
                        return value
                    return self.generic_visit(node)

            setattr(st, holder, Sub().visit(e))
        if isinstance(st, ast.Expr) and isinstance(st.value, ast.Constant):
            return pre  # a helper called for its effects only
        return pre + [st]

    def expr_inline(self, tree):
        """Helpers whose body is a single `return E` are substituted as expressions wherever they are called with plain
        arguments (names, constants, attributes) - also inside lambdas and comprehensions, where no statement can be
        placed."""
        inl = self

        def plain(a):
            return isinstance(a, (ast.Name, ast.Constant)) or (isinstance(a, ast.Attribute) and plain(a.value))

        class T(ast.NodeTransformer):
            def visit_Call(self, node):
                self.generic_visit(node)
                f = inl._call_of(node)
                if f is None:
                    return node
                body = [s_ for s_ in f.body if not (isinstance(s_, ast.Expr) and isinstance(s_.value, ast.Constant) and isinstance(s_.value.value, str))]
                if len(body) != 1 or not isinstance(body[0], ast.Return) or body[0].value is None:
                    return node
                is_method = inl.helpers[f.name][1]
                params = [a.arg for a in f.args.args]
                bound = {}
                if is_method:
                    bound[params[0]] = node.func.value
                    params = params[1:]
                for p_, a in zip(params, node.args):
                    bound[p_] = a
                for k in node.keywords:
                    bound[k.arg] = k.value
                defaults = dict(zip([a.arg for a in f.args.args][len(f.args.args) - len(f.args.defaults):], f.args.defaults))
                for p_ in params:
                    if p_ not in bound:
                        if p_ not in defaults:
                            return node
                        bound[p_] = defaults[p_]
                if not all(plain(v) for v in bound.values()):
                    return node
                e = copy.deepcopy(body[0].value)
                if any(isinstance(n, (ast.Lambda, ast.NamedExpr, ast.Yield, ast.YieldFrom, ast.Await)) for n in ast.walk(e)):
                    return node

                class Sub(ast.NodeTransformer):
                    def visit_Name(self, n):
                        if n.id in bound and isinstance(n.ctx, ast.Load):
                            return loc(copy.deepcopy(bound[n.id]), node)
                        return n

                e = Sub().visit(e)
                for n in ast.walk(e):
                    ast.copy_location(n, node)
                return e

        for node in ast.walk(tree):
            if isinstance(node, (ast.FunctionDef, ast.AsyncFunctionDef)) and not (node.name in self.helpers and self.helpers[node.name][0] is node):
                node.body = [T().visit(s_) for s_ in node.body]
        return tree

    def run(self, tree):
        if not self.collect(tree):
            return tree
        tree = self.expr_inline(tree)
        for node in ast.walk(tree):
            if isinstance(node, (ast.FunctionDef, ast.AsyncFunctionDef)) and node.name not in self.helpers:
                node.body = self.block(node.body) or [ast.Pass()]
        # nested helper definitions are dropped once expanded (module/class level ones stay: they may have other callers)
        for node in ast.walk(tree):
            if isinstance(node, (ast.FunctionDef, ast.AsyncFunctionDef)):
                kept = [s for s in node.body if not (isinstance(s, ast.FunctionDef) and s.name in self.helpers and self.helpers[s.name][0] is s)]
                node.body = kept or [ast.Pass()]
        return tree


def inline_helpers(tree, rel):
    if "H1" in OFF:
        return tree
    return _Inliner(rel).run(tree)


# ---------------------------------------------------------------------------------------------------------------
# H2: module-level (and class-level) constants that today's (reviewed) tree does not have
# ---------------------------------------------------------------------------------------------------------------
#
# "Hoist a literal / a table to a named constant" is undone: a name bound exactly once at module level (or in a class
# body, used as self.NAME / cls.NAME / Class.NAME) to a literal - constants, names, attributes and displays of those, no
# calls - that is not a global of the reviewed tree (known_globals.json), is never rebound, deleted, declared global or
# mutated through a method call / subscript store, is replaced by its value where it is read.

_KNOWN_G = None
_MUTATORS = {"append", "extend", "insert", "pop", "remove", "clear", "update", "add", "discard", "setdefault", "popitem", "sort", "reverse"}


def known_globals(rel):
    global _KNOWN_G
    if _KNOWN_G is None:
        try:
            with open(os.path.join(os.path.dirname(os.path.abspath(__file__)), "known_globals.json")) as f:
                _KNOWN_G = _json.load(f)
        except OSError:
            _KNOWN_G = {}
    return set(_KNOWN_G.get(rel, ()))


def _literal(e):
    if isinstance(e, (ast.Constant, ast.Name)):
        return True
    if isinstance(e, ast.Attribute):
        return _literal(e.value)
    if isinstance(e, (ast.Tuple, ast.List, ast.Set)):
        return all(_literal(x) for x in e.elts)
    if isinstance(e, ast.Dict):
        return all(k is not None and _literal(k) for k in e.keys) and all(_literal(v) for v in e.values)
    if isinstance(e, ast.UnaryOp):
        return _literal(e.operand)
    if isinstance(e, ast.JoinedStr):
        return False
    return False


def inline_constants(tree, rel):
    if "H2" in OFF:
        return tree
    known = known_globals(rel)
    cands = {}
    for st in tree.body:
        if isinstance(st, ast.Assign) and len(st.targets) == 1 and isinstance(st.targets[0], ast.Name) and st.targets[0].id not in known and _literal(st.value):
            cands[st.targets[0].id] = (st, None)
        elif isinstance(st, ast.ClassDef):
            for s2 in st.body:
                if isinstance(s2, ast.Assign) and len(s2.targets) == 1 and isinstance(s2.targets[0], ast.Name) and f"{st.name}.{s2.targets[0].id}" not in known and _literal(s2.value):
                    cands.setdefault(s2.targets[0].id, (s2, st.name))
    if not cands:
        return tree
    # disqualify: any other binding of the name anywhere, global declarations, mutation
    for n in ast.walk(tree):
        if isinstance(n, ast.Name) and n.id in cands and isinstance(n.ctx, (ast.Store, ast.Del)) and n is not cands[n.id][0].targets[0]:
            cands.pop(n.id)
        elif isinstance(n, (ast.Global, ast.Nonlocal)):
            for x in n.names:
                cands.pop(x, None)
        elif isinstance(n, ast.arg) and n.arg in cands and cands[n.arg][1] is None:
            cands.pop(n.arg)
        elif isinstance(n, ast.Attribute) and n.attr in cands and cands[n.attr][1] is not None and isinstance(n.ctx, (ast.Store, ast.Del)):
            cands.pop(n.attr)
    def ref_name(e):
        if isinstance(e, ast.Name) and e.id in cands and cands[e.id][1] is None:
            return e.id
        if isinstance(e, ast.Attribute) and e.attr in cands and cands[e.attr][1] is not None and isinstance(e.value, ast.Name) and e.value.id in ("self", "cls", cands[e.attr][1]):
            return e.attr
        return None
    for n in ast.walk(tree):
        if isinstance(n, ast.Call) and isinstance(n.func, ast.Attribute) and n.func.attr in _MUTATORS and ref_name(n.func.value):
            cands.pop(ref_name(n.func.value), None)
        elif isinstance(n, ast.Subscript) and isinstance(n.ctx, (ast.Store, ast.Del)) and ref_name(n.value):
            cands.pop(ref_name(n.value), None)
    if not cands:
        return tree

    class Sub(ast.NodeTransformer):
        def visit_Name(self, node):
            if isinstance(node.ctx, ast.Load) and ref_name(node):
                return loc(copy.deepcopy(cands[node.id][0].value), node)
            return node

        def visit_Attribute(self, node):
            if isinstance(node.ctx, ast.Load) and ref_name(node):
                return loc(copy.deepcopy(cands[node.attr][0].value), node)
            return self.generic_visit(node)

    for n in ast.walk(tree):
        if isinstance(n, (ast.FunctionDef, ast.AsyncFunctionDef)):
            # a local of the same name shadows the constant
            shadow = {x.id for x in ast.walk(n) if isinstance(x, ast.Name) and isinstance(x.ctx, ast.Store)} | {a.arg for a in ast.walk(n) if isinstance(a, ast.arg)}
            if shadow & {k for k, v in cands.items() if v[1] is None}:
                continue
            n.body = [Sub().visit(s) for s in n.body]
    return tree


# ---------------------------------------------------------------------------------------------------------------
# S9: local aliases of attribute chains
# ---------------------------------------------------------------------------------------------------------------
#
# `x = self.a.b` at the top level of a function, x bound exactly once, the chain's root never rebound and the chain (or
# a prefix of it) never stored to in the function: x is replaced by the chain.  (Hoisting a repeated attribute read into a
# local, or the reverse, is a clean-up; the rules see the same text either way.)

def propagate_aliases(tree):
    if "S9" in OFF:
        return tree
    for f in [n for n in ast.walk(tree) if isinstance(n, (ast.FunctionDef, ast.AsyncFunctionDef))]:
        stores = {}
        attr_stores = set()
        params = {a.arg for a in ast.walk(f.args) if isinstance(a, ast.arg)}
        decl = set()
        for n in ast.walk(f):
            if isinstance(n, ast.Name) and isinstance(n.ctx, (ast.Store, ast.Del)):
                stores[n.id] = stores.get(n.id, 0) + 1
            elif isinstance(n, ast.Attribute) and isinstance(n.ctx, (ast.Store, ast.Del)):
                d = pysrc_dotted(n)
                if d:
                    attr_stores.add(d)
            elif isinstance(n, (ast.Global, ast.Nonlocal)):
                decl |= set(n.names)
            elif isinstance(n, ast.arg) and n is not None:
                pass
        nested_params = {a.arg for g in ast.walk(f) if g is not f and isinstance(g, (ast.FunctionDef, ast.AsyncFunctionDef, ast.Lambda)) for a in ast.walk(g.args) if isinstance(a, ast.arg)}
        todo = []
        for st in f.body:
            if isinstance(st, ast.Assign) and len(st.targets) == 1 and isinstance(st.targets[0], ast.Name) and isinstance(st.value, ast.Attribute):
                x = st.targets[0].id
                d = pysrc_dotted(st.value)
                if not d or stores.get(x) != 1 or x in params or x in decl or x in nested_params:
                    continue
                root = d.split(".")[0]
                if stores.get(root) or root in decl:
                    continue
                if any(d == a or d.startswith(a + ".") or a.startswith(d + ".") for a in attr_stores):
                    continue
                # the object must not be handed to / called on anywhere in the function: a call could change the attribute
                # between the binding and the use (`start = self.pos` is a snapshot, not an alias)
                touched = False
                for c in ast.walk(f):
                    if isinstance(c, ast.Call):
                        recv = c.func.value if isinstance(c.func, ast.Attribute) else None
                        if recv is not None and (pysrc_dotted(recv) or "").split(".")[0] == root:
                            touched = True
                        for a in list(c.args) + [k.value for k in c.keywords]:
                            if any(isinstance(n, ast.Name) and n.id == root for n in ast.walk(a)) and not (isinstance(a, ast.Name) and a.id == x):
                                touched = True
                if touched:
                    continue
                todo.append((st, x))
        if not todo:
            continue
        for st, x in todo:
            val = st.value

            class Sub(ast.NodeTransformer):
                def visit_Name(self, node):
                    if node.id == x and isinstance(node.ctx, ast.Load):
                        return loc(copy.deepcopy(val), node)
                    return node

            f.body = [Sub().visit(s2) for s2 in f.body if s2 is not st] or [ast.Pass()]
    return tree
