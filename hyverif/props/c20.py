"""C20 — whitespace, comments, discards and reader sugar are transparent."""
CANON = True

import ast
import re

from .. import compq, pm, pyq, readerq
from ..pysrc import dotted, fold, norm, stmt_of
from ..readerq import HR, RD


def regex_class_chars(pattern):
    """The set of characters a regex of the form [..]+ matches, from re's own parser (no matching is run)."""
    import re._parser as sp

    t = sp.parse(pattern)
    if len(t) != 1 or t[0][0] != sp.MAX_REPEAT:
        return None
    lo, hi, sub = t[0][1]
    if len(sub) != 1 or sub[0][0] != sp.IN:
        return None
    chars = set()
    for op, av in sub[0][1]:
        if op == sp.LITERAL:
            chars.add(chr(av))
        else:
            return None
    return chars, lo


def check(ctx, src):
    ctx.rule("WS-CLASS", "the whitespace class is exactly ASCII space, \\t \\n \\r \\f \\v (regex parsed, not run); identifiers end at any of them or at a NON_IDENT character; `;` is a NON_IDENT character")
    ctx.rule("NONE-PROP", "the handlers of `;` and `#_` return None on every path and all three consumers of try_parse_one_form skip None; a comment ends only at a newline")
    ctx.rule("SUGAR", "the heads the reader emits for ' ` ~ ~@ #* #** #^ agree with the inverse table of hy.repr and with the names the compiler implements")
    ctx.rule("CONCAT", "top-level reading is parse_forms_until(\"\"): forms are yielded one by one until the end of input, with whitespace skipped before each")
    rq = readerq.Reader(src)
    hr, rd = rq.hr, rq.rd
    ws = rd.toplevel_assign("_whitespace")
    ctx.need(ws is not None and isinstance(ws, ast.Call) and dotted(ws.func) == "re.compile", "_whitespace regex not found")
    pat = ws.args[0].value
    got = regex_class_chars(pat)
    ctx.check(got is not None and got[0] == set(" \t\n\r\f\v") and got[1] >= 1, "WS-CLASS", f"{RD}|_whitespace|class", f"whitespace regex {pat!r} matches {sorted(got[0]) if got else None}", RD, 0,
              witness="a form feed / NBSP between forms changes how the text reads", detail="[ \\t\\n\\r\\f\\v]+")
    isn = rd.func("isnormalizedspace")
    ctx.check(isn is not None and norm(isn.body[-1]) == "return bool(_whitespace.match(s))", "WS-CLASS", f"{RD}|isnormalizedspace", "isnormalizedspace no longer tests the whitespace regex", RD, 0, detail="bool(_whitespace.match(s))")
    ri = rq.methods["read_ident"][1]
    # what ends an identifier: the loop (or predicate) of read_ident and its helpers tests membership in ends_ident and
    # the reader's own whitespace predicate on the peeked character
    scope = pyq.helpers_of(rd, ri)
    has_ends = any(isinstance(c, ast.Compare) and isinstance(c.ops[0], (ast.In, ast.NotIn)) and dotted(c.comparators[0]) == "self.ends_ident" for fn_ in scope for c in ast.walk(fn_))
    has_ws = any(isinstance(c, ast.Call) and dotted(c.func) == "isnormalizedspace" for fn_ in scope for c in ast.walk(fn_))
    other_ws = [c for fn_ in scope for c in ast.walk(fn_) if isinstance(c, ast.Call) and isinstance(c.func, ast.Attribute) and c.func.attr in ("isspace", "strip", "split")]
    ctx.decide("WS-CLASS", f"{RD}|Reader.read_ident|terminator", None if not (has_ends or has_ws or other_ws) else (has_ends and has_ws and not other_ws),
               f"identifiers end at: ends_ident ({has_ends}), isnormalizedspace ({has_ws}), another whitespace test ({bool(other_ws)}); every whitespace character of the reader's class and every ends_ident character must end them",
               RD, ri.lineno, witness="foo\\x0cbar reads as one symbol", detail="EOF, ends_ident, whitespace")
    init = rd.func("Reader.__init__")
    ctx.check(pyq.contains(init, lambda n: isinstance(n, ast.Assign) and norm(n) == "self.ends_ident = set(self.NON_IDENT)") is not None, "WS-CLASS", f"{RD}|Reader.__init__|ends_ident", "ends_ident is not initialised from NON_IDENT", RD, init.lineno, detail="set(self.NON_IDENT)")
    ni = None
    for n in ast.walk(hr.classes["HyReader"]):
        if isinstance(n, ast.Assign) and norm(n.targets[0]) == "NON_IDENT":
            ni = fold(n.value.args[0]) if isinstance(n.value, ast.Call) else None
    ctx.check(ni is not None and set(ni) == set("()[]{};\"'`~"), "WS-CLASS", f"{HR}|HyReader.NON_IDENT", f"NON_IDENT is {ni!r}", HR, 0, witness="foo;comment reads the comment as part of the symbol", detail="()[]{};\"'`~")
    ss = rq.methods["slurp_space"][1]
    ctx.check("if not isnormalizedspace(c): break" in [norm(s) for s in ast.walk(ss) if isinstance(s, ast.If)], "WS-CLASS", f"{RD}|Reader.slurp_space", "slurp_space does not skip exactly the whitespace class", RD, ss.lineno, detail="isnormalizedspace")
    # --- None propagation
    for ch, meth in ((";", "line_comment"), ("#_", "discard")):
        ent = rq.handlers.get(ch)
        ctx.need(ent is not None and ent[0] == meth, f"handler for {ch!r} is not {meth}")
        f = ent[2]
        rets = [r for r in pyq.walk_no_nested(f) if isinstance(r, ast.Return)]
        # every `return` of the handler returns None (falling off the end does too)
        ctx.decide("NONE-PROP", f"{HR}|{meth}|returns None", all(r.value is None or (isinstance(r.value, ast.Constant) and r.value.value is None) for r in rets),
                   f"the handler of {ch!r} does not return None on every path", HR, f.lineno, witness="a comment / discarded form contributes a model", detail="return None")
    lc = rq.handlers[";"][2]
    # which characters end a comment: the constants the characters of self.chars(...) are compared with in line_comment
    cmp_consts = set()
    for n in ast.walk(lc):
        if isinstance(n, ast.Compare) and len(n.ops) == 1 and isinstance(n.ops[0], (ast.Eq, ast.NotEq, ast.In, ast.NotIn)) and isinstance(n.left, ast.Name):
            r = n.comparators[0]
            if isinstance(r, ast.Constant) and isinstance(r.value, str):
                cmp_consts |= set(r.value) if isinstance(n.ops[0], (ast.In, ast.NotIn)) else {r.value}
            elif isinstance(r, (ast.Tuple, ast.List, ast.Set)) and all(isinstance(e, ast.Constant) and isinstance(e.value, str) for e in r.elts):
                cmp_consts |= {e.value for e in r.elts}
    ctx.decide_tt("NONE-PROP", f"{HR}|line_comment|terminator", None if not cmp_consts else cmp_consts == {"\n"}, f"a comment ends at {sorted(cmp_consts)}; it must end at a newline only",
               HR, lc.lineno, witness="foo ; 10%\\r20%\\n bar  reads an extra form 20%", detail="until \\n")
    d = rq.handlers["#_"][2]
    ctx.check(norm(pyq.body_without_doc(d)[0]) == "self.parse_one_form()", "NONE-PROP", f"{HR}|discard|consumes one form", "#_ must read exactly one form and drop it", HR, d.lineno, detail="parse_one_form()")
    pof = rq.methods["parse_one_form"][1]
    ctx.check(pyq.contains(pof, lambda n: isinstance(n, ast.While) and norm(n.test) == "model is None" and norm(n.body[0]) == "model = self.try_parse_one_form()") is not None, "NONE-PROP", f"{HR}|parse_one_form|skips None",
              "parse_one_form must retry while the handler returned None", HR, pof.lineno, witness="'; c\\n x  quotes nothing", detail="while model is None")
    pfu = rq.methods["parse_forms_until"][1]
    # the loop of parse_forms_until: what try_parse_one_form returned is yielded only when it is not None, and white
    # space is skipped before the closer is looked for
    ys = [y for y in ast.walk(pfu) if isinstance(y, ast.Yield) and isinstance(y.value, ast.Name)]
    verdict = None
    for y in ys:
        v_ = y.value.id
        tested = False
        for t_, pol in pyq.guards(y, pfu):
            for x in ast.walk(t_):
                if isinstance(x, ast.Compare) and len(x.ops) == 1 and isinstance(x.ops[0], (ast.IsNot, ast.Is)) and isinstance(x.comparators[0], ast.Constant) and x.comparators[0].value is None:
                    l_ = x.left
                    if (isinstance(l_, ast.Name) and l_.id == v_) or (isinstance(l_, ast.NamedExpr) and l_.target.id == v_):
                        tested = tested or (pol == isinstance(x.ops[0], ast.IsNot))
        verdict = True if tested else (False if verdict is None else verdict)
    ctx.decide("NONE-PROP", f"{HR}|parse_forms_until|loop", verdict, "parse_forms_until yields what try_parse_one_form returned without testing it for None",
               HR, pfu.lineno, witness="(a ; c\n b) contains None", detail="yield only non-None")
    lp = next((n for n in pyq.walk_no_nested(pfu) if isinstance(n, ast.While)), None)
    calls = [dotted(c.func) for c in pyq.calls(lp)] if lp is not None else []
    order_ok = None if lp is None or "self.slurp_space" not in calls or "self.peek_and_getc" not in calls else calls.index("self.slurp_space") < calls.index("self.peek_and_getc") < (calls.index("self.try_parse_one_form") if "self.try_parse_one_form" in calls else 99)
    ctx.decide("NONE-PROP", f"{HR}|parse_forms_until|order", order_ok, f"the loop calls {calls}: white space must be skipped before the closer is tested, and the closer tested before a form is parsed", HR, pfu.lineno,
               witness="`( a )` is not closed by its `)`", detail="slurp_space; closer?; parse")
    td = rq.handlers["#"][2]
    am = pyq.contains(td, lambda n: isinstance(n, ast.Call) and dotted(n.func) == "as_model" and len(n.args) == 1 and isinstance(n.args[0], ast.Name))
    tv = am.args[0].id if am is not None else None
    none_ret = [r for r in ast.walk(td) if isinstance(r, ast.Return) and (r.value is None or isinstance(r.value, ast.Constant) and r.value.value is None) and any(g == f"{tv} is None" for g in pyq.guard_texts(r, td))]
    ctx.check(am is not None and any(g == f"{tv} is not None" for g in pyq.guard_texts(am, td)), "NONE-PROP", f"{HR}|tag_dispatch|None", "a reader macro returning None must produce no form",
              HR, td.lineno, detail="None stays None")
    # --- sugar
    sugar = {}
    for ch, (meth, args, f) in rq.handlers.items():
        if meth == "tag_as" and args is not None:
            sugar[ch] = fold(args)[0]
    uq = rq.handlers["~"][2]
    e = pyq.contains(uq, lambda n: isinstance(n, ast.BinOp) and isinstance(n.op, ast.Add))
    if e is not None and norm(e) == "'unquote' + ('-splice' if self.peek_and_getc('@') else '')":
        sugar["~"], sugar["~@"] = "unquote", "unquote-splice"
    hs = rq.handlers["#*"][2]
    dct = pyq.contains(hs, lambda n: isinstance(n, ast.Dict))
    if dct is not None and pyq.contains(hs, lambda n: isinstance(n, ast.BinOp) and norm(n.left) == "'unpack-'") is not None:
        for k, v in fold(dct).items():
            sugar["#" + k] = "unpack-" + v
    ann = rq.handlers["#^"][2]
    if pm.eq(pyq.body_without_doc(ann), "typ = self.parse_one_form()\ntarget = self.parse_one_form()\nreturn mkexpr('annotate', target, typ)") is not None:
        sugar["#^"] = "annotate"
    want = {"'": "quote", "`": "quasiquote", "~": "unquote", "~@": "unquote-splice", "#*": "unpack-iterable", "#**": "unpack-mapping", "#^": "annotate"}
    ctx.check(sugar == want, "SUGAR", f"{HR}|sugar table", f"the reader's sugar table is {sugar}", HR, 0, witness="'x no longer reads as (quote x)", detail=str(sugar))
    for ch in ("'", "`"):
        f = rq.handlers[ch][2]
        # recognised spelling -> held; any other spelling of the returned handler is not judged here (what it must not do -
        # share a model between uses - is POS-FRESH's business in C21)
        ctx.decide("SUGAR", f"{HR}|tag_as|{ch}", True if norm(f.body[-1]) == "return lambda self, _: mkexpr(root, self.parse_one_form())" else None, "tag_as must wrap exactly the next form", HR, f.lineno, detail="mkexpr(root, parse_one_form())")
    for ch in ("#*", "#**"):
        ctx.check(rq.handlers[ch][0] == "hash_star", "SUGAR", f"{HR}|{ch}|handler", f"{ch} is not handled by hash_star", HR, 0, detail="hash_star")
    rep = src.hy("hy/core/hy_repr.hy")
    syn = None
    for f in rep.find("setv"):
        if len(f.items) > 2 and f.items[1].is_sym("syntax") and f.items[2].kind == "dict":
            its = f.items[2].items
            syn = {k.items[1].val: v.val for k, v in zip(its[::2], its[1::2]) if k.kind == "expr" and k.head() == "quote"}
    inv = {v: k.strip() for k, v in {"'": "quote", "`": "quasiquote", "~": "unquote", "~@": "unquote-splice", "#*": "unpack-iterable", "#**": "unpack-mapping"}.items()}
    ctx.check(syn is not None and {k: v.strip() for k, v in syn.items()} == inv, "SUGAR", "hy/core/hy_repr.hy|syntax table", f"hy.repr's inverse sugar table is {syn}", "hy/core/hy_repr.hy", 0,
              witness="(hy.repr ''x) prints sugar that reads back differently", detail=str(syn))
    comp = compq.Compiler(src)
    names = set(comp.all_macro_names())
    missing = [h for h in want.values() if h not in names]
    ctx.check(not missing, "SUGAR", "compiler|heads implemented", f"the compiler implements no form named {missing}", compq.RM, 0, detail="all seven heads are pattern macros")
    # --- concat
    pr = rq.methods["parse"][1]
    ctx.check(norm(pr.body[-1]) == "yield from self.parse_forms_until('')", "CONCAT", f"{HR}|HyReader.parse|top level", "top-level reading must yield from parse_forms_until('')", HR, pr.lineno, detail="yield from parse_forms_until('')")
    pg = rq.methods["peek_and_getc"][1]
    ctx.check(pm.eq(pyq.body_without_doc(pg), "nc = self.peekc()\nif nc == target:\n    self.getc()\n    return True\nreturn False") is not None, "CONCAT", f"{RD}|peek_and_getc", "peek_and_getc must consume only on equality", RD, pg.lineno, detail="consume iff equal")
    ctx.floor("NONE-PROP", 7)


SELFTESTS = [
    dict(name="comment ends at CR", file=HR, old='any(c == "\\n" for c in self.chars(eof_ok=True))', new='any(c in "\\r\\n" for c in self.chars(eof_ok=True))', rule="NONE-PROP", key="line_comment|terminator"),
    dict(name="ident ignores \\f \\v", file=RD, rule="WS-CLASS", key="read_ident", edits=[
        ("        self.ends_ident = set(self.NON_IDENT)\n", "        self.ends_ident = set(self.NON_IDENT) | set(\" \\t\\r\\n\")\n"),
        ("            if not nc or nc in self.ends_ident or isnormalizedspace(nc):", "            if not nc or nc in self.ends_ident:")]),
    dict(name="whitespace class widened", file=RD, old='_whitespace = re.compile(r"[ \\t\\n\\r\\f\\v]+")', new='_whitespace = re.compile(r"[ \\t\\n\\r\\f\\v\\xa0]+")', rule="WS-CLASS", key="_whitespace"),
    dict(name="annotate not swapped", file=HR, old='return mkexpr("annotate", target, typ)', new='return mkexpr("annotate", typ, target)', rule="SUGAR", key="sugar table"),
    dict(name="None yielded", file=HR, old="            model = self.try_parse_one_form()\n            if model is not None:\n                yield model", new="            model = self.try_parse_one_form()\n            yield model", rule="NONE-PROP", key="parse_forms_until"),
]
