"""C36 — macroexpand-1 / macroexpand (thin: flag wiring and loop shape)."""
CANON = True

import ast

from .. import boolfn, pm, compq, pyq
from ..pysrc import dotted, norm, flat

UT = "hy/core/util.hy"
MC = compq.MC


def check(ctx, src):
    ctx.rule("MX-FLAGS", "hy.macroexpand and hy.macroexpand-1 both go through _macroexpand, which passes result-ok False; only macroexpand-1 passes once True; non-expressions are returned unchanged")
    ctx.rule("MX-LOOP", "macros.macroexpand rebinds `tree` to each expansion, stops after one expansion when `once`, stops when the head names no macro, and on a compiler Result returns the current tree when result_ok is false")
    ctx.rule("MX-HEAD", "the head is looked up only if it is a symbol or a non-empty dotted expression of symbols; anything else ends the expansion without error")
    hf = src.hy(UT)
    mx = hf.defn("_macroexpand")
    ctx.require(mx is not None, "_macroexpand not found")
    t = mx.src()
    ctx.check(":result-ok False" in t and "(hy.macros.macroexpand" in t and "#** kwargs" in t.replace("(unpack-mapping kwargs)", "#** kwargs"), "MX-FLAGS", f"{UT}|_macroexpand|result-ok", "_macroexpand must call hy.macros.macroexpand with :result-ok False and pass kwargs on",
              UT, mx.line, witness="(hy.macroexpand '(if a b c)) returns a compiler Result object", detail=":result-ok False")
    ctx.check("(if (and (isinstance model hy.models.Expression) model)" in t and t.rstrip(")").rstrip().endswith("model"), "MX-FLAGS", f"{UT}|_macroexpand|non-expression", "non-expressions and empty expressions must be returned unchanged", UT, mx.line, detail="else model")
    ctx.check(":compiler (HyASTCompiler module :extra-macros macros)" in t and ":module module" in t and ":tree model" in t, "MX-FLAGS", f"{UT}|_macroexpand|arguments", "tree/module/compiler wiring changed", UT, mx.line, detail="tree, module, compiler(extra-macros)")
    m1 = hf.defn("macroexpand-1")
    m = hf.defn("macroexpand")
    ctx.need(m1 is not None and m is not None, "macroexpand / macroexpand-1 not found")
    def once_of(defn):
        """-> (call form or None, 'True' / 'False' / 'absent' / other source)"""
        calls = [n for n in defn.walk() if n.kind == "expr" and n.head() == "_macroexpand"]
        if len(calls) != 1:
            return None, None
        c = calls[0]
        for k in range(1, len(c.items) - 1):
            if c.items[k].is_kw("once"):
                return c, c.items[k + 1].src()
        pos = [x for x in c.items[1:] if x.kind != "kw"]
        return c, ("absent" if len(pos) <= 3 or any(x.kind == "kw" for x in c.items[1:]) and len(pos) <= 4 else pos[3].src())

    c1, o1 = once_of(m1)
    c0, o0 = once_of(m)
    ctx.decide("MX-FLAGS", f"{UT}|macroexpand-1|once", None if c1 is None else (True if o1 == "True" else (False if o1 in ("False", "absent") else None)),
               f"macroexpand-1 calls `{c1.src() if c1 else None}`: it must ask for a single expansion step", UT, m1.line, witness="(hy.macroexpand-1 '(m 5)) expands to a fixpoint", detail=":once True")
    ctx.decide("MX-FLAGS", f"{UT}|macroexpand|no once", None if c0 is None else (True if o0 in ("False", "absent") else (False if o0 == "True" else None)),
               f"macroexpand calls `{c0.src() if c0 else None}`: it must expand to a fixpoint", UT, m.line, witness="(hy.macroexpand '(m 5)) stops after one step", detail="no :once")
    for nm, d_, c_ in (("macroexpand-1", m1, c1), ("macroexpand", m, c0)):
        if c_ is not None:
            a = [x.src() for x in c_.items[1:4]]
            ctx.check(a == ["model", "(or module (calling-module))", "macros"], "MX-FLAGS", f"{UT}|{nm}|arguments", f"{nm} hands {a} to _macroexpand", UT, d_.line, detail="model, module or the caller's, macros")
    # --- macros.macroexpand
    mc = src.py(MC)
    f = mc.func("macroexpand")
    ctx.require(f is not None, "macros.macroexpand not found")
    loop = next((n for n in f.body if isinstance(n, ast.While)), None)
    ctx.need(loop is not None, "macroexpand loop not found")
    ctx.check(norm(loop.test) == "isinstance(tree, Expression) and tree", "MX-LOOP", f"{MC}|macroexpand|loop condition", f"loop condition is `{norm(loop.test)}`", MC, loop.lineno, detail="while tree is a non-empty Expression")
    # T: the variable the loop tests; every expansion must be stored back into it, and it is what is returned
    tv = next((c.args[0].id for c in ast.walk(loop.test) if isinstance(c, ast.Call) and dotted(c.func) == "isinstance" and c.args and isinstance(c.args[0], ast.Name)), None)
    ctx.need(tv is not None, "macroexpand: the variable tested by the loop was not recognised")
    rets_in = [n for n in ast.walk(loop) if isinstance(n, ast.Return)]
    # I: the macro returned compiled code (a Result or a bare AST node); J: the narrower test for a Result only (J implies I)
    AT = boolfn.Atoms(I="isinstance(obj, (hy.compiler.Result, AST))", K="result_ok", J="isinstance(obj, hy.compiler.Result)")
    feas_mx = lambda e: (not e["J"]) or e["I"]
    # a returned temporary stands for what was assigned to it
    sites = []
    for r in rets_in:
        if isinstance(r.value, ast.Name):
            defs = [a for a in ast.walk(loop) if isinstance(a, ast.Assign) and len(a.targets) == 1 and isinstance(a.targets[0], ast.Name) and a.targets[0].id == r.value.id and isinstance(a.value, ast.Name)]
            if r.value.id != tv and defs and all(d.lineno <= r.lineno for d in defs) and not any(isinstance(a.value, ast.Call) for a in ast.walk(loop) if isinstance(a, ast.Assign) and isinstance(a.targets[0], ast.Name) and a.targets[0].id == r.value.id):
                sites += [(d, d.value.id) for d in defs]
            else:
                sites.append((r, r.value.id))
    r_obj = [n for n, name in sites if name != tv]
    r_tree = [n for n, name in sites if name == tv]
    v1, c1 = boolfn.equivalent(r_obj, loop, AT, lambda e: e["I"] and e["K"], feasible=feas_mx)
    v2, c2 = boolfn.equivalent(r_tree, loop, AT, lambda e: e["I"] and not e["K"], feasible=feas_mx)
    ok_names = all(isinstance(r.value, ast.Name) for r in rets_in)
    ctx.decide_tt("MX-LOOP", f"{MC}|macroexpand|result", None if (v1 is None or v2 is None) else (v1 and v2 and ok_names),
               f"a compiler Result must be returned only when result_ok, else the tree as expanded so far (the loop variable `{tv}`); found returns of {[norm(r.value) for r in rets_in]}", MC, loop.lineno, detail="obj if result_ok else tree")
    rebind = pyq.contains(loop, lambda n: isinstance(n, ast.Assign) and isinstance(n.targets[0], ast.Name) and n.targets[0].id == tv and isinstance(n.value, ast.Call) and dotted(n.value.func) == "replace_hy_obj")
    final = f.body[-1]
    ctx.decide_tt("MX-LOOP", f"{MC}|macroexpand|rebinding", rebind is not None and isinstance(final, ast.Return) and isinstance(final.value, ast.Name) and final.value.id == tv,
               f"each expansion must be stored back into `{tv}`, which is what the loop tests, what a core macro leaves unchanged, and what is returned (the function ends with `{norm(final)}`)", MC, loop.lineno,
               witness="(hy.macroexpand '(m0 5)) where m0 expands into a core form returns the original '(m0 5)", detail="tree = replace_hy_obj(obj, tree) … return tree")
    def _takes_head(n):
        if isinstance(n, ast.Subscript) and isinstance(n.value, ast.Name) and n.value.id == tv and norm(n.slice) == "0":
            return True
        if isinstance(n, ast.Call) and isinstance(n.func, ast.Name) and mc.func(n.func.id) is not None and any(isinstance(a, ast.Name) and a.id == tv for a in n.args):
            h_ = mc.func(n.func.id)
            k = [isinstance(a, ast.Name) and a.id == tv for a in n.args].index(True)
            pn = h_.args.args[k].arg if k < len(h_.args.args) else None
            return any(isinstance(x, ast.Subscript) and isinstance(x.value, ast.Name) and x.value.id == pn and norm(x.slice) == "0" for x in ast.walk(h_))
        return False

    head = pyq.contains(loop, _takes_head)
    calls_m = pyq.contains(loop, lambda n: isinstance(n, ast.Call) and isinstance(n.func, ast.Name) and pm.find(n, f"map(as_model, {tv}[1:])") is not None)
    args_from_tree = calls_m is not None
    ctx.check(head is not None and args_from_tree, "MX-LOOP", f"{MC}|macroexpand|current tree", "head and arguments must be taken from the current tree", MC, loop.lineno, detail="fn = tree[0]; m(*map(as_model, tree[1:]))")
    on = [n for n in loop.body if isinstance(n, ast.If) and norm(n.test) == "once"]
    ctx.check(len(on) == 1 and isinstance(on[0].body[0], ast.Break) and loop.body[-1] is on[0], "MX-LOOP", f"{MC}|macroexpand|once", "`once` must break at the end of the first iteration", MC, loop.lineno, detail="if once: break")
    mv = calls_m.func.id if calls_m is not None else None

    def _tests_no_macro(t):
        for x in ast.walk(t):
            if isinstance(x, ast.UnaryOp) and isinstance(x.op, ast.Not):
                o = x.operand
                if (isinstance(o, ast.Name) and o.id == mv) or (isinstance(o, ast.NamedExpr) and o.target.id == mv):
                    return True
        return False

    nm = any(isinstance(b, ast.Break) and any(pol and _tests_no_macro(t_) for t_, pol in pyq.guards(b, loop)) for b in ast.walk(loop)) if mv else None
    ctx.check(bool(nm), "MX-LOOP", f"{MC}|macroexpand|no macro", "a head that names no macro must end the loop", MC, loop.lineno, detail="if not m: break")
    hd = next((n for n in loop.body if isinstance(n, ast.If) and "fn[0] == Symbol('.')" in flat(n.test)), None)
    ctx.need(hd is not None, "head classification not found")
    t = flat(hd.test)
    ctx.check(t == "isinstance(fn, Expression) and fn and (fn[0] == Symbol('.')) and all((isinstance(x, Symbol) for x in fn))", "MX-HEAD", f"{MC}|macroexpand|dotted head", f"dotted-head test is `{t}`; the emptiness test must precede fn[0]", MC, hd.lineno,
              witness="(hy.macroexpand-1 '(() 1)) raises IndexError instead of returning the model", detail="isinstance and fn and fn[0] == '.' and all symbols")
    mg = pm.find(loop, "fn = mangle(fn)")
    brk = [b for b in ast.walk(loop) if isinstance(b, ast.Break) and pyq.has_atoms(b, loop, ["not isinstance(fn, Symbol)"])]
    ctx.check(mg is not None and pyq.has_atoms(mg, loop, ["isinstance(fn, Symbol)"]) and len(brk) == 1, "MX-HEAD", f"{MC}|macroexpand|symbol head", "a symbol head is mangled; any other head ends the expansion", MC, hd.lineno, detail="mangle / break")
    ctx.assume("non-mutation of the input model is an aliasing property that is not decided")
    ctx.floor("MX-LOOP", 6)


SELFTESTS = [
    dict(name="loop on a copy", file=MC, rule="MX-LOOP", key="rebinding", edits=[("            tree = replace_hy_obj(obj, tree)\n", "            expr = replace_hy_obj(obj, tree)\n")]),
    dict(name="emptiness guard dropped", file=MC, old="                isinstance(fn, Expression) and\n                fn and\n                fn[0] == Symbol(\".\") and", new="                isinstance(fn, Expression) and\n                fn[0] == Symbol(\".\") and", rule="MX-HEAD", key="dotted head"),
    dict(name="macroexpand-1 without once", file=UT, old="(_macroexpand model (or module (calling-module)) macros :once True))", new="(_macroexpand model (or module (calling-module)) macros))", rule="MX-FLAGS", key="macroexpand-1"),
    dict(name="result-ok True", file=UT, old="      :result-ok False", new="      :result-ok True", rule="MX-FLAGS", key="result-ok"),
]
