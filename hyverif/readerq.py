"""Facts about the reader: modules, handler registry (reader_for), method call graph, structural must-pass."""
import ast

from .pysrc import dotted, norm

RD = "hy/reader/reader.py"
HR = "hy/reader/hy_reader.py"
EX = "hy/reader/exceptions.py"


class Reader:
    def __init__(self, src):
        self.rd = src.py(RD)
        self.hr = src.py(HR)
        self.ex = src.py(EX)
        self.methods = {}
        for m, cls in ((self.rd, "Reader"), (self.hr, "HyReader")):
            for q, f in m.funcs.items():
                if q.startswith(cls + ".") and q.count(".") == 1:
                    self.methods[f.name] = (m, f)
        self.handlers = {}  # char -> (method name, args)
        for q, f in self.hr.funcs.items():
            for d in f.decorator_list:
                if isinstance(d, ast.Call) and dotted(d.func) == "reader_for" and d.args and isinstance(d.args[0], ast.Constant):
                    args = None
                    if len(d.args) > 1:
                        args = d.args[1]
                    self.handlers[d.args[0].value] = (f.name, args, f)

    def calls_of(self, f):
        out = set()
        for n in ast.walk(f):
            if isinstance(n, ast.Call) and isinstance(n.func, ast.Attribute) and isinstance(n.func.value, ast.Name) and n.func.value.id == "self":
                out.add(n.func.attr)
        return out

    def reachable(self, start, stop=()):
        seen, todo = set(), [start]
        while todo:
            x = todo.pop()
            if x in seen or x in stop or x not in self.methods:
                continue
            seen.add(x)
            todo.extend(self.calls_of(self.methods[x][1]))
        return seen


def must_pass(stmts, marker):
    """Structural post-dominance: does every fall-through path through `stmts` execute a node for which marker(node) holds?
    Returns True / False.  Paths ending in raise count as passing."""
    for st in stmts:
        r = _stmt_pass(st, marker)
        if r == "yes" or r == "raise":
            return True
        if r == "return":
            return False
    return False


def _has(node, marker):
    return any(marker(n) for n in ast.walk(node))


def _stmt_pass(st, marker):
    if isinstance(st, ast.Raise):
        return "raise"
    if marker(st):
        return "yes"
    if isinstance(st, ast.Return):
        return "yes" if st.value is not None and _has(st.value, marker) else "return"
    if isinstance(st, ast.If):
        if _has(st.test, marker):
            return "yes"
        a = must_pass(st.body, marker) if st.body else False
        b = must_pass(st.orelse, marker) if st.orelse else False
        a_ret = _returns(st.body)
        b_ret = _returns(st.orelse)
        if a and b:
            return "yes"
        return "no"
    if isinstance(st, (ast.For, ast.AsyncFor)):
        return "yes" if _has(st.iter, marker) else "no"
    if isinstance(st, ast.While):
        return "yes" if _has(st.test, marker) else "no"
    if isinstance(st, (ast.With, ast.AsyncWith)):
        if any(_has(i.context_expr, marker) for i in st.items):
            return "yes"
        return "yes" if must_pass(st.body, marker) else "no"
    if isinstance(st, ast.Try):
        return "yes" if must_pass(st.body, marker) or (st.finalbody and must_pass(st.finalbody, marker)) else "no"
    if isinstance(st, (ast.FunctionDef, ast.AsyncFunctionDef, ast.ClassDef)):
        return "no"
    return "yes" if _has(st, marker) else "no"


def _returns(stmts):
    return any(isinstance(s, ast.Return) for s in stmts)


def following(node, func):
    """Statements that execute after the statement containing `node`, in enclosing blocks, up to the function."""
    out = []
    st = node
    while st is not None and not isinstance(st, ast.stmt):
        st = getattr(st, "_parent", None)
    cur = st
    while cur is not None and cur is not func:
        par = getattr(cur, "_parent", None)
        for fld in ("body", "orelse", "finalbody"):
            blk = getattr(par, fld, None)
            if isinstance(blk, list) and any(cur is x for x in blk):
                i = next(k for k, x in enumerate(blk) if x is cur)
                out.extend(blk[i + 1:])
        cur = par
    return out
