#!/venv/bin/python
"""Worktrees + TASK.md asking only for behaviour-preserving refactorings (two per property, numbered argv[1], argv[2])."""
import json, os, subprocess, sys
A, B = sys.argv[1:3]
only = sys.argv[3:]
props = [json.loads(l) for l in open("/verif/properties.jsonl")]
os.makedirs("/tmp/wt", exist_ok=True)
subprocess.run(["git", "-C", "/repo", "worktree", "prune"])
for p in props:
    pid = p["id"]
    if only and pid not in only:
        continue
    wt = f"/tmp/wt/{pid}"
    if not os.path.isdir(wt):
        subprocess.run(["git", "-C", "/repo", "worktree", "add", "-q", "--detach", wt, "HEAD"], check=True)
    os.makedirs(f"{wt}/_seed", exist_ok=True)
    anchors = json.dumps(p["anchors"], indent=1)
    open(f"{wt}/TASK.md", "w").write(f"""# Task

You are working in a scratch git worktree of the hylang/hy repository (Hy: a Lisp dialect compiled to Python AST) at `{wt}`.

Rules: work ONLY inside `{wt}`; never modify `/repo`; never read or write anything under `/verif`. No network. Use
`/venv/bin/python` with `PYTHONPATH={wt} PYTHONDONTWRITEBYTECODE=1`. NEVER use `git stash` (it is shared between worktrees);
save diffs with `git diff > file` and restore with `git checkout -- .` / `git apply`.
Test suite: `cd {wt} && PYTHONPATH={wt} PYTHONDONTWRITEBYTECODE=1 /venv/bin/python -m pytest -q -p no:cacheprovider --timeout=900 -rf`
(baseline on this image: 584 passed, 54 failed - the CLI tests; "same outcome" = identical FAILED ids and 584 passed).

## Context: the property whose implementation you will refactor

**{pid} — {p['title']}**: {p['statement']}

Anchors (where it lives in the code):
```json
{anchors}
```

## What to produce: TWO independent behaviour-preserving refactorings (numbers {A} and {B})

Each is a clean-up a maintainer would really do to the code that implements this property (the anchored functions and
their close helpers), **preserving behaviour exactly**. Make the two differ in kind and, where possible, in the functions
they touch. Use a mix of: renaming locals/parameters of private helpers, restructuring or inverting conditionals, early
returns vs nested ifs, splitting/merging statements, introducing locals or small helper functions/methods, inlining a
helper, replacing an idiom by an equivalent one (comprehension vs loop, conditional expression vs if, f-string vs format,
`a or b` vs if), reordering independent statements, tidying data tables, adding docstrings/comments. Moderate size
(about 15-70 changed lines each), files under `hy/` only (both .py and .hy files are fair game where the anchors are .hy).

For each N in {{{A}, {B}}}: apply it alone on a clean tree, run the whole test suite (same outcome as baseline), convince
yourself behaviour is unchanged (e.g. compare compiled ASTs / reader output / results for a good number of inputs before and
after), then save `{wt}/_seed/neutralN.diff` (`git diff` against clean HEAD, this refactoring alone; must apply with
`git apply` on a clean checkout) and `{wt}/_seed/neutralN.json` =
`{{"property": "{pid}", "summary": "...", "files": [...], "ran": [...]}}`, then `git checkout -- .`.

Leave tracked files unchanged at the end. Reply with two lines saying what each refactoring does and that you verified it.
""")
    print(wt)
