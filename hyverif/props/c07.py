"""C07 — nonlocal / global: OuterVar closure, resolution wiring, use-before-declaration error, registration."""
CANON = True

import ast

from .. import boolfn, pm, compq, pyq
from ..pysrc import dotted, norm, flat
from .c05 import check_scopefn_params
from .c06 import check_scope_routing

R, CP, SC = compq.RM, compq.CP, compq.SC


def check(ctx, src):
    ctx.rule("OUTERVAR-CLOSED", "OuterVar nodes are created only by compile_global_or_nonlocal and hy_compile replaces all of them (ResolveOuterVars over every statement) before the module is built")
    ctx.rule("OUTERVAR-RESOLVE", "visit_OuterVar walks outwards from the declaring scope; names found in an enclosing function or let become Nonlocal (in declaration order), names that reach the "
             "module scope and are defined there become Global, and when a name is defined nowhere a plain Nonlocal is emitted so that Python reports it")
    ctx.rule("DECL-ERROR", "declaring a name after using it in the same scope raises SyntaxError in ScopeFn.define_nonlocal, which compile_global_or_nonlocal converts into a Hy syntax error")
    ctx.rule("R-ID-SCOPE", "binding constructs are registered with the scope chain (shared with C06)")
    ctx.rule("SCOPE-PARAMS", "function scopes record all five kinds of parameters as defined")
    comp = compq.Compiler(src)
    rm, cp, sc = comp.rm, comp.cp, comp.sc
    # --- closure
    makers = []
    for m in comp.mods + [src.py(r) for r in ("hy/cmdline.py", "hy/importer.py", "hy/repl.py")]:
        for c in pyq.calls(m.tree):
            if dotted(c.func) == "OuterVar":
                makers.append(f"{m.rel}:{m.qual_of(c)}")
    ctx.check(makers == [f"{R}:compile_global_or_nonlocal"], "OUTERVAR-CLOSED", "whole-repo|OuterVar constructors", f"OuterVar is constructed at {makers}", R, 0, detail=str(makers))
    hc = cp.func("hy_compile")
    ctx.require(hc is not None, "hy_compile not found")
    res = pm.find(hc, "result.stmts = list(map(ResolveOuterVars().visit, result.stmts))")
    rv_ = res.targets[0].value.id if res is not None and isinstance(res.targets[0], ast.Attribute) and isinstance(res.targets[0].value, ast.Name) else None
    root = pyq.contains(hc, lambda n: isinstance(n, ast.Call) and dotted(n.func) == "root")
    later = [n for n in pyq.walk_no_nested(hc) if isinstance(n, ast.AugAssign) and isinstance(n.target, ast.Name) and n.target.id == rv_ and res is not None and n.lineno > res.lineno]
    ctx.decide("OUTERVAR-CLOSED", f"{CP}|hy_compile|resolve-before-root", None if (res is None or root is None) else (res.lineno < root.lineno and not pyq.guards(res, hc, siblings=False) and not later), 
              "hy_compile must replace OuterVar nodes in all statements, unconditionally, after the last statement was added and before the root node is built", CP, hc.lineno,
              witness="a (nonlocal x) reaches Python's compile() as a custom node: TypeError", detail="result.stmts = map(ResolveOuterVars().visit); then root(...)")
    compiles = []
    for rel in ("hy/cmdline.py", "hy/importer.py", "hy/repl.py", "hy/compiler.py", "hy/macros.py"):
        m = src.py(rel)
        for c in pyq.calls(m.tree):
            if isinstance(c.func, ast.Attribute) and c.func.attr == "compile" and dotted(c.func.value) in ("compiler", "self") and m.qual_of(c) not in ("HyASTCompiler.compile",) \
                    and not m.qual_of(c).startswith("HyASTCompiler.") and rel != "hy/compiler.py":
                compiles.append(f"{rel}:{m.qual_of(c)}")
    ctx.check(not compiles, "OUTERVAR-CLOSED", "whole-repo|compile entry points", f"HyASTCompiler.compile is called outside hy_compile at {compiles}: its statements would skip ResolveOuterVars", "", 0, detail="only hy_compile")
    # --- visit_OuterVar
    v = sc.func("ResolveOuterVars.visit_OuterVar")
    ctx.require(v is not None, "visit_OuterVar not found")
    loop = next((n for n in pyq.walk_no_nested(v) if isinstance(n, ast.While)), None)
    ctx.need(loop is not None, "visit_OuterVar: scope walk not found")
    ctx.check(norm(loop.test) == "undefined and scope.parent" and norm(loop.body[0]) == "scope = scope.parent", "OUTERVAR-RESOLVE", f"{SC}|visit_OuterVar|walk", "the walk must go outwards from the declaring scope while names remain", SC, loop.lineno, detail="while undefined and scope.parent: scope = scope.parent")
    arms = {norm(a.test): a for a in ast.walk(loop) if isinstance(a, ast.If) and norm(a.test).startswith("isinstance(scope, Scope")}
    ctx.check(set(arms) == {"isinstance(scope, ScopeFn)", "isinstance(scope, ScopeLet)", "isinstance(scope, ScopeGlobal)"}, "OUTERVAR-RESOLVE", f"{SC}|visit_OuterVar|scope kinds", f"scope kinds handled: {sorted(arms)}", SC, loop.lineno, detail="Fn, Let, Global")
    if "isinstance(scope, ScopeFn)" in arms:
        ctx.check(norm(arms["isinstance(scope, ScopeFn)"].body[0]) == "has = scope.defined", "OUTERVAR-RESOLVE", f"{SC}|visit_OuterVar|fn has", "a function scope offers its defined names", SC, loop.lineno, detail="has = scope.defined")
    if "isinstance(scope, ScopeLet)" in arms:
        ctx.check(norm(arms["isinstance(scope, ScopeLet)"].body[0]) == "has = set(scope.bindings.keys())", "OUTERVAR-RESOLVE", f"{SC}|visit_OuterVar|let has", "a let scope offers its bound names", SC, loop.lineno, detail="has = set(bindings)")
    g = arms.get("isinstance(scope, ScopeGlobal)")
    if g is not None:
        t = [norm(s) for s in g.body]
        ok = ("if not scope.defined.issuperset(undefined): break" in t and "if undefined: res.append(asty.Global(node, names=list(undefined)))" in t and t[-1] == "return res")
        nl = next((s for s in g.body if isinstance(s, ast.If) and norm(s.test) == "defined"), None)
        oknl = nl is not None and "asty.Nonlocal(node, names=[name for name in node.names if name in defined])" in norm(nl.body[0])
        ctx.check(ok, "OUTERVAR-RESOLVE", f"{SC}|visit_OuterVar|global arm", f"module-scope arm is {t}", SC, g.lineno,
                  witness="(setv x 1) (defn f [] (nonlocal x) (setv x 2)) no longer compiles to `global x`", detail="Global(undefined) when all are defined at module level; else fall back to Nonlocal")
        ctx.check(oknl, "OUTERVAR-RESOLVE", f"{SC}|visit_OuterVar|nonlocal part", "the names found in enclosing functions/lets must be emitted as Nonlocal in declaration order", SC, g.lineno, detail="ordered comprehension over node.names")
    # the names found so far are *accumulated* over the enclosing scopes: the set the Nonlocal part filters by is never
    # rebound inside the walk (only updated)
    dset = None
    for n in ast.walk(v):
        if isinstance(n, ast.Compare) and len(n.ops) == 1 and isinstance(n.ops[0], ast.In) and isinstance(n.comparators[0], ast.Name) and isinstance(getattr(n, "_parent", None), ast.comprehension):
            dset = n.comparators[0].id
    rebinds = [n for n in ast.walk(loop) if isinstance(n, ast.Assign) and any(isinstance(t, ast.Name) and t.id == dset for t in n.targets)] if dset else []
    grows = [n for n in ast.walk(loop) if (isinstance(n, ast.Call) and isinstance(n.func, ast.Attribute) and n.func.attr in ("update", "add") and isinstance(n.func.value, ast.Name) and n.func.value.id == dset)
             or (isinstance(n, ast.AugAssign) and isinstance(n.target, ast.Name) and n.target.id == dset)] if dset else []
    ctx.decide("OUTERVAR-RESOLVE", f"{SC}|visit_OuterVar|accumulate", None if dset is None or not (rebinds or grows) else (not rebinds and bool(grows)),
               f"the set of names found in enclosing scopes (`{dset}`) is rebound inside the walk instead of accumulated: names found at an inner level are dropped from the emitted nonlocal", SC, loop.lineno,
               witness="three nested functions, (nonlocal a g) with a from the outermost function and g global: the assignment to a creates a local", detail="defined.update(...)", local=True)
    upd = [norm(s) for s in loop.body[-2:]]
    ctx.check(upd == ["defined.update(has.intersection(undefined))", "undefined = [name for name in undefined if name not in has]"], "OUTERVAR-RESOLVE", f"{SC}|visit_OuterVar|bookkeeping",
              f"per-scope bookkeeping is {upd}", SC, loop.lineno, witness="a name defined in an enclosing function is also declared global", detail="defined += has∩undefined; undefined -= has")
    ctx.check(pm.find(v, "return [asty.Nonlocal(node, names=node.names)] if node.names else []") is not None, "OUTERVAR-RESOLVE", f"{SC}|visit_OuterVar|fallback", "the fallback must emit a plain Nonlocal of all names",
              SC, v.lineno, detail="Nonlocal(node.names)")
    gn = rm.func("compile_global_or_nonlocal")
    ctx.require(gn is not None, "compile_global_or_nonlocal not found")
    gs = [n for n in ast.walk(gn) if isinstance(n, ast.Call) and dotted(n.func) == "asty.Global"]
    os_ = [n for n in ast.walk(gn) if isinstance(n, ast.Call) and dotted(n.func) == "OuterVar"]
    AT = boolfn.Atoms(G="root == 'global'", S="syms")
    v1, c1 = boolfn.equivalent(gs, gn, AT, lambda e: e["G"] and e["S"])
    v2, c2 = boolfn.equivalent(os_, gn, AT, lambda e: (not e["G"]) and e["S"])
    bound = all(len(o.args) >= 2 and norm(o.args[1]) == "compiler.scope" for o in os_) and bool(os_)
    ctx.decide_tt("OUTERVAR-RESOLVE", f"{R}|compile_global_or_nonlocal|node", None if v1 is None or v2 is None else (v1 and v2 and bound),
               "`global` must always give ast.Global, `nonlocal` an OuterVar bound to the declaring scope", R, gn.lineno, detail="Global if root == 'global' else OuterVar(scope)")
    nm = pyq.contains(gn, lambda n: isinstance(n, ast.Assign) and norm(n) == "names = [mangle(s) for s in syms]")
    ctx.check(nm is not None, "OUTERVAR-RESOLVE", f"{R}|compile_global_or_nonlocal|names", "declared names are not mangled in declaration order", R, gn.lineno, detail="[mangle(s) for s in syms]")
    # --- declaration error
    t = next((n for n in pyq.walk_no_nested(gn) if isinstance(n, ast.Try)), None)
    ok = t is not None and "compiler.scope.define_nonlocal(ret, root)" in [norm(s) for s in t.body] and any(norm(h.type) == "SyntaxError" and "compiler._syntax_error(expr, e.msg)" in [norm(s) for s in h.body] for h in t.handlers)
    ctx.check(ok, "DECL-ERROR", f"{R}|compile_global_or_nonlocal|convert", "the SyntaxError raised for a declaration after use is not converted into a Hy syntax error", R, gn.lineno,
              witness="(defn f [] (print x) (nonlocal x)) raises a bare SyntaxError without Hy position", detail="except SyntaxError -> _syntax_error")
    dn = sc.func("ScopeFn.define_nonlocal")
    ctx.require(dn is not None, "ScopeFn.define_nonlocal not found")
    chk = pyq.contains(dn, lambda n: isinstance(n, ast.For) and norm(n.iter) == "self.seen" and pyq.contains(n.body, lambda x: isinstance(x, ast.If) and norm(x.test) == "n.name in node.names"
                       and isinstance(x.body[0], ast.Raise) and "SyntaxError" in norm(x.body[0])) is not None)
    ctx.check(chk is not None, "DECL-ERROR", f"{SC}|ScopeFn.define_nonlocal|use-before-declaration", "a name used earlier in the scope is not rejected when it is declared nonlocal/global", SC, dn.lineno, detail="raise SyntaxError")
    up = pyq.contains(dn, lambda n: isinstance(n, ast.If) and norm(n.test) == "root == 'nonlocal'" and pyq.contains(n.body, lambda x: isinstance(x, ast.Call) and norm(x) == "self.parent.access(node, i)") is not None)
    reg = pyq.contains(dn, lambda n: isinstance(n, ast.Call) and norm(n) == "self.nonlocal_vars.update({name: node for name in node.names})")
    ctx.check(up is not None and reg is not None, "OUTERVAR-RESOLVE", f"{SC}|ScopeFn.define_nonlocal|register", "nonlocal names must be recorded and passed up to the parent scope (so that let can rename them)", SC, dn.lineno,
              detail="nonlocal_vars.update; parent.access(node, i)")
    fx = sc.func("ScopeFn.__exit__")
    ctx.require(fx is not None, "ScopeFn.__exit__ not found")
    ctx.check(norm(fx.body[0]) == "self.defined.difference_update(self.nonlocal_vars.keys())", "OUTERVAR-RESOLVE", f"{SC}|ScopeFn.__exit__|nonlocal-not-defined",
              "names declared nonlocal in a function must be removed from its `defined` set when the scope closes; otherwise an inner (nonlocal x) stops at this function instead of reaching the real binding",
              SC, fx.lineno, witness="two nested functions both declaring (nonlocal x) for a module-level x: `nonlocal x` is emitted instead of `global x`", detail="defined -= nonlocal_vars")
    ge = sc.func("ScopeGlobal.__exit__")
    ctx.require(ge is not None, "ScopeGlobal.__exit__ not found")
    ctx.check(pyq.contains(ge, lambda n: isinstance(n, ast.If) and norm(n.test) == "not self.defined.issuperset(nonlocal_vars)" and isinstance(n.body[0], ast.Raise)) is not None,
              "DECL-ERROR", f"{SC}|ScopeGlobal.__exit__|no-binding", "a module-level nonlocal of an undefined name is no longer rejected", SC, ge.lineno, detail="raise SyntaxError")
    ld = sc.func("ScopeLet.define_nonlocal")
    ctx.require(ld is not None, "ScopeLet.define_nonlocal not found")
    t = flat(ld)
    ctx.check("while isinstance(cur, ScopeLet)" in t and "cur.define_nonlocal(node, root)" in t and "cur.bindings[name] = name" in t and "node.names.remove(name)" in t, "OUTERVAR-RESOLVE",
              f"{SC}|ScopeLet.define_nonlocal|walk", "a declaration inside a let must be applied to the enclosing lets of the same Python scope and then passed to it", SC, ld.lineno, detail="walk lets; delegate")
    # the walk over the lets of this Python scope starts at the declaring let itself (a `global` declared directly inside
    # the let that binds the name must unbind it there)
    wl = next((n for n in pyq.walk_no_nested(ld) if isinstance(n, ast.While)), None)
    wv = next((c.args[0].id for c in ast.walk(wl.test) if isinstance(c, ast.Call) and dotted(c.func) == "isinstance" and c.args and isinstance(c.args[0], ast.Name)), None) if wl is not None else None
    inits = [v_ for t_, v_, st_ in pyq.assign_pairs(ld) if isinstance(t_, ast.Name) and t_.id == wv and not any(st_ is x for x in ast.walk(wl))] if wv else []
    ctx.decide("OUTERVAR-RESOLVE", f"{SC}|ScopeLet.define_nonlocal|walk start", None if not inits else (True if all(isinstance(v_, ast.Name) and v_.id == "self" for v_ in inits) else (False if any(norm(v_) == "self.parent" for v_ in inits) else None)),
               f"the walk over the enclosing lets starts at `{norm(inits[0]) if inits else None}`; it must start at the declaring let itself", SC, ld.lineno,
               witness="(let [x 1] (global x) (setv x 2)) still assigns the let's variable, not the module's", detail="cur = self")
    check_scope_routing(ctx, comp)
    check_scopefn_params(ctx, comp, "SCOPE-PARAMS")
    ctx.floor("OUTERVAR-RESOLVE", 12)


SELFTESTS = [
    dict(name="resolve skipped for get_expr", file=CP, old="    result.stmts = list(map(ResolveOuterVars().visit, result.stmts))\n", new="    if not get_expr:\n        result.stmts = list(map(ResolveOuterVars().visit, result.stmts))\n",
         rule="OUTERVAR-CLOSED", key="resolve-before-root"),
    dict(name="nonlocal stays defined", file=SC, old="        self.defined.difference_update(self.nonlocal_vars.keys())\n        for node in self.seen:\n            if node.name not in self.defined:",
         new="        for node in self.seen:\n            if node.name not in self.defined or node.name in self.nonlocal_vars:", rule="OUTERVAR-RESOLVE", key="ScopeFn.__exit__"),
    dict(name="global arm always global", file=SC, old="                if not scope.defined.issuperset(undefined):\n                    # emit nonlocal, let python raise the error\n                    break\n", new="",
         rule="OUTERVAR-RESOLVE", key="global arm"),
    dict(name="SyntaxError not converted", file=R, old="    try:\n        compiler.scope.define_nonlocal(ret, root)\n    except SyntaxError as e:\n        compiler._syntax_error(expr, e.msg)\n", new="    compiler.scope.define_nonlocal(ret, root)\n",
         rule="DECL-ERROR", key="convert"),
    dict(name="scope drops vararg", file=SC, old="args.args, args.posonlyargs, args.kwonlyargs, [args.vararg, args.kwarg]", new="args.posonlyargs, args.args, args.kwonlyargs, [args.kwarg]", rule="SCOPE-PARAMS", key="args.vararg"),
]
