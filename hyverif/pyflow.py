"""Reaching definitions for structured Python code (no gotos): a syntax-directed walk.

For every ast.Name load inside a function, `Reach.at[id(node)]` is the list of definition
records ("how" tuples, see idflow.Fn) that may reach it.  Loads inside nested functions /
lambdas of variables of the enclosing function see all definitions of that variable
(closures are called later, at an unknown time).
"""
from __future__ import annotations

import ast

from .pysrc import FUNC


class Reach:
    def __init__(self, func):
        self.func = func
        self.at = {}
        self.all_defs = {}
        params = func.args.posonlyargs + func.args.args + func.args.kwonlyargs
        env = {a.arg: [("param", a.arg)] for a in params}
        if func.args.vararg:
            env[func.args.vararg.arg] = [("param", func.args.vararg.arg)]
        if func.args.kwarg:
            env[func.args.kwarg.arg] = [("param", func.args.kwarg.arg)]
        for k, v in env.items():
            self.all_defs.setdefault(k, []).extend(v)
        self._nested = []
        self._loops = []
        self.block(func.body, env)
        # nested closures: flow-insensitive view of the outer variables
        for n in self._nested:
            self._closure(n)

    # -- environment helpers ---------------------------------------------------
    @staticmethod
    def copy(env):
        return {k: list(v) for k, v in env.items()}

    @staticmethod
    def merge(a, b):
        out = {}
        for k in set(a) | set(b):
            seen = []
            for h in a.get(k, []) + b.get(k, []):
                if not any(h is x or h == x for x in seen):
                    seen.append(h)
            out[k] = seen
        return out

    def define(self, env, name, how):
        env[name] = [how]
        self.all_defs.setdefault(name, []).append(how)

    def bind(self, target, how, env):
        if isinstance(target, ast.Name):
            self.define(env, target.id, how)
        elif isinstance(target, (ast.Tuple, ast.List)):
            for i, t in enumerate(target.elts):
                if isinstance(t, ast.Starred):
                    self.bind(t.value, ("rest", how, i), env)
                else:
                    self.bind(t, ("elem", how, i), env)
        elif isinstance(target, (ast.Attribute, ast.Subscript)):
            self.expr(target.value, env)
            if isinstance(target, ast.Subscript):
                self.expr(target.slice, env)

    # -- expressions -------------------------------------------------------------
    def expr(self, e, env):
        if e is None:
            return
        if isinstance(e, ast.Name):
            if isinstance(e.ctx, ast.Load):
                self.at[id(e)] = list(env.get(e.id, [])) or None
            return
        if isinstance(e, ast.NamedExpr):
            self.expr(e.value, env)
            self.bind(e.target, ("val", e.value), env)
            return
        if isinstance(e, ast.Lambda):
            self._nested.append(e)
            return
        if isinstance(e, (ast.ListComp, ast.SetComp, ast.GeneratorExp, ast.DictComp)):
            loc = self.copy(env)
            for g in e.generators:
                self.expr(g.iter, loc)
                self.bind(g.target, ("iter", g.iter), loc)
                for c in g.ifs:
                    self.expr(c, loc)
            if isinstance(e, ast.DictComp):
                self.expr(e.key, loc)
                self.expr(e.value, loc)
            else:
                self.expr(e.elt, loc)
            return
        if isinstance(e, ast.IfExp):
            self.expr(e.test, env)
            self.expr(e.body, env)
            self.expr(e.orelse, env)
            return
        for c in ast.iter_child_nodes(e):
            if isinstance(c, ast.expr):
                self.expr(c, env)
            elif isinstance(c, ast.keyword):
                self.expr(c.value, env)
            elif isinstance(c, ast.comprehension):
                pass

    # -- statements ---------------------------------------------------------------
    def block(self, stmts, env):
        """Returns True if the block definitely does not fall through."""
        for st in stmts:
            if self.stmt(st, env):
                return True
        return False

    def stmt(self, st, env):
        if isinstance(st, FUNC):
            for d in st.decorator_list:
                self.expr(d, env)
            for d in st.args.defaults + [x for x in st.args.kw_defaults if x is not None]:
                self.expr(d, env)
            self.define(env, st.name, ("def", st))
            self._nested.append(st)
            return False
        if isinstance(st, ast.ClassDef):
            self.define(env, st.name, ("def", st))
            return False
        if isinstance(st, ast.Assign):
            self.expr(st.value, env)
            for t in st.targets:
                self.bind(t, ("val", st.value), env)
            return False
        if isinstance(st, ast.AnnAssign):
            if st.value is not None:
                self.expr(st.value, env)
                self.bind(st.target, ("val", st.value), env)
            return False
        if isinstance(st, ast.AugAssign):
            self.expr(st.value, env)
            if isinstance(st.target, ast.Name):
                prev = list(env.get(st.target.id, []))
                self.at[id(st.target)] = prev or None
                how = ("aug", st.value, tuple(prev))
                self.define(env, st.target.id, how)
            else:
                self.bind(st.target, ("val", st.value), env)
            return False
        if isinstance(st, (ast.Expr,)):
            self.expr(st.value, env)
            return False
        if isinstance(st, ast.Return):
            self.expr(st.value, env)
            return True
        if isinstance(st, ast.Raise):
            self.expr(st.exc, env)
            self.expr(st.cause, env)
            return True
        if isinstance(st, ast.Break):
            if self._loops:
                self._loops[-1].append(self.copy(env))
            return True
        if isinstance(st, ast.Continue):
            return True
        if isinstance(st, ast.If):
            self.expr(st.test, env)
            e1, e2 = self.copy(env), self.copy(env)
            t1 = self.block(st.body, e1)
            t2 = self.block(st.orelse, e2)
            if t1 and t2:
                new = self.merge(e1, e2)
                env.clear(); env.update(new)
                return True
            new = e2 if t1 else e1 if t2 else self.merge(e1, e2)
            env.clear(); env.update(new)
            return False
        if isinstance(st, (ast.For, ast.AsyncFor)):
            self.expr(st.iter, env)
            self._loops.append([])
            for _ in range(2):
                loop = self.copy(env)
                self.bind(st.target, ("iter", st.iter), loop)
                self.block(st.body, loop)
                new = self.merge(env, loop)
                env.clear(); env.update(new)
            breaks = self._loops.pop()
            self.block(st.orelse, env)
            for b in breaks:
                new = self.merge(env, b)
                env.clear(); env.update(new)
            return False
        if isinstance(st, ast.While):
            self._loops.append([])
            for _ in range(2):
                self.expr(st.test, env)
                loop = self.copy(env)
                self.block(st.body, loop)
                new = self.merge(env, loop)
                env.clear(); env.update(new)
            breaks = self._loops.pop()
            self.block(st.orelse, env)
            for b in breaks:
                new = self.merge(env, b)
                env.clear(); env.update(new)
            return False
        if isinstance(st, (ast.With, ast.AsyncWith)):
            for it in st.items:
                self.expr(it.context_expr, env)
                if it.optional_vars is not None:
                    self.bind(it.optional_vars, ("with", it.context_expr), env)
            return self.block(st.body, env)
        if isinstance(st, ast.Try) or type(st).__name__ == "TryStar":
            before = self.copy(env)
            body_env = self.copy(env)
            tb = self.block(st.body, body_env)
            outs = []
            if not tb:
                oe = self.copy(body_env)
                to = self.block(st.orelse, oe)
                if not to:
                    outs.append(oe)
            for h in st.handlers:
                he = self.merge(before, body_env)
                self.expr(h.type, he)
                if h.name:
                    self.define(he, h.name, ("exc", h))
                th = self.block(h.body, he)
                if not th:
                    outs.append(he)
            if outs:
                new = outs[0]
                for o in outs[1:]:
                    new = self.merge(new, o)
            else:
                new = self.merge(before, body_env)
            env.clear(); env.update(new)
            tf = self.block(st.finalbody, env)
            return tf or not outs
        if isinstance(st, ast.Delete):
            return False
        if isinstance(st, (ast.Global, ast.Nonlocal, ast.Pass, ast.Import, ast.ImportFrom)):
            if isinstance(st, (ast.Import, ast.ImportFrom)):
                for a in st.names:
                    self.define(env, (a.asname or a.name).split(".")[0], ("import", st))
            return False
        if isinstance(st, ast.Assert):
            self.expr(st.test, env)
            self.expr(st.msg, env)
            return False
        if isinstance(st, ast.Match):
            self.expr(st.subject, env)
            outs = []
            for c in st.cases:
                ce = self.copy(env)
                for n in ast.walk(c.pattern):
                    nm = getattr(n, "name", None) or getattr(n, "rest", None)
                    if isinstance(nm, str):
                        self.define(ce, nm, ("match", n))
                self.expr(c.guard, ce)
                if not self.block(c.body, ce):
                    outs.append(ce)
            new = self.copy(env)
            for o in outs:
                new = self.merge(new, o)
            env.clear(); env.update(new)
            return False
        # anything else: visit child expressions
        for c in ast.iter_child_nodes(st):
            if isinstance(c, ast.expr):
                self.expr(c, env)
        return False

    # -- closures --------------------------------------------------------------------
    def _closure(self, node):
        inner = Reach.__new__(Reach)
        inner.func = node
        inner.at = self.at
        inner.all_defs = {}
        inner._nested = []
        inner._loops = []
        args = node.args
        env = {}
        for a in args.posonlyargs + args.args + args.kwonlyargs + ([args.vararg] if args.vararg else []) + ([args.kwarg] if args.kwarg else []):
            env[a.arg] = [("param", a.arg)]
        # locally assigned names (and nonlocal declarations)
        local = set(env)
        nonlocal_names = set()
        body = node.body if isinstance(node.body, list) else [ast.Expr(node.body)]
        for n in ast.walk(ast.Module(body=body, type_ignores=[])):
            if isinstance(n, ast.Nonlocal):
                nonlocal_names.update(n.names)
        for n in ast.walk(ast.Module(body=body, type_ignores=[])):
            if isinstance(n, ast.Name) and isinstance(n.ctx, ast.Store) and n.id not in nonlocal_names:
                local.add(n.id)
        # outer variables: every definition the outer function ever makes
        for k, v in self.all_defs.items():
            if k not in local:
                env[k] = list(v)
        for nm in nonlocal_names:
            env[nm] = list(self.all_defs.get(nm, []))
        inner.all_defs = {k: list(v) for k, v in self.all_defs.items()}
        if isinstance(node, ast.Lambda):
            inner.expr(node.body, env)
        else:
            inner.block(node.body, env)
        # nonlocal writes made by the closure are definitions of the outer variable
        for nm in nonlocal_names:
            for h in inner.all_defs.get(nm, []):
                if h not in self.all_defs.setdefault(nm, []):
                    self.all_defs[nm].append(h)
        for n in inner._nested:
            inner._closure(n)
