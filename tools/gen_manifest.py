#!/venv/bin/python
"""Regenerate /verif/MANIFEST.json from the table below (claimed checks = modules
present in hyverif/props and listed in CLAIMS; everything else goes to
not_applicable with its reason)."""
import json
import os
import sys

HERE = os.path.dirname(os.path.dirname(os.path.abspath(__file__)))
sys.path.insert(0, HERE)

# id -> (technique, level text, level note, design ref)
CLAIMS = {
    "C13": (
        "hash-order taint dataflow (set-typed expressions and their uses) + entropy-source use check",
        "Every set-typed expression and every per-process entropy source (id/hash/time/random/...) in the modules on the compile path is enumerated and each use classified; a use that lets hash order or a per-process value reach emitted code is reported. Decides the structural necessary condition 'no hash-ordered iteration feeds the output', not byte equality of concrete outputs.",
        "Typing of sets is by construction sites (set(), {..}, set algebra, attributes initialised to sets); sets that arrive through untyped parameters are not seen. Nondeterminism inside user macros is out of scope.",
        "4/C13",
    ),
}

NOT_APPLICABLE = {
    "C22": "numeric literal values are computed by Python's int/float/complex constructors at run time from strings; no structural clause of the source carries the property, so static analysis cannot decide it",
    "C27": "round-trip equality of arbitrary values is a run-time relation over values; its only structural clause (the cycle guard precedes recursion and is undone in a finally) is the same code as C28 and is decided there",
    "C32": "mangle's guarantees rest on per-code-point Unicode classification (str.isidentifier, unicodedata.name, NFKC), observable only by evaluating it; no sound static argument in reach bounds it",
}

DESIGNED_NOT_BUILT = "designed in DESIGN.md (section 4) but the check is not built yet; not claimed through a stub"


def main():
    props = [json.loads(l) for l in open(os.path.join(HERE, "properties.jsonl"))]
    checks = []
    na = []
    for p in props:
        pid = p["id"]
        have = os.path.exists(os.path.join(HERE, "hyverif", "props", pid.lower() + ".py"))
        if pid in CLAIMS and have:
            tech, text, note, ref = CLAIMS[pid]
            checks.append(
                dict(
                    property_id=pid,
                    quick_cmd=f"/venv/bin/python -m hyverif {pid} --tier quick",
                    thorough_cmd=f"/venv/bin/python -m hyverif {pid} --tier thorough",
                    evidence_file=f"/verif/evidence/{pid}.json",
                    replay_cmd_template=f"/venv/bin/python -m hyverif {pid} --tier quick  # replay file {{path}} names rule+construct",
                    engine="hyverif",
                    level_claimed=dict(category="other", text=text, design_ref=ref),
                    level_note=note,
                    technique="static analysis: " + tech,
                )
            )
        else:
            na.append(dict(property_id=pid, reason=NOT_APPLICABLE.get(pid, DESIGNED_NOT_BUILT)))
    man = dict(
        version=1,
        setup_cmd="/venv/bin/python -m hyverif.setup_check",
        hooks=dict(
            guard="HY_VERIF",
            enable="no hooks: the checks only read and parse /repo's sources; nothing is instrumented",
            baseline_off_cmd="cd /repo && /venv/bin/python -m pytest -ra -q -p no:cacheprovider --timeout=900 --continue-on-collection-errors",
            source_commits=[],
            add_only=True,
        ),
        engines=[
            dict(
                name="hyverif",
                path="/verif/hyverif",
                serves_properties=[c["property_id"] for c in checks],
                kind_free_text="repository-specific static analysers over the stdlib ast of hy/**/*.py and an own s-expression reader for hy/**/*.hy (dataflow, placement, provenance, pairing, table agreement); stdlib only, nothing from /repo is imported or executed",
            )
        ],
        checks=checks,
        notes="Exit protocol: 0 held (KNOWN-FINDING lines for entries of known_findings.json), 1 + VIOLATION line, 2 + ANALYSIS-ERROR when the analysis itself is broken (vanished anchor, unparsable source). Thorough tier adds rule self-validation on in-memory seeded breaks.",
        not_applicable=na,
    )
    with open(os.path.join(HERE, "MANIFEST.json"), "w") as f:
        json.dump(man, f, indent=1)
        f.write("\n")
    print(f"claimed {len(checks)}, not applicable {len(na)}")


if __name__ == "__main__":
    main()
