"""C14 — hy2py output is valid Python: necessary conditions for ast.unparse to succeed and re-parse."""
CANON = True
STRICT = {"H2P-SAME", "R-ID-MANGLE", "O0", "O1", "OUTERVAR-CLOSED", "H2P-LAMBDA"}

import ast

from .. import compq, core, pm, pyq
from ..pysrc import dotted, flat, fold, module_env, norm
from . import c05, c07, c10, c34

CM = "hy/cmdline.py"
CO = "hy/compat.py"


def _transfer(ctx, sub, rules, rename=None):
    for i in sub.instances:
        if i["rule"] in rules:
            ctx.instances.append(dict(i))
    for f in sub.findings:
        if f.rule in rules:
            ctx.findings.append(f)
    for u in sub.unresolved:
        if u["rule"] in rules:
            ctx.unresolved.append(u)
    for r in rules:
        if r in sub.rules:
            ctx.rules[r] = sub.rules[r]


def _from_read_many(arg, func, depth=0):
    """Does the stream handed to hy_compile come from read_many (directly, or through wrappers that take it as an argument)?"""
    if any(isinstance(c, ast.Call) and dotted(c.func) == "read_many" for c in ast.walk(arg)):
        return True
    if depth > 4:
        return False
    for nm in [n for n in ast.walk(arg) if isinstance(n, ast.Name)]:
        defs = [n for n in ast.walk(func) if isinstance(n, ast.Assign) and any(isinstance(t, ast.Name) and t.id == nm.id for t in n.targets)]
        if defs and all(_from_read_many(d.value, func, depth + 1) for d in defs):
            return True
    return False


def _atoms(guards):
    from .c11 import _nnf_atoms

    return _nnf_atoms(guards)


def check(ctx, src):
    ctx.rule("H2P-SAME", "hy2py_worker unparses exactly the object hy_compile returned")
    ctx.rule("H2P-KEYWORDS", "the unparse wrapper (keyword mincing) works on a deep copy, never rewrites Constant values, and only rewrites identifier strings that are Python keywords other than True/False/None")
    ctx.rule("H2P-LAMBDA", "no annotated parameter is emitted inside a Lambda (Python cannot print it)")
    comp = compq.Compiler(src)
    cm = src.py(CM)
    w = cm.func("hy2py_worker")
    ctx.require(w is not None, "hy2py_worker not found")
    asg = pyq.contains(w, lambda n: isinstance(n, ast.Assign) and isinstance(n.value, ast.Call) and dotted(n.value.func) == "hy_compile")
    ctx.need(asg is not None, "hy2py_worker: hy_compile call not found")
    v = norm(asg.targets[0])
    un = [c for c in pyq.calls(w) if dotted(c.func) == "ast.unparse"]
    same = len(un) == 1 and norm(un[0].args[0]) == v
    whole = _from_read_many(asg.value.args[0], w)
    ctx.decide("H2P-SAME", f"{CM}|hy2py_worker|unparse(compiled)", False if (un and not same) else (True if same and whole else None),
               f"hy2py prints `{norm(un[0]) if un else None}`; it must unparse the module `{v}` that hy_compile returned for the whole stream",
               CM, w.lineno, witness="hy2py prints code for a different tree than the one that is executed", detail=f"ast.unparse({v})")
    stores = [n for n in ast.walk(w) if isinstance(n, (ast.Assign, ast.AugAssign)) and norm(n.targets[0] if isinstance(n, ast.Assign) else n.target).startswith(v) and n is not asg]
    ctx.check(not stores, "H2P-SAME", f"{CM}|hy2py_worker|not modified", f"the compiled module is modified before printing: {[norm(s)[:40] for s in stores]}", CM, w.lineno, detail="unmodified")
    # --- keyword mincing
    co = src.py(CO)
    ru = co.func("rewriting_unparse")
    ctx.require(ru is not None, "rewriting_unparse not found")
    IDENT_FIELDS = {"id", "attr", "arg", "name", "asname", "module", "rest"}  # str-valued identifier fields of the ASDL
    sa = pyq.contains(ru, lambda n: isinstance(n, ast.Call) and dotted(n.func) == "setattr" and len(n.args) == 3)
    ctx.need(sa is not None, "rewriting_unparse: the setattr that rewrites an identifier was not recognised")
    atoms = _atoms(pyq.guards(sa, ru))
    fvar = sa.args[1].id if isinstance(sa.args[1], ast.Name) else None
    loop = next((n for n in ast.walk(ru) if isinstance(n, ast.For) and isinstance(n.target, ast.Name) and n.target.id == fvar), None)
    walk = next((n for n in ast.walk(ru) if isinstance(n, ast.For) and isinstance(n.iter, ast.Call) and dotted(n.iter.func) == "ast.walk"), None)
    # (1) a deep copy is walked and the same object is printed by the real unparse
    obj = walk.iter.args[0].id if walk is not None and walk.iter.args and isinstance(walk.iter.args[0], ast.Name) else None
    cp = pyq.contains(ru, lambda n: isinstance(n, ast.Assign) and isinstance(n.value, ast.Call) and dotted(n.value.func) == "copy.deepcopy" and isinstance(n.targets[0], ast.Name) and n.targets[0].id == obj)
    ret = pyq.contains(ru, lambda n: isinstance(n, ast.Return) and isinstance(n.value, ast.Call) and dotted(n.value.func) == "true_unparse" and n.value.args and isinstance(n.value.args[0], ast.Name) and n.value.args[0].id == obj)
    ctx.decide("H2P-KEYWORDS", f"{CO}|rewriting_unparse|copy", None if obj is None else (cp is not None and ret is not None), "the wrapper must work on a deep copy and finish with the real unparse of that copy", CO, ru.lineno,
               witness="calling hy2py mutates the AST that is then executed", detail="deepcopy; true_unparse")
    # (2) which fields are looked at
    fields = None
    if loop is not None:
        if dotted(loop.iter) is not None and dotted(loop.iter).endswith("._fields"):
            fields = "ALL"
        else:
            try:
                fields = set(fold(loop.iter, module_env(co, {dotted(loop.iter) or ""})))
            except Exception:
                fields = None
                for n in ast.walk(co.tree):
                    if isinstance(n, ast.Assign) and isinstance(n.targets[0], ast.Name) and n.targets[0].id == dotted(loop.iter):
                        try:
                            fields = set(fold(n.value))
                        except Exception:
                            fields = None
    v = None if fields is None else (fields == "ALL" or IDENT_FIELDS <= fields)
    ctx.decide("H2P-KEYWORDS", f"{CO}|rewriting_unparse|identifier fields", v, f"the wrapper looks only at the fields {sorted(fields) if isinstance(fields, set) else fields}; the identifier fields {sorted(IDENT_FIELDS - fields) if isinstance(fields, set) else ''} are never minced",
               CO, ru.lineno, witness="a keyword-named capture such as (match x {\"k\" v #** else} …) is printed as `**else`: SyntaxError", detail="all fields / every identifier field")
    # (3) string constants are never rewritten
    const_safe = any(a in ("type(node) is not ast.Constant", "not isinstance(node, ast.Constant)") for a in atoms) or (isinstance(fields, set) and not ({"value", "kind"} & fields))
    ctx.decide("H2P-KEYWORDS", f"{CO}|rewriting_unparse|constants untouched", None if fields is None else const_safe, "string constants that happen to be keywords must not be rewritten", CO, ru.lineno,
               witness='the literal "class" is printed as a mangled word', detail="Constant nodes are skipped")
    # (4) only keyword strings other than True/False/None
    at = pyq.atoms(sa, ru)
    vname = None
    iskw = next((a for a in at if isinstance(a.node, ast.Call) and dotted(a.node.func) == "keyword.iskeyword" and a.node.args and isinstance(a.node.args[0], ast.Name)), None)
    if iskw is not None:
        vname = iskw.node.args[0].id
    isstr = any(a == f"type({vname}) is str" or a == f"isinstance({vname}, str)" for a in at) if vname else False
    excl = None
    for a in at:
        n = a.node
        if isinstance(n, ast.Compare) and len(n.ops) == 1 and isinstance(n.ops[0], ast.NotIn) and isinstance(n.left, ast.Name) and n.left.id == vname:
            try:
                excl = set(fold(n.comparators[0], module_env(co, {dotted(n.comparators[0]) or ""})))
            except Exception:
                for st in ast.walk(co.tree):
                    if isinstance(st, ast.Assign) and isinstance(st.targets[0], ast.Name) and st.targets[0].id == dotted(n.comparators[0]):
                        try:
                            excl = set(fold(st.value))
                        except Exception:
                            pass
    verdict = None if (iskw is None or excl is None) else (isstr and excl == {"True", "False", "None"})
    ctx.decide("H2P-KEYWORDS", f"{CO}|rewriting_unparse|which strings", verdict, f"only identifier fields holding a Python keyword (other than True/False/None) may be rewritten (str test: {isstr}; excluded: {sorted(excl) if excl else excl})", CO, ru.lineno,
               witness="None / True are printed as mangled words", detail="str, keyword, not a constant name")
    ctx.check(pm.find(ru, "setattr(node, field, chr(ord(v[0]) - ord('a') + ord('𝐚')) + v[1:])") is not None, "H2P-KEYWORDS", f"{CO}|rewriting_unparse|NFKC-equivalent",
              "the replacement must be the NFKC-equivalent spelling (first letter in MATHEMATICAL BOLD)", CO, ru.lineno, detail="bold first letter")
    # --- shared rules
    core.transfer(ctx, src, c10, {"O0", "O1"})
    core.transfer(ctx, src, c34, {"R-ID-MANGLE", "R-ID-MANGLE-STORE"})
    core.transfer(ctx, src, c07, {"OUTERVAR-CLOSED"})
    core.transfer(ctx, src, c05, {"FN-SHAPE"}, key_filter=lambda k: "has_annotations" in k or "lambda-condition" in k, rename={"FN-SHAPE": "H2P-LAMBDA"})
    ctx.assume("behavioural equality of the printed source and the AST is not decided; only necessary conditions for unparse/re-parse are")
    ctx.floor("O0", 150)
    ctx.floor("R-ID-MANGLE", 45)


SELFTESTS = [
    dict(name="constants minced", file=CO, old="            if type(node) is ast.Constant:\n                # Don't touch string literals.\n                continue\n", new="", rule="H2P-KEYWORDS", key="constants untouched"),
    dict(name="except name unmangled", file=compq.RM, old="            name = mangle(compiler._nonconst(name))\n\n        if exceptions == \"ALL\":", new="            name = str(compiler._nonconst(name))\n\n        if exceptions == \"ALL\":", rule="R-ID-MANGLE", key="compile_try_expression"),
    dict(name="annotated rest in lambda", file=compq.RM, old="for param in (posonly or []) + args + kwonly + [rest, kwargs]", new="for param in (posonly or []) + args + kwonly", rule="H2P-LAMBDA", key="has_annotations"),
    dict(name="TypeAlias without type_params", file=compq.RM, old="        **(digest_type_params(compiler, tp) or dict(type_params = [])))", new="        **digest_type_params(compiler, tp))", rule="O0", key="compile_deftype"),
]
