#!/venv/bin/python
"""Regenerate /verif/MANIFEST.json from the table below (claimed checks = modules
present in hyverif/props and listed in CLAIMS; everything else goes to
not_applicable with its reason)."""
import json
import os
import sys

HERE = os.path.dirname(os.path.dirname(os.path.abspath(__file__)))
sys.path.insert(0, HERE)

# id -> (technique, level text, level note, design ref)
CLAIMS = {
    "C14": (
        "composition of the identifier-provenance analysis (C34), the field-completeness / None-in-required-field obligations (C10), the OuterVar closure rule (C07), the Lambda-annotation rule (C05) and shape rules on hy2py_worker and the keyword-mincing unparse wrapper",
        "Decides necessary conditions for ast.unparse to succeed and re-parse: hy2py prints exactly the module hy_compile returned; every identifier written into the AST is mangled, reserved or copied; every field unparse reads is supplied and required fields are never None; no repo-defined node class survives; annotated parameters are never put inside a Lambda; the mincing wrapper works on a copy and leaves constants alone. Behavioural equality of source and AST is not decided.",
        "Known pre-existing deviation outside these rules: operator precedence of negative literals in `**` is ast.unparse's own behaviour.",
        "4/C14",
    ),
    "C15": (
        "compile-time/run-time mirror rule in compile_require (both calls built from the same single definitions), run-time target rule in macros.require, predicate and structure rules in the importer",
        "Decides that the run-time hy.macros.require / require-reader calls written into the bytecode name the same module, assignments and prefix as the compile-time calls that guard them, that require's submodule fallback keeps the resolved target when called from bytecode, and that a file is compiled as Hy exactly when its (case-sensitive) extension is not another Python source suffix, always finishing through Python's source_to_code. Equality of module values across load paths is not decided.",
        "",
        "4/C15",
    ),
    "C16": (
        "call-count / must-precede rule for compiler.eval, per-root result expression, exception-handler shape, compile-once rule for sub-forms (a with manager is handed on as a Result)",
        "Decides that the staging forms evaluate `(do body)` exactly once at compile time before returning, that eval-when-compile emits nothing, eval-and-compile emits the body once, do-mac compiles the promoted value whatever its truthiness, that evaluation errors are wrapped except internal ones, and that no compile function compiles one sub-form twice on a path (which would run staging forms twice). Effect counts over real compile/run/cached histories are not simulated.",
        "",
        "4/C16",
    ),
    "C17": (
        "position-source classification at every asty construction, position-attribute table, synthesized-form rule (.replace before compile), reader position ownership and capture order",
        "Decides that located nodes take their position from a model or node of the current form (possibly-empty Results as position sources are listed), that Asty maps the four position attributes correctly, that stored names and the implicit import are located, that every form the compiler synthesises gets the user's position before it is compiled, and the reader-side ownership and ordering of position state. The line a concrete traceback shows is not simulated.",
        "",
        "4/C17",
    ),
    "C18": (
        "exception-escape analysis: handler shape of try_parse_one_form, lexical containment of all dispatch sites, raise-type check over the call-graph region reachable outside the try, class hierarchy",
        "Decides that every call into handler or reader-macro code is inside the one try that re-raises LexException and converts every other Exception, that the ten functions that run outside it only raise LexException subclasses and only call character primitives, and that PrematureEndOfInput < LexException < HySyntaxError < SyntaxError. Termination and implicit exceptions of the underlying stream are not decided.",
        "",
        "4/C18",
    ),
    "C19": (
        "EOF-sentinel discipline: classification of every getc()/peekc() use (truthiness test raising PrematureEndOfInput / dominated / optional look-ahead / structurally post-dominated by a raising read), converse guard rule, eof_ok caller table, handler order, REPL routing",
        "Decides, for every cut point at once, that no read of the end-of-input sentinel can lead to an error other than PrematureEndOfInput, that PrematureEndOfInput is only raised on an observed end of input, that only the four constructs that may end with the input read with eof_ok=True, that try_parse_one_form passes PrematureEndOfInput through, that the REPL turns it into a continuation, and that reader state is reset per source.",
        "Known finding recorded: `#` followed by whitespace is reported as premature end of input (pinned by an existing test). Cuts inside a dotted identifier (`a.`) are a LexException by design of as_identifier and outside these rules.",
        "4/C19",
    ),
    "C20": (
        "regex-AST inspection of the whitespace class, None-propagation rule through the three consumers of try_parse_one_form, three-way sugar table agreement (reader decorators / hy.repr inverse table / compiler macro names)",
        "Decides that the whitespace class is exactly the six ASCII characters, that identifiers end at whitespace or NON_IDENT characters (`;` included), that comments end only at a newline, that `;` and `#_` handlers return None and every consumer skips None, that the sugar heads agree three ways (including the argument swap of #^), and that top-level reading yields forms one by one until the end of input. Equality of model lists on concrete texts is not decided.",
        "",
        "4/C20",
    ),
    "C21": (
        "ownership search for the position state and the underlying stream, shape of the getc step, capture-order rule in try_parse_one_form, no-shared-model rule",
        "Thin: decides who may write the position (getc, _set_source), who may read the stream, that hy_reader.py consumes only through getc, the shape of the per-character step (line advances exactly at \\n), that start/end are captured around the handler and only unset positions are filled, and that no module-level model object is handed out twice. The arithmetic relation between regions and text is value-level and not decided.",
        "",
        "4/C21",
    ),
    "C23": (
        "table comparison of the accepted escape characters against Python's language-reference table, prefix predicate shape, order rule for newline normalisation, raw-handling rules",
        "Decides that the accepted escape characters equal Python's (by prefix kind), the prefix predicate, that a backslash toggles the escaping state for every prefix, that CR/CRLF normalisation is unconditional and precedes encoding and decoding, that decoding uses Python's own codecs only without `r`, and that bracket strings are raw, drop one leading newline and record their delimiter. Decoded values and the closing-delimiter matcher are value-level and not decided.",
        "",
        "4/C23",
    ),
    "C24": (
        "table and shape rules on read_fcomponent / read_chars_until / compile_fcomponent / FString.__new__ (error and table clauses only)",
        "Thin: decides the accepted conversion characters and their codes, that `=` adds !r exactly when there is neither conversion nor `:`, that {{ }} are literal, single } is an error, \\N{…} is skipped only in non-raw strings, that a format spec is read as nested components, and that FormattedValue receives value, conversion and spec. The evaluated string is Python's and not decided.",
        "",
        "4/C24",
    ),
    "C25": (
        "registration-exhaustiveness, attribute-coverage and children-coverage rules over the s-expression tree of hy_repr.hy",
        "Decides that every model class the reader produces has a printer (or a reviewed fallback), that printers consult every constructor attribute the reader sets (brackets, conversion, is_tstring), that sequence printers print all children (the whole format spec of a field; every component of an f-string), and that bracket f-strings print their text raw. Textual round-trip of concrete models is not decided.",
        "",
        "4/C25",
    ),
    "C26": (
        "single-source-of-truth rules: the constructors' validity predicates are the reader's own functions and sets, applied to every non-parser input",
        "Thin: decides that Symbol() validates through as_identifier for every non-parser input, that Keyword() and as_identifier's reader-less arm use HyReader.NON_IDENT and isnormalizedspace, and that String/FString reject the closing delimiter for every non-None delimiter. Equivalence of predicates over all strings is not decided.",
        "",
        "4/C26",
    ),
    "C30": (
        "attribute-coverage rule between render_quoted_form's arms and the model constructors' keyword parameters; promotion rule in as_model",
        "Decides that for every model class each constructor keyword beyond the content is emitted by the arm handling that class under an `is not None` test, that the rebuilt form calls hy.models.<own class> over all children, and that as_model restores a model's attributes whenever its input is a model. Equality of evaluated results is not decided.",
        "",
        "4/C30",
    ),
    "C31": (
        "level-constant and propagation rules in render_quoted_form / compile_quote",
        "Thin: decides the entry levels (Inf / 0), head recognition through mangling, substitution exactly at level 0, the +1/-1 level steps, that every child is rendered at the current level, and the (unpack-iterable (or X [])) splice. Reference results of concrete templates are not decided.",
        "",
        "4/C31",
    ),
    "C33": (
        "regex-AST alphabet containment (re._parser) between what mangle emits and what unmangle's pattern accepts; inverse replacement pairs; call-shape rule for re.sub",
        "Thin (grammar agreement only): decides that the escape alphabet of mangle is contained in unmangle's character class, that the replacement pairs are inverses, that both use MANGLE_DELIM and hyx_, and that re.sub is called without a count. The round trip on concrete names is not decided.",
        "",
        "4/C33",
    ),
    "C35": (
        "lookup-order rule in macroexpand, push/pop ownership and finally-pairing of the local macro state, local-vs-module installation rules, warn-before-install rule, shared assignment_shape",
        "Decides the order of namespaces consulted (hy.eval macros, local states innermost first, module, core), that the local state stack is popped in a finally and entered by exactly the scope-creating forms, that defmacro/require choose local vs module by is_in_local_state(), that require handles exports, prefixes and the submodule fallback, and that every installation is preceded by a core-shadow warning that tests the mangled name and honours the pragma.",
        "",
        "4/C35",
    ),
    "C36": (
        "flag-wiring rules across util.hy and macros.macroexpand; loop-shape rule (rebinding of `tree`)",
        "Thin: decides that both entry points pass result-ok False, only macroexpand-1 passes once, the loop rebinds `tree`, breaks after one expansion when once, returns the current tree for a compiler Result, and only looks up symbol or non-empty dotted heads. Non-mutation of the input is not decided.",
        "",
        "4/C36",
    ),
    "C37": (
        "laziness rules (generators not forced between read_many and _compile_branch), per-instance state rules, save/restore pairing of the current reader, reader priority rule, defreader scope rule",
        "Decides that the form stream stays lazy so each top-level form is read after the previous one was compiled, that reader macro tables are per reader instance, that the current reader is restored in a finally and an explicit reader beats the ambient one, that the importer uses a fresh reader per module, and that defreader is global-only, defines and enables the macro, with undefined tags as LexException.",
        "",
        "4/C37",
    ),
    "C41": (
        "option-table folding, loop-termination rules, action-selection order, sys.argv-before-run rule per mode",
        "Thin: decides that exactly -c and -m terminate option processing, how option arguments are taken, the order in which the action is selected, and that each mode assigns the documented sys.argv before running. Equality of output across modes is not decided.",
        "",
        "4/C41",
    ),
    "C03": (
        "extraction and cross-comparison of sibling tables: macro patterns / m_ops / c_ops / a_ops (constant-folded from result_macros.py) against the defop lambda lists, bodies and documentation of pyops.hy (own s-expression reader) and Python's fixed ast<->operator correspondence",
        "Decides, exhaustively over the 28 shadowed operator macros and 13 augmented-assignment macros, agreement of arity intervals, operator identity, fold direction and start, nullary/unary special cases, documented aggregators, and that the #* fallback to hy.pyops is taken before pattern matching. Results on concrete operands and exception types are Python's.",
        "Python's operator module functions are trusted to implement the operators of the same ast classes.",
        "4/C03",
    ),
    "C04": (
        "strategy-agreement and guard-coverage rules over compile_comprehension (tags handled by both strategies, every Result the native strategy reads is tested by the strategy condition), scope-registration rules, construction-time else placement",
        "Decides the structural conditions behind 'same result from either strategy': all grammar tags handled, `do`/statements force the generator function, the strategy condition covers every Result whose expression the native strategy reads, gfor stays lazy, iteration variables (all names of a destructuring target) are registered so they cannot leak, leaked names are sorted and declared in the right kind of scope, and the else body is attached to the outermost loop at construction. Element values are not decided.",
        "The function is long and several rules compare normalised sub-expressions of it.",
        "4/C04",
    ),
    "C05": (
        "def-use wiring analysis (reaching definitions) from the five lambda-list groups to the fields of ast.arguments, guard-precedes-construction rules, Lambda-vs-def condition, scope parameter registration",
        "Decides that each group of the lambda list reaches exactly its field of ast.arguments (by tuple position), defaults are ordered positional-only then ordinary, only keyword-only defaults are None-padded, the three lambda-list errors precede construction, a Lambda is used only when nothing would be lost (annotations on all five groups and the return are considered), the last expression is returned unless the function is an async generator, yield marks the nearest Python function scope, call arguments keep encounter order, and function scopes define all five parameter kinds. Actual binding at call time is Python's.",
        "The docstring clause is emergent from Python's own rule and not decided.",
        "4/C05",
    ),
    "C06": (
        "scope-routing rule (every binding construct tells the scope chain), ScopeLet rename/delegate/define shape, value-before-binding order in compile_let, enter/exit pairing and who-may-enter search",
        "Decides the structural conditions for lexical scoping of let: all nine binding constructs are routed through the scope chain, ScopeLet renames bound names and delegates the rest, definitions drop shadowed bindings, values are compiled before their own binding is added, scopes are only entered by `with` and restore their parent, function scopes hand unbound names outwards and define all parameter kinds. Resolution on concrete nestings is not simulated.",
        "",
        "4/C06",
    ),
    "C07": (
        "closure rule for OuterVar (single constructor, replaced on every route before the root node), wiring of visit_OuterVar, exception-conversion rule, scope registration",
        "Decides that OuterVar never escapes (only compile_global_or_nonlocal builds it; hy_compile resolves every statement unconditionally before building the module; no other caller of HyASTCompiler.compile), that resolution walks outwards taking function-defined and let-bound names as Nonlocal (in declaration order) and module-defined names as Global with the documented fallback, that `global` is always Global, that use-before-declaration is raised and converted to a Hy syntax error, and that names declared nonlocal are not counted as defined by the declaring function.",
        "",
        "4/C07",
    ),
    "C01": (
        "Result-flow placement analysis (reaching definitions + interprocedural summaries) against a reviewed table of 218 placement facts; typestate rules for renameable temporaries; must-go-through _compile_branch",
        "Decides the placement discipline of the statement-lifting transformation for all programs at once: for every compile function, the statements and the value of every sub-form slot reach exactly the reviewed fields of the emitted AST (nothing hoisted out of its branch, swapped, duplicated into another field or lost); ordered bodies go through _compile_branch; only the reviewed sites expose temporaries to setv's rename optimisation; setv evaluates value before target. It decides where code is placed, not the values a concrete program computes.",
        "The table is reviewed against docs/semantics.rst and docs/api.rst; Python's own semantics of If/While/Try/With/Match fields is trusted. A behaviour-preserving refactoring that changes node classes or fields would have to update the table.",
        "3, 4/C01",
    ),
    "C02": (
        "placement analysis of the and/or compile function + polarity table folding + typestate of the BoolOp-append flag + three-way nullary table agreement with hy.pyops",
        "Decides the structural necessary conditions of short-circuit evaluation: first operand unconditional, later statement-bearing operands inside an If on the temporary (negated exactly for `or`) and nested inside each other, values appended left to right, value of a statement operand stored unconditionally, append only under the creation flag, nullary constants agreeing with hy.pyops and its docs. Truth tables themselves are Python's BoolOp/If semantics.",
        "Several sub-rules compare normalised statements of this one function; a rewrite of the function needs the rules revisited (reported then as violation of the named sub-rule, with the expected shape).",
        "4/C02",
    ),
    "C08": (
        "grammar/handler exhaustiveness and shadowing-order analysis of compile_pattern, placement analysis of compile_match_expression, binding-registration rule",
        "Decides that each of the pattern grammar's alternatives has an arm, that more specific arms precede more general ones, that each arm builds the node its alternative denotes, that the chain ends in a syntax error; that the result variable is set to None unconditionally before the Match and assigned at the end of every case; lifted guards precede the Match; captures are validated, mangled and registered with the scope; match does not expose its result variable for renaming. Which case a subject selects is Python's match semantics.",
        "The arm table is keyed by the tests compile_pattern uses today.",
        "4/C08",
    ),
    "C09": (
        "placement analysis of try/with against the reviewed table + per-clause result-variable rules + scope-per-handler rule + R-VAL for with",
        "Decides for every raise point at once which clause's code is in which Try field (else folded into the body only without handlers; result variable assigned in body-iff-no-else, each handler, else, never finally), that each except clause has its own ScopeLet with a fresh reserved variable, except/except* exclusivity, that with initialises its temporary before the With, stores the body value on every arm including the nested ones, and withholds the temporary from renaming. Which clauses run for a given exception is Python's Try/With semantics.",
        "Known finding recorded: statements of an except type expression are hoisted before the try.",
        "4/C09",
    ),
    "C11": (
        "linearity analysis of compiler Results (every Result produced is consumed) via reaching definitions, anonymous-projection rule, slot-usage rule, exhaustiveness of the #** arm, argument-list conservation in compile_expression",
        "Decides over all ~100 Result-producing call sites that no compiled sub-form's statements are dropped (no `.expr/.force_expr` projection of a discarded Result, every bound Result has a consuming use), that every pattern slot is read, that `#**` is appended or rejected under every flag combination, and that compile_expression passes its whole argument list on. Whether control reaches a sub-form at run time is not decided.",
        "Known finding recorded: statements in the bound of a :tp type parameter are dropped (digest_type_params).",
        "4/C11",
    ),
    "C10": (
        "AST well-formedness obligations at every node construction site (grammar from the interpreter's ast docstrings + frozen validator table) with reaching definitions; exception-funnel handler analysis",
        "Decides, over all ~180 AST construction sites of the compiler, the necessary conditions for Python's compile() to accept the result: every required field supplied (O0), no required expression field fed from a possibly-None Result.expr (O1), statement lists the validator requires non-empty are provably non-empty (O2), names from user symbols pass the constant-name guard and assignment targets have an accepted kind (O3); and that errors leave only as HyLanguageError subclasses (handler order in HyASTCompiler.compile, NoParseError conversion, MacroExceptions). Decides these site obligations, not validity of every concrete output.",
        "Sites whose list is filled by append() in a loop, or whose class is chosen at run time beyond the recognised idioms, are listed as unresolved, not as violations. Errors raised later by Python's own compiler as SyntaxError are allowed by the property.",
        "4/C10",
    ),
    "C12": (
        "identifier-provenance dataflow at every identifier-typed AST field + template parsing + counter ownership search",
        "Decides that every identifier the compiler writes that does not derive from the user's program is reserved (`hy`, `_hy_…`) or on a reasoned allow-list, that reserved binding names are fresh (come from get_anon_var; no `_hy_` literal, no reuse of an earlier let name), that asty.parse templates introduce only reserved names, and that the counter has exactly two writers. Dynamic clobbering through Result.rename is decided under C01/C02/C08/C09 (R-TEMP).",
        "Provenance is flow-sensitive within a function (reaching definitions) and follows calls within hy/ by name; unresolved sinks are counted and bounded.",
        "4/C12",
    ),
    "C34": (
        "identifier-provenance dataflow (MANGLED / RESERVED / COPY / RAW) at every identifier-typed AST field and at the non-AST name sites",
        "Decides at all 57 identifier sinks of the compiler, the two later stores in Result.rename and seven run-time name sites (install_macro, macroexpand, require, local_macro_name, Keyword.__call__, ScopeLet.add, get_c_op) that user-derived text reaches an identifier only through mangle(): a necessary condition for 'a Hy name means (hy.mangle s) in every construct'. Equality of manglings of different names is value-level and not decided.",
        "User-derivedness is inferred from pattern-macro parameters and model constructors; a sink the analysis cannot resolve is reported as unresolved (bounded), never as a violation.",
        "4/C34",
    ),
    "C28": (
        "pairing / typestate over the s-expression tree of hy-repr (try-finally protection of the printer call, write-ownership of the two globals)",
        "Decides that hy-repr's quoting flag and cycle set are restored on every exit: the only call that runs arbitrary code after the state is modified is inside a try whose finally undoes both writes; the cycle test precedes the add; nested calls cannot claim the flag; no other function writes either global. This is the crash-point quantifier of the property decided over all exits at once; textual output equality is not decided.",
        "The early cycle-placeholder return between the flag write and the try is accepted by an infeasibility argument recorded in DESIGN.md (an object already in _seen that is a model implies _quoting was already set).",
        "4/C28",
    ),
    "C29": (
        "pairing analysis (add/remove of ids in a finally protecting the recursive calls) + registry coverage and wrapper/model type table",
        "Decides the structural parts of as-model: cycle guard is the first action; every function that marks an id un-marks it in a finally that protects every recursive promotion (so a failed promotion cannot poison later ones); every model-representable type has a wrapper; cycle-capable containers use a tracking wrapper; each wrapper builds the model class that corresponds to its type (idempotence precondition). Value equality after hy.eval is not decided.",
        "Wrapper resolution follows the three idioms in models.py (constructor name, recwrap(X), lambda building X).",
        "4/C29",
    ),
    "C38": (
        "lock-discipline (ownership + region) analysis over the s-expression tree of util.hy, whole-repo reference search",
        "Decides for all schedules at once that every access to the shared gensym counter lies in the region protected by the one module-level lock (acquire; try/finally release, or with), that the region advances the counter and copies it to a function-local from which the name is built, that no other module touches counter or lock, and that the name is the reserved `_hy_gensym_` template passed through hy.mangle with the `_hyx_` fix-up. Under that discipline distinctness needs no schedule enumeration.",
        "threading.Lock is trusted to be a mutex; distinct manglings of distinct argument strings are value-level and not decided.",
        "4/C38",
    ),
    "C39": (
        "try/finally must-pass-through and def-use wiring in hy_eval_user / hy_eval",
        "Decides for every raise point at once that the caller's `hy` entry is snapshotted (boxed, so falsy values survive) before the try, that hy_eval runs inside it, that the finally restores or pops on complementary arms with no control transfer and no success-only condition; and that hy_eval runs the statement module before returning the value of the expression, both from one hy_compile(get_expr=True) result and in the same namespaces.",
        "Python's try/finally semantics; dictionary operations do not raise for ordinary dicts.",
        "4/C39",
    ),
    "C40": (
        "interprocedural path/guard analysis of REPL.runsource -> stdlib InteractiveInterpreter.runsource (parsed) -> REPL.runcode, exception-handler routing",
        "Decides the history clause 'a failed input never makes two of *1 *2 *3 repeat one result' structurally: the shift is guarded by a flag cleared before delegation and set only after last_value is assigned in runcode's try body; the shift order; that PrematureEndOfInput is re-raised by HyCompile and becomes a continuation exactly when allow_incomplete; that both error display paths set *e and suppress printing. Printed output equality with a script is not decided.",
        "The three cases of code.InteractiveInterpreter.runsource are re-derived from the interpreter's own code.py on every run (parsed, not executed).",
        "4/C40",
    ),
    "C13": (
        "hash-order taint dataflow (set-typed expressions and their uses) + entropy-source use check",
        "Every set-typed expression and every per-process entropy source (id/hash/time/random/...) in the modules on the compile path is enumerated and each use classified; a use that lets hash order or a per-process value reach emitted code is reported. Decides the structural necessary condition 'no hash-ordered iteration feeds the output', not byte equality of concrete outputs.",
        "Typing of sets is by construction sites (set(), {..}, set algebra, attributes initialised to sets); sets that arrive through untyped parameters are not seen. Nondeterminism inside user macros is out of scope.",
        "4/C13",
    ),
}

NOT_APPLICABLE = {
    "C22": "numeric literal values are computed by Python's int/float/complex constructors at run time from strings; no structural clause of the source carries the property, so static analysis cannot decide it",
    "C27": "round-trip equality of arbitrary values is a run-time relation over values; its only structural clause (the cycle guard precedes recursion and is undone in a finally) is the same code as C28 and is decided there",
    "C32": "mangle's guarantees rest on per-code-point Unicode classification (str.isidentifier, unicodedata.name, NFKC), observable only by evaluating it; no sound static argument in reach bounds it",
}

DESIGNED_NOT_BUILT = "designed in DESIGN.md (section 4) but the check is not built yet; not claimed through a stub"


def main():
    props = [json.loads(l) for l in open(os.path.join(HERE, "properties.jsonl"))]
    checks = []
    na = []
    for p in props:
        pid = p["id"]
        have = os.path.exists(os.path.join(HERE, "hyverif", "props", pid.lower() + ".py"))
        if pid in CLAIMS and have:
            tech, text, note, ref = CLAIMS[pid]
            checks.append(
                dict(
                    property_id=pid,
                    quick_cmd=f"/venv/bin/python -m hyverif {pid} --tier quick",
                    thorough_cmd=f"/venv/bin/python -m hyverif {pid} --tier thorough",
                    evidence_file=f"/verif/evidence/{pid}.json",
                    replay_cmd_template=f"/venv/bin/python -m hyverif {pid} --tier quick  # replay file {{path}} names rule+construct",
                    engine="hyverif",
                    level_claimed=dict(category="other", text=text, design_ref=ref),
                    level_note=(note + " " if note else "") + "Structural necessary conditions of the property are decided, not the run-time behaviour itself; rule instances the analysis cannot recognise after a restructuring are listed as unresolved in the evidence (DESIGN.md 0.1, 0.3).",
                    technique="static analysis over the canonicalised AST of /repo's current sources (hyverif/canon.py: helper/constant inlining, guard-clause and negation normal form; patterns matched modulo renaming of locals): " + tech
                    + ". Decisions are three-valued: a violation needs positive evidence (a path-condition truth table that differs, a value that flows to the wrong place, a required step reached on no path of a recognised function); an unrecognised restructuring is recorded as unresolved in the evidence, never as a violation.",
                )
            )
        else:
            na.append(dict(property_id=pid, reason=NOT_APPLICABLE.get(pid, DESIGNED_NOT_BUILT)))
    man = dict(
        version=1,
        setup_cmd="/venv/bin/python -m hyverif.setup_check",
        hooks=dict(
            guard="HY_VERIF",
            enable="no hooks: the checks only read and parse /repo's sources; nothing is instrumented",
            baseline_off_cmd="cd /repo && /venv/bin/python -m pytest -ra -q -p no:cacheprovider --timeout=900 --continue-on-collection-errors",
            source_commits=[],
            add_only=True,
        ),
        engines=[
            dict(
                name="hyverif",
                path="/verif/hyverif",
                serves_properties=[c["property_id"] for c in checks],
                kind_free_text="repository-specific static analysers over the stdlib ast of hy/**/*.py and an own s-expression reader for hy/**/*.hy (dataflow, placement, provenance, pairing, table agreement); stdlib only, nothing from /repo is imported or executed",
            )
        ],
        checks=checks,
        notes="Exit protocol: 0 held on everything decided (KNOWN-FINDING lines for entries of known_findings.json; unresolved instances are listed in the evidence), 1 + VIOLATION line, 2 + ANALYSIS-ERROR when the analysis itself is broken (anchored function vanished, unparsable source, checker crash, time budget). Thorough tier adds rule self-validation on in-memory seeded breaks. Catch matrix over the kept seeded changes: seeded/MATRIX.json; false-alarm corpus: neutral/ (DESIGN.md section 0).",
        not_applicable=na,
    )
    with open(os.path.join(HERE, "MANIFEST.json"), "w") as f:
        json.dump(man, f, indent=1)
        f.write("\n")
    print(f"claimed {len(checks)}, not applicable {len(na)}")


if __name__ == "__main__":
    main()
