#!/venv/bin/python
"""Regenerate /verif/MANIFEST.json from the table below (claimed checks = modules
present in hyverif/props and listed in CLAIMS; everything else goes to
not_applicable with its reason)."""
import json
import os
import sys

HERE = os.path.dirname(os.path.dirname(os.path.abspath(__file__)))
sys.path.insert(0, HERE)

# id -> (technique, level text, level note, design ref)
CLAIMS = {
    "C03": (
        "extraction and cross-comparison of sibling tables: macro patterns / m_ops / c_ops / a_ops (constant-folded from result_macros.py) against the defop lambda lists, bodies and documentation of pyops.hy (own s-expression reader) and Python's fixed ast<->operator correspondence",
        "Decides, exhaustively over the 28 shadowed operator macros and 13 augmented-assignment macros, agreement of arity intervals, operator identity, fold direction and start, nullary/unary special cases, documented aggregators, and that the #* fallback to hy.pyops is taken before pattern matching. Results on concrete operands and exception types are Python's.",
        "Python's operator module functions are trusted to implement the operators of the same ast classes.",
        "4/C03",
    ),
    "C04": (
        "strategy-agreement and guard-coverage rules over compile_comprehension (tags handled by both strategies, every Result the native strategy reads is tested by the strategy condition), scope-registration rules, construction-time else placement",
        "Decides the structural conditions behind 'same result from either strategy': all grammar tags handled, `do`/statements force the generator function, the strategy condition covers every Result whose expression the native strategy reads, gfor stays lazy, iteration variables (all names of a destructuring target) are registered so they cannot leak, leaked names are sorted and declared in the right kind of scope, and the else body is attached to the outermost loop at construction. Element values are not decided.",
        "The function is long and several rules compare normalised sub-expressions of it.",
        "4/C04",
    ),
    "C05": (
        "def-use wiring analysis (reaching definitions) from the five lambda-list groups to the fields of ast.arguments, guard-precedes-construction rules, Lambda-vs-def condition, scope parameter registration",
        "Decides that each group of the lambda list reaches exactly its field of ast.arguments (by tuple position), defaults are ordered positional-only then ordinary, only keyword-only defaults are None-padded, the three lambda-list errors precede construction, a Lambda is used only when nothing would be lost (annotations on all five groups and the return are considered), the last expression is returned unless the function is an async generator, yield marks the nearest Python function scope, call arguments keep encounter order, and function scopes define all five parameter kinds. Actual binding at call time is Python's.",
        "The docstring clause is emergent from Python's own rule and not decided.",
        "4/C05",
    ),
    "C06": (
        "scope-routing rule (every binding construct tells the scope chain), ScopeLet rename/delegate/define shape, value-before-binding order in compile_let, enter/exit pairing and who-may-enter search",
        "Decides the structural conditions for lexical scoping of let: all nine binding constructs are routed through the scope chain, ScopeLet renames bound names and delegates the rest, definitions drop shadowed bindings, values are compiled before their own binding is added, scopes are only entered by `with` and restore their parent, function scopes hand unbound names outwards and define all parameter kinds. Resolution on concrete nestings is not simulated.",
        "",
        "4/C06",
    ),
    "C07": (
        "closure rule for OuterVar (single constructor, replaced on every route before the root node), wiring of visit_OuterVar, exception-conversion rule, scope registration",
        "Decides that OuterVar never escapes (only compile_global_or_nonlocal builds it; hy_compile resolves every statement unconditionally before building the module; no other caller of HyASTCompiler.compile), that resolution walks outwards taking function-defined and let-bound names as Nonlocal (in declaration order) and module-defined names as Global with the documented fallback, that `global` is always Global, that use-before-declaration is raised and converted to a Hy syntax error, and that names declared nonlocal are not counted as defined by the declaring function.",
        "",
        "4/C07",
    ),
    "C01": (
        "Result-flow placement analysis (reaching definitions + interprocedural summaries) against a reviewed table of 218 placement facts; typestate rules for renameable temporaries; must-go-through _compile_branch",
        "Decides the placement discipline of the statement-lifting transformation for all programs at once: for every compile function, the statements and the value of every sub-form slot reach exactly the reviewed fields of the emitted AST (nothing hoisted out of its branch, swapped, duplicated into another field or lost); ordered bodies go through _compile_branch; only the reviewed sites expose temporaries to setv's rename optimisation; setv evaluates value before target. It decides where code is placed, not the values a concrete program computes.",
        "The table is reviewed against docs/semantics.rst and docs/api.rst; Python's own semantics of If/While/Try/With/Match fields is trusted. A behaviour-preserving refactoring that changes node classes or fields would have to update the table.",
        "3, 4/C01",
    ),
    "C02": (
        "placement analysis of the and/or compile function + polarity table folding + typestate of the BoolOp-append flag + three-way nullary table agreement with hy.pyops",
        "Decides the structural necessary conditions of short-circuit evaluation: first operand unconditional, later statement-bearing operands inside an If on the temporary (negated exactly for `or`) and nested inside each other, values appended left to right, value of a statement operand stored unconditionally, append only under the creation flag, nullary constants agreeing with hy.pyops and its docs. Truth tables themselves are Python's BoolOp/If semantics.",
        "Several sub-rules compare normalised statements of this one function; a rewrite of the function needs the rules revisited (reported then as violation of the named sub-rule, with the expected shape).",
        "4/C02",
    ),
    "C08": (
        "grammar/handler exhaustiveness and shadowing-order analysis of compile_pattern, placement analysis of compile_match_expression, binding-registration rule",
        "Decides that each of the pattern grammar's alternatives has an arm, that more specific arms precede more general ones, that each arm builds the node its alternative denotes, that the chain ends in a syntax error; that the result variable is set to None unconditionally before the Match and assigned at the end of every case; lifted guards precede the Match; captures are validated, mangled and registered with the scope; match does not expose its result variable for renaming. Which case a subject selects is Python's match semantics.",
        "The arm table is keyed by the tests compile_pattern uses today.",
        "4/C08",
    ),
    "C09": (
        "placement analysis of try/with against the reviewed table + per-clause result-variable rules + scope-per-handler rule + R-VAL for with",
        "Decides for every raise point at once which clause's code is in which Try field (else folded into the body only without handlers; result variable assigned in body-iff-no-else, each handler, else, never finally), that each except clause has its own ScopeLet with a fresh reserved variable, except/except* exclusivity, that with initialises its temporary before the With, stores the body value on every arm including the nested ones, and withholds the temporary from renaming. Which clauses run for a given exception is Python's Try/With semantics.",
        "Known finding recorded: statements of an except type expression are hoisted before the try.",
        "4/C09",
    ),
    "C11": (
        "linearity analysis of compiler Results (every Result produced is consumed) via reaching definitions, anonymous-projection rule, slot-usage rule, exhaustiveness of the #** arm, argument-list conservation in compile_expression",
        "Decides over all ~100 Result-producing call sites that no compiled sub-form's statements are dropped (no `.expr/.force_expr` projection of a discarded Result, every bound Result has a consuming use), that every pattern slot is read, that `#**` is appended or rejected under every flag combination, and that compile_expression passes its whole argument list on. Whether control reaches a sub-form at run time is not decided.",
        "Known finding recorded: statements in the bound of a :tp type parameter are dropped (digest_type_params).",
        "4/C11",
    ),
    "C10": (
        "AST well-formedness obligations at every node construction site (grammar from the interpreter's ast docstrings + frozen validator table) with reaching definitions; exception-funnel handler analysis",
        "Decides, over all ~180 AST construction sites of the compiler, the necessary conditions for Python's compile() to accept the result: every required field supplied (O0), no required expression field fed from a possibly-None Result.expr (O1), statement lists the validator requires non-empty are provably non-empty (O2), names from user symbols pass the constant-name guard and assignment targets have an accepted kind (O3); and that errors leave only as HyLanguageError subclasses (handler order in HyASTCompiler.compile, NoParseError conversion, MacroExceptions). Decides these site obligations, not validity of every concrete output.",
        "Sites whose list is filled by append() in a loop, or whose class is chosen at run time beyond the recognised idioms, are listed as unresolved, not as violations. Errors raised later by Python's own compiler as SyntaxError are allowed by the property.",
        "4/C10",
    ),
    "C12": (
        "identifier-provenance dataflow at every identifier-typed AST field + template parsing + counter ownership search",
        "Decides that every identifier the compiler writes that does not derive from the user's program is reserved (`hy`, `_hy_…`) or on a reasoned allow-list, that reserved binding names are fresh (come from get_anon_var; no `_hy_` literal, no reuse of an earlier let name), that asty.parse templates introduce only reserved names, and that the counter has exactly two writers. Dynamic clobbering through Result.rename is decided under C01/C02/C08/C09 (R-TEMP).",
        "Provenance is flow-sensitive within a function (reaching definitions) and follows calls within hy/ by name; unresolved sinks are counted and bounded.",
        "4/C12",
    ),
    "C34": (
        "identifier-provenance dataflow (MANGLED / RESERVED / COPY / RAW) at every identifier-typed AST field and at the non-AST name sites",
        "Decides at all 57 identifier sinks of the compiler, the two later stores in Result.rename and seven run-time name sites (install_macro, macroexpand, require, local_macro_name, Keyword.__call__, ScopeLet.add, get_c_op) that user-derived text reaches an identifier only through mangle(): a necessary condition for 'a Hy name means (hy.mangle s) in every construct'. Equality of manglings of different names is value-level and not decided.",
        "User-derivedness is inferred from pattern-macro parameters and model constructors; a sink the analysis cannot resolve is reported as unresolved (bounded), never as a violation.",
        "4/C34",
    ),
    "C28": (
        "pairing / typestate over the s-expression tree of hy-repr (try-finally protection of the printer call, write-ownership of the two globals)",
        "Decides that hy-repr's quoting flag and cycle set are restored on every exit: the only call that runs arbitrary code after the state is modified is inside a try whose finally undoes both writes; the cycle test precedes the add; nested calls cannot claim the flag; no other function writes either global. This is the crash-point quantifier of the property decided over all exits at once; textual output equality is not decided.",
        "The early cycle-placeholder return between the flag write and the try is accepted by an infeasibility argument recorded in DESIGN.md (an object already in _seen that is a model implies _quoting was already set).",
        "4/C28",
    ),
    "C29": (
        "pairing analysis (add/remove of ids in a finally protecting the recursive calls) + registry coverage and wrapper/model type table",
        "Decides the structural parts of as-model: cycle guard is the first action; every function that marks an id un-marks it in a finally that protects every recursive promotion (so a failed promotion cannot poison later ones); every model-representable type has a wrapper; cycle-capable containers use a tracking wrapper; each wrapper builds the model class that corresponds to its type (idempotence precondition). Value equality after hy.eval is not decided.",
        "Wrapper resolution follows the three idioms in models.py (constructor name, recwrap(X), lambda building X).",
        "4/C29",
    ),
    "C38": (
        "lock-discipline (ownership + region) analysis over the s-expression tree of util.hy, whole-repo reference search",
        "Decides for all schedules at once that every access to the shared gensym counter lies in the region protected by the one module-level lock (acquire; try/finally release, or with), that the region advances the counter and copies it to a function-local from which the name is built, that no other module touches counter or lock, and that the name is the reserved `_hy_gensym_` template passed through hy.mangle with the `_hyx_` fix-up. Under that discipline distinctness needs no schedule enumeration.",
        "threading.Lock is trusted to be a mutex; distinct manglings of distinct argument strings are value-level and not decided.",
        "4/C38",
    ),
    "C39": (
        "try/finally must-pass-through and def-use wiring in hy_eval_user / hy_eval",
        "Decides for every raise point at once that the caller's `hy` entry is snapshotted (boxed, so falsy values survive) before the try, that hy_eval runs inside it, that the finally restores or pops on complementary arms with no control transfer and no success-only condition; and that hy_eval runs the statement module before returning the value of the expression, both from one hy_compile(get_expr=True) result and in the same namespaces.",
        "Python's try/finally semantics; dictionary operations do not raise for ordinary dicts.",
        "4/C39",
    ),
    "C40": (
        "interprocedural path/guard analysis of REPL.runsource -> stdlib InteractiveInterpreter.runsource (parsed) -> REPL.runcode, exception-handler routing",
        "Decides the history clause 'a failed input never makes two of *1 *2 *3 repeat one result' structurally: the shift is guarded by a flag cleared before delegation and set only after last_value is assigned in runcode's try body; the shift order; that PrematureEndOfInput is re-raised by HyCompile and becomes a continuation exactly when allow_incomplete; that both error display paths set *e and suppress printing. Printed output equality with a script is not decided.",
        "The three cases of code.InteractiveInterpreter.runsource are re-derived from the interpreter's own code.py on every run (parsed, not executed).",
        "4/C40",
    ),
    "C13": (
        "hash-order taint dataflow (set-typed expressions and their uses) + entropy-source use check",
        "Every set-typed expression and every per-process entropy source (id/hash/time/random/...) in the modules on the compile path is enumerated and each use classified; a use that lets hash order or a per-process value reach emitted code is reported. Decides the structural necessary condition 'no hash-ordered iteration feeds the output', not byte equality of concrete outputs.",
        "Typing of sets is by construction sites (set(), {..}, set algebra, attributes initialised to sets); sets that arrive through untyped parameters are not seen. Nondeterminism inside user macros is out of scope.",
        "4/C13",
    ),
}

NOT_APPLICABLE = {
    "C22": "numeric literal values are computed by Python's int/float/complex constructors at run time from strings; no structural clause of the source carries the property, so static analysis cannot decide it",
    "C27": "round-trip equality of arbitrary values is a run-time relation over values; its only structural clause (the cycle guard precedes recursion and is undone in a finally) is the same code as C28 and is decided there",
    "C32": "mangle's guarantees rest on per-code-point Unicode classification (str.isidentifier, unicodedata.name, NFKC), observable only by evaluating it; no sound static argument in reach bounds it",
}

DESIGNED_NOT_BUILT = "designed in DESIGN.md (section 4) but the check is not built yet; not claimed through a stub"


def main():
    props = [json.loads(l) for l in open(os.path.join(HERE, "properties.jsonl"))]
    checks = []
    na = []
    for p in props:
        pid = p["id"]
        have = os.path.exists(os.path.join(HERE, "hyverif", "props", pid.lower() + ".py"))
        if pid in CLAIMS and have:
            tech, text, note, ref = CLAIMS[pid]
            checks.append(
                dict(
                    property_id=pid,
                    quick_cmd=f"/venv/bin/python -m hyverif {pid} --tier quick",
                    thorough_cmd=f"/venv/bin/python -m hyverif {pid} --tier thorough",
                    evidence_file=f"/verif/evidence/{pid}.json",
                    replay_cmd_template=f"/venv/bin/python -m hyverif {pid} --tier quick  # replay file {{path}} names rule+construct",
                    engine="hyverif",
                    level_claimed=dict(category="other", text=text, design_ref=ref),
                    level_note=note or "Python's own scoping semantics of the emitted Global/Nonlocal/def statements are trusted.",
                    technique="static analysis: " + tech,
                )
            )
        else:
            na.append(dict(property_id=pid, reason=NOT_APPLICABLE.get(pid, DESIGNED_NOT_BUILT)))
    man = dict(
        version=1,
        setup_cmd="/venv/bin/python -m hyverif.setup_check",
        hooks=dict(
            guard="HY_VERIF",
            enable="no hooks: the checks only read and parse /repo's sources; nothing is instrumented",
            baseline_off_cmd="cd /repo && /venv/bin/python -m pytest -ra -q -p no:cacheprovider --timeout=900 --continue-on-collection-errors",
            source_commits=[],
            add_only=True,
        ),
        engines=[
            dict(
                name="hyverif",
                path="/verif/hyverif",
                serves_properties=[c["property_id"] for c in checks],
                kind_free_text="repository-specific static analysers over the stdlib ast of hy/**/*.py and an own s-expression reader for hy/**/*.hy (dataflow, placement, provenance, pairing, table agreement); stdlib only, nothing from /repo is imported or executed",
            )
        ],
        checks=checks,
        notes="Exit protocol: 0 held (KNOWN-FINDING lines for entries of known_findings.json), 1 + VIOLATION line, 2 + ANALYSIS-ERROR when the analysis itself is broken (vanished anchor, unparsable source). Thorough tier adds rule self-validation on in-memory seeded breaks.",
        not_applicable=na,
    )
    with open(os.path.join(HERE, "MANIFEST.json"), "w") as f:
        json.dump(man, f, indent=1)
        f.write("\n")
    print(f"claimed {len(checks)}, not applicable {len(na)}")


if __name__ == "__main__":
    main()
