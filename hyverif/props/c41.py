"""C41 — the hy command (thin: option termination, action selection order, sys.argv per mode)."""
import ast

from .. import pm, pyq
from ..pysrc import Unfoldable, dotted, fold, norm, stmt_of

CANON = True
REL = "hy/cmdline.py"

ACTIONS = ("eval_string", "run_module", "run_script_stdin", "run_script_file", "just_repl")


def _option_table(f):
    """dict(name=[...], ...) entries of the option table, wherever it is bound."""
    out = []
    for n in ast.walk(f):
        if isinstance(n, ast.Call) and dotted(n.func) == "dict" and any(k.arg == "name" for k in n.keywords):
            kw = {k.arg: k.value for k in n.keywords}
            try:
                names = fold(kw["name"])
            except Unfoldable:
                continue
            out.append((names, kw, n))
    return out


def check(ctx, src):
    ctx.rule("CMD-TERMINATE", "exactly -c and -m carry `terminate` and take an argument; proc_opt returns 'terminate' for them and every call of proc_opt in the option loop leaves the loop on that result; "
             "the first non-option is put back and ends option processing; `--` ends it too")
    ctx.rule("CMD-OPTARG", "an option's argument is the rest of its own word when there is one (`-cCODE`, `-c=CODE`), otherwise the next word")
    ctx.rule("CMD-ACTION", "the action is chosen in this order: -c, -m, `-` (stdin), file, REPL/stdin — so arguments after -c / -m are never interpreted")
    ctx.rule("CMD-ARGV", "in every mode sys.argv is assigned, with the documented first element, before the program runs")
    m = src.py(REL)
    f = m.func("cmdline_handler")
    ctx.require(f is not None, "cmdline_handler not found")
    table = _option_table(f)
    ctx.need(len(table) >= 8, "option table not found")
    term = sorted((names, getattr(kw.get("dest"), "value", None)) for names, kw, _ in table if getattr(kw.get("terminate"), "value", None) is True)
    ctx.check(term == [(["-c"], "command"), (["-m"], "mod")], "CMD-TERMINATE", f"{REL}|defs|terminate", f"options with terminate are {term}", REL, table[0][2].lineno,
              witness="hy -c CODE -i: -i is read as a hy option instead of being passed to the program", detail="-c (command), -m (mod)")
    po = m.func("cmdline_handler.proc_opt")
    ctx.require(po is not None, "proc_opt not found")
    # proc_opt: `return 'terminate'` exactly under a test of 'terminate' in the matched definition; otherwise whether an argument was taken
    rets = [n for n in ast.walk(po) if isinstance(n, ast.Return)]
    rt = [r for r in rets if isinstance(r.value, ast.Constant) and r.value.value == "terminate"]
    ok = len(rt) == 1 and any("'terminate' in" in str(g) for g in pyq.guard_texts(rt[0], po)) and len(pyq.guards(rt[0], po)) == 1
    other = [r for r in rets if r not in rt]
    ok = ok and len(other) == 1 and norm(other[0].value) == "'dest' in match"
    ctx.check(ok, "CMD-TERMINATE", f"{REL}|proc_opt|returns", "proc_opt must return 'terminate' for terminating options and otherwise whether an argument was taken", REL, po.lineno, detail="'terminate' / has-dest")
    src_ok = pm.find(po, "if arg:\n    pass\nelif i is not None and i + 1 < len(item):\n    arg = item[i + 1 + (item[i + 1] == '='):]\nelif argv:\n    arg = argv.pop(0)\nelse:\n    err(__, opt)") is not None
    ctx.check(src_ok, "CMD-OPTARG", f"{REL}|proc_opt|argument source",
              "an option's argument must be: the given one, else the rest of the word after the option letter (minus one '='), else the next word", REL, po.lineno,
              witness="hy -Bc CODE ARGS takes an empty command and passes CODE to the program", detail="arg | item[i+1…] | argv.pop(0)")
    loop = next((n for n in f.body if isinstance(n, ast.While) and any(isinstance(c, ast.Call) and dotted(c.func) == "proc_opt" for c in ast.walk(n))), None)
    ctx.need(loop is not None, "option loop not found")
    # every proc_opt call in the loop: its result reaches a comparison with 'terminate' that breaks out of the while loop
    calls = [c for c in ast.walk(loop) if isinstance(c, ast.Call) and dotted(c.func) == "proc_opt"]
    breaks = []
    for n in ast.walk(loop):
        if isinstance(n, ast.If) and any(isinstance(b, ast.Break) for b in n.body) and _loop_of(n.body[-1] if isinstance(n.body[-1], ast.Break) else n, loop) is loop:
            for c in ast.walk(n.test):
                if isinstance(c, ast.Compare) and isinstance(c.ops[0], ast.Eq) and isinstance(c.comparators[0], ast.Constant) and c.comparators[0].value == "terminate":
                    breaks.append(c.left)
    for c in calls:
        via = None
        st = stmt_of(c)
        if any(b is c for b in breaks):
            via = "direct"
        elif isinstance(st, ast.Assign) and isinstance(st.targets[0], ast.Name) and any(isinstance(b, ast.Name) and b.id == st.targets[0].id for b in breaks):
            via = st.targets[0].id
        long_opt = not any(k.arg == "item" for k in c.keywords)
        ctx.check(via is not None, "CMD-TERMINATE", f"{REL}|loop|{'long option' if long_opt else 'short options'}", "the result of proc_opt is not tested against 'terminate' to leave the option loop", REL, c.lineno,
                  witness="hy -m mod -i: -i is taken by hy", detail=f"break on terminate ({via})")
    ctx.need(len(calls) >= 2, "proc_opt call sites in the option loop not found")
    inner = next((n for n in ast.walk(loop) if isinstance(n, ast.For) and any(c in list(ast.walk(n)) for c in calls)), None)
    if inner is not None:
        c = next(c for c in calls if c in list(ast.walk(inner)))
        st = stmt_of(c)
        v = st.targets[0].id if isinstance(st, ast.Assign) and isinstance(st.targets[0], ast.Name) else None
        ok = v is not None and any(isinstance(n, ast.If) and isinstance(n.test, ast.Name) and n.test.id == v and isinstance(n.body[-1], ast.Break) for n in inner.body)
        ctx.check(ok, "CMD-TERMINATE", f"{REL}|loop|cluster", "in a cluster of short options, an option that takes an argument ends the cluster", REL, inner.lineno, detail="inner break on argument")
    dd = pm.find(loop, "if item == '--':\n    break")
    ctx.check(dd is not None and _loop_of(dd.body[-1], loop) is loop, "CMD-TERMINATE", f"{REL}|loop|double dash", "`--` must end option processing", REL, loop.lineno, detail="break")
    back = pm.find(loop, "argv.insert(0, item)\nbreak")
    gt = pyq.guard_texts(back, loop) if back is not None else []
    ctx.check(back is not None and any(g == "not item.startswith('-') or item == '-'" for g in gt), "CMD-TERMINATE", f"{REL}|loop|first non-option",
              f"the first non-option (including a lone `-`) must be put back and end option processing (guards: {[str(g) for g in gt]})", REL, loop.lineno, detail="insert back; break")
    # --- action selection order: path condition of every assignment of an action constant
    sel = []
    for n in ast.walk(f):
        if isinstance(n, ast.Assign) and isinstance(n.value, (ast.List, ast.Tuple)) and n.value.elts and isinstance(n.value.elts[0], ast.Constant) and n.value.elts[0].value in ACTIONS \
                and m.enclosing_func(n) is f:
            sel.append((n.value.elts[0].value, pyq.guard_texts(n, f), n))
    ctx.need(len(sel) >= 5, "action selection not found")
    C, M, D, A, T = "'command' in options", "'mod' in options", "argv and argv[0] == '-'", "argv", "sys.stdin.isatty()"
    nC, nM, nD, nA, nT = "'command' not in options", "'mod' not in options", "not argv or argv[0] != '-'", "not argv", "not sys.stdin.isatty()"
    want = [("eval_string", (C,)), ("run_module", (nC, M)), ("run_script_stdin", (nC, nM, D)), ("run_script_file", (nC, nM, nD, A)), ("just_repl", (nC, nM, nD, nA, T)),
            ("run_script_stdin", (nC, nM, nD, nA, nT))]

    def same(g, w):
        g = [x for x in g if any(k in str(x) for k in ("command", "mod", "argv", "isatty"))]  # earlier exits (--help, --version) are not part of the order
        return len(g) == len(w) and all(x == y for x, y in zip(g, w))

    extra = [(a, [str(x) for x in g]) for a, g, _ in sel if not any(a == wa and same(g, w) for wa, w in want)]
    missing = [(wa, w) for wa, w in want if not any(a == wa and same(g, w) for a, g, _ in sel)]
    ctx.check(not extra and not missing, "CMD-ACTION", f"{REL}|action order", f"actions are selected under {extra}; missing {missing}", REL, sel[0][2].lineno,
              witness="hy -c CODE - x reads the program from stdin and ignores CODE", detail="-c, -m, -, file, repl|stdin")
    # --- sys.argv per mode
    want_argv = {"eval_string": "['-c'] + argv", "run_module": "[program] + argv", "run_script_stdin": "argv", "run_script_file": "argv"}
    runners = {"eval_string": "run_command", "run_module": "runpy.run_module", "run_script_stdin": "run_command", "run_script_file": "runhy.run_path"}
    seen = set()
    tgt = sel[0][2].targets[0]
    action_var = tgt.elts[0].id if isinstance(tgt, (ast.Tuple, ast.List)) and isinstance(tgt.elts[0], ast.Name) else tgt.id if isinstance(tgt, ast.Name) else None
    for n in ast.walk(f):
        if isinstance(n, ast.If) and isinstance(n.test, ast.Compare) and isinstance(n.test.left, ast.Name) and n.test.left.id == action_var and isinstance(n.test.ops[0], ast.Eq) and m.enclosing_func(n) is f:
            mode = fold(n.test.comparators[0]) if isinstance(n.test.comparators[0], ast.Constant) else None
            if mode in want_argv and mode not in seen:
                seen.add(mode)
                asg = next((s for s in ast.walk(n) if isinstance(s, ast.Assign) and dotted(s.targets[0]) == "sys.argv" and s in _own(n.body)), None)
                run = pyq.contains(n.body, lambda x: isinstance(x, ast.Call) and dotted(x.func) == runners[mode])
                ok = asg is not None and norm(asg.value) == want_argv[mode] and run is not None and asg.lineno < run.lineno and any(asg is x for x in n.body)
                ctx.check(ok, "CMD-ARGV", f"{REL}|{mode}|sys.argv", f"in mode {mode} sys.argv must be set to `{want_argv[mode]}` before {runners[mode]} runs (found `{norm(asg.value) if asg else None}`)", REL, n.lineno,
                          witness="the program sees hy's own options in sys.argv", detail=want_argv[mode])
    ctx.need(len(seen) == 4, f"action dispatch not found for {sorted(set(want_argv) - seen)}")
    prog = pm.find(f, "program = argv[0]")
    rest = pm.find(f, "argv = list(argv[1:])")
    ctx.check(prog is not None and rest is not None and prog.lineno < rest.lineno < loop.lineno, "CMD-ARGV", f"{REL}|program name", "the program name must be split off before options are processed", REL, f.lineno, detail="program = argv[0]; argv = argv[1:]")
    ctx.assume("equality of output and exit status across the four modes is a run-time relation and is not decided")
    ctx.floor("CMD-TERMINATE", 6)


def _own(stmts):
    out = []
    for s in stmts:
        out.extend(ast.walk(s))
    return out


def _loop_of(node, stop):
    """Innermost loop statement enclosing node."""
    n = getattr(node, "_parent", None)
    while n is not None:
        if isinstance(n, (ast.While, ast.For)):
            return n
        n = getattr(n, "_parent", None)
    return None


SELFTESTS = [
    dict(name="stdin before -c", file=REL, rule="CMD-ACTION", key="action order", edits=[
        ('        ["eval_string", options["command"]]\n            if "command" in options else\n        ["run_module", options["mod"]]\n            if "mod" in options else\n', ''),
        ('        ["run_script_stdin", None]\n            if argv and argv[0] == "-" else\n', '        ["run_script_stdin", None]\n            if argv and argv[0] == "-" else\n        ["eval_string", options["command"]]\n            if "command" in options else\n        ["run_module", options["mod"]]\n            if "mod" in options else\n')]),
    dict(name="cluster argument", file=REL, old="            elif i is not None and i + 1 < len(item):\n                arg = item[i + 1 + (item[i + 1] == \"=\") :]", new="            elif item is not None and len(item) > 2:\n                arg = item[i + 1 :].removeprefix(\"=\")", rule="CMD-OPTARG", key="argument source"),
    dict(name="-i terminates", file=REL, old='            name=["-i"],\n            action="store_true",', new='            name=["-i"],\n            terminate=True,\n            action="store_true",', rule="CMD-TERMINATE", key="defs|terminate"),
    dict(name="argv for -m", file=REL, old="        sys.argv = [program] + argv\n", new="        sys.argv = argv\n", rule="CMD-ARGV", key="run_module"),
    dict(name="long option does not terminate", file=REL, old='            if proc_opt(opt, arg=arg) == "terminate":\n                break', new='            proc_opt(opt, arg=arg)', rule="CMD-TERMINATE", key="long option"),
]
