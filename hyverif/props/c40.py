"""C40 — REPL: results are shifted only for inputs that produced a value; continuation routing; *e."""
CANON = True

import ast
import os
import sys

from .. import core, pyq
from ..pysrc import Module, dotted, norm

REL = "hy/repl.py"
STRICT = {"REPL-FRESH", "REPL-CONT", "REPL-ERR", "PEOI-GUARD", "SRC-RESET"}


def _stdlib_runsource(ctx):
    """Parse (not import) the stdlib's code.InteractiveInterpreter.runsource of the interpreter
    that runs hy, and return facts about its three cases."""
    import sysconfig

    path = os.path.join(sysconfig.get_paths()["stdlib"], "code.py")
    try:
        text = open(path, encoding="utf-8").read()
    except OSError as e:
        raise core.AnalysisError(f"cannot read stdlib code.py: {e}")
    m = Module(path, ast.parse(text), text)
    f = m.func("InteractiveInterpreter.runsource")
    ctx.need(f is not None, "stdlib InteractiveInterpreter.runsource not found")
    rets = [n for n in pyq.walk_no_nested(f) if isinstance(n, ast.Return)]
    facts = dict(false_after_runcode=False, false_after_syntaxerror=False, true_when_incomplete=False)
    for r in rets:
        par = r._parent
        sibs = par.body if hasattr(par, "body") and r in getattr(par, "body", []) else []
        i = sibs.index(r) if r in sibs else -1
        prev = sibs[i - 1] if i > 0 else None
        val = r.value.value if isinstance(r.value, ast.Constant) else None
        if prev is not None and isinstance(prev, ast.Expr) and isinstance(prev.value, ast.Call):
            d = dotted(prev.value.func)
            if d == "self.runcode" and val is False:
                facts["false_after_runcode"] = True
            if d == "self.showsyntaxerror" and val is False:
                facts["false_after_syntaxerror"] = True
        if isinstance(par, ast.If) and "code is None" in norm(par.test) and val is True:
            facts["true_when_incomplete"] = True
    return facts


def _is_self_attr(n, attr=None):
    return isinstance(n, ast.Attribute) and isinstance(n.value, ast.Name) and n.value.id == "self" and (attr is None or n.attr == attr)


def check(ctx, src):
    ctx.rule("REPL-FRESH", "the statement that shifts *1/*2/*3 is reached only when REPL.runcode assigned self.last_value during this "
             "runsource call: it is guarded by a flag that runsource clears before delegating and that only runcode sets, after the "
             "assignment of last_value inside its try body (interprocedural over the stdlib's InteractiveInterpreter.runsource, parsed)")
    ctx.rule("REPL-SHIFT", "the shift walks the pre-mangled names *1,*2,*3 in ascending order, pushing last_value in front")
    ctx.rule("REPL-CONT", "HyCompile.__call__ re-raises PrematureEndOfInput/SyntaxError; HyCommandCompiler.__call__ turns PrematureEndOfInput into "
             "`None` (= ask for more input) exactly when allow_incomplete")
    ctx.rule("REPL-ERR", "*e is written by _error_wrap, which both showsyntaxerror and showtraceback call; runcode's handler calls showtraceback "
             "and lets SystemExit through; print_last_value is False on every failure path")
    mod = src.py(REL)
    rs = mod.func("REPL.runsource")
    rc = mod.func("REPL.runcode")
    ctx.require(rs is not None and rc is not None, "REPL.runsource / REPL.runcode not found")
    ctx.functions.update({f"{REL}:REPL.runsource", f"{REL}:REPL.runcode"})
    std = _stdlib_runsource(ctx)
    ctx.need(std["false_after_runcode"] and std["false_after_syntaxerror"] and std["true_when_incomplete"],
                f"stdlib InteractiveInterpreter.runsource no longer has the three documented cases: {std}")
    ctx.ok("REPL-FRESH", "stdlib|code.InteractiveInterpreter.runsource", "returns False both after showsyntaxerror and after runcode, True when incomplete")

    # --- locate the shift -----------------------------------------------------------------
    shift = None
    for n in pyq.walk_no_nested(rs):
        if isinstance(n, ast.For) and "_repl_results_symbols" in norm(n.iter):
            shift = n
    ctx.need(shift is not None, "the *1/*2/*3 shift loop was not found in REPL.runsource")
    key = f"{REL}|REPL.runsource|shift"
    # last_value read feeding the shift
    lv_stmt = None
    body_parent = shift._parent
    sibs = body_parent.body if shift in getattr(body_parent, "body", []) else body_parent.orelse
    i = sibs.index(shift)
    for st in sibs[:i]:
        if isinstance(st, ast.Assign) and pyq.contains(st.value, lambda x: _is_self_attr(x, "last_value")):
            lv_stmt = st
    ctx.check(lv_stmt is not None, "REPL-SHIFT", key + "|source", "the shift does not start from self.last_value", REL, shift.lineno, detail=norm(lv_stmt) if lv_stmt else "")
    carry = lv_stmt.targets[0].id if lv_stmt is not None and isinstance(lv_stmt.targets[0], ast.Name) else None
    ctx.check(norm(shift.iter) == "self._repl_results_symbols", "REPL-SHIFT", key + "|order", f"the shift iterates `{norm(shift.iter)}`, not the symbols in order",
              REL, shift.lineno, witness="results are shifted in the wrong direction", detail="iterates self._repl_results_symbols")
    loopvar = shift.target.id if isinstance(shift.target, ast.Name) else None
    want = f"self.locals[{loopvar}], {carry} = {carry}, self.locals[{loopvar}]"
    # the loop body, executed on symbols: afterwards the slot holds what was carried in and the carry holds the slot's old value
    slot = f"self.locals[{loopvar}]"
    env = {slot: "SLOT0", carry: "CARRY0"}

    def ev(e):
        if isinstance(e, ast.Name):
            return env.get(e.id, f"?{e.id}")
        if isinstance(e, ast.Subscript) and str(norm(e)) == slot:
            return env[slot]
        if isinstance(e, ast.Tuple):
            return [ev(x) for x in e.elts]
        raise ValueError(norm(e))

    def put(t, v):
        if isinstance(t, ast.Name):
            env[t.id] = v
        elif isinstance(t, ast.Subscript) and str(norm(t)) == slot:
            env[slot] = v
        elif isinstance(t, ast.Tuple) and isinstance(v, list) and len(v) == len(t.elts):
            for a, b in zip(t.elts, v):
                put(a, b)
        else:
            raise ValueError(norm(t))

    okswap = None
    try:
        for st in shift.body:
            if not (isinstance(st, ast.Assign) and len(st.targets) == 1):
                raise ValueError(norm(st))
            put(st.targets[0], ev(st.value))
        okswap = env[slot] == "CARRY0" and env.get(carry) == "SLOT0"
    except (ValueError, KeyError):
        okswap = None
    ctx.decide("REPL-SHIFT", key + "|swap", okswap if carry and loopvar else None, f"one step of the shift leaves slot={env.get(slot)} carry={env.get(carry)}; expected `{want}`", REL, shift.lineno,
               witness="*2 and *3 receive the wrong values", detail=want)
    init = mod.func("REPL.__init__")
    sy = [n for n in ast.walk(init) if isinstance(n, ast.Assign) and any(_is_self_attr(t, "_repl_results_symbols") for t in n.targets)] if init else []
    ctx.need(len(sy) == 1, "REPL.__init__ no longer defines _repl_results_symbols")
    val = _static(sy[0].value)
    ctx.decide("REPL-SHIFT", f"{REL}|REPL.__init__|symbols", None if val is None else val == [("mangle", "*1"), ("mangle", "*2"), ("mangle", "*3")],
               f"result symbols are `{norm(sy[0].value)}` = {val}", REL, sy[0].lineno, detail="*1,*2,*3 ascending, mangled")

    # --- freshness ------------------------------------------------------------------------------
    # guards on the path to the shift
    flag = None
    for a in pyq.atoms(shift, rs):
        x = a.node
        if _is_self_attr(x) and x.attr not in ("last_value", "print_last_value", "locals"):
            flag = x.attr  # a conjunct of the path condition that is a plain `self.<flag>` (positively required)
    lv_assign = [a for a in pyq.walk_no_nested(rc) if isinstance(a, ast.Assign) and any(_is_self_attr(t, "last_value") for t in a.targets)]
    ctx.need(len(lv_assign) == 1, "REPL.runcode no longer assigns self.last_value exactly once")
    lva = lv_assign[0]
    in_try = [t for t, part in pyq.enclosing_try_parts(lva) if part in ("body", "orelse")]  # else-clause: runs only on success, like the end of the body
    if flag is None:
        ctx.bad("REPL-FRESH", key + "|guard", "the shift is reached whenever the base runsource returns False, which (stdlib, parsed) also happens after a "
                "syntax error and after runcode caught an exception; self.last_value is then the previous input's value", REL, shift.lineno,
                witness='inputs `5` then `(/ 1 0)`: *1 == *2 == 5')
    else:
        # (1) cleared in runsource before delegating
        sup = [c for c in pyq.calls(rs) if isinstance(c.func, ast.Attribute) and c.func.attr == "runsource" and isinstance(c.func.value, ast.Call)
               and dotted(c.func.value.func) == "super"]
        ctx.need(len(sup) == 1, "REPL.runsource no longer delegates to super().runsource exactly once")
        sup_i = pyq.top_stmt_index(rs, sup[0])
        clears = [(k, st) for k, st in enumerate(rs.body) if isinstance(st, ast.Assign) and any(_is_self_attr(t, flag) for t in st.targets)
                  and isinstance(st.value, ast.Constant) and not st.value.value]
        ctx.check(bool(clears) and clears[0][0] < sup_i, "REPL-FRESH", key + "|flag-cleared",
                  f"self.{flag} is not cleared at the top of runsource before delegating", REL, rs.lineno,
                  witness="a failed input after a successful one still sees the flag set and shifts the stale value", detail=f"self.{flag} = False precedes super().runsource")
        # (2) set only in runcode, after the last_value assignment, in the same try body
        sets = []
        for q, f in mod.funcs.items():
            for a in pyq.walk_no_nested(f):
                if isinstance(a, ast.Assign) and any(_is_self_attr(t, flag) for t in a.targets):
                    truthy = not (isinstance(a.value, ast.Constant) and not a.value.value)
                    if truthy:
                        sets.append((q, a))
        ctx.check(len(sets) >= 1 and all(q == "REPL.runcode" for q, _ in sets), "REPL-FRESH", key + "|flag-owner",
                  f"self.{flag} is set in {[q for q, _ in sets]}; it must be set only in REPL.runcode", REL, rs.lineno, detail="set only in runcode")
        for q, a in sets:
            if q != "REPL.runcode":
                continue
            same_try = [t for t, part in pyq.enclosing_try_parts(a) if part in ("body", "orelse")]
            after = a.lineno > lva.lineno and same_try and in_try and same_try[0] is in_try[0] and a._parent is lva._parent
            ctx.check(after, "REPL-FRESH", key + "|flag-after-value",
                      f"self.{flag} is set at line {a.lineno}, not after `self.last_value = ...` in the same try body", REL, a.lineno,
                      witness="an input that raises while being evaluated still marks a new value", detail="set directly after last_value in the try body")
    # the value assignment itself is in a try body whose handlers do not assign last_value
    ctx.check(bool(in_try), "REPL-ERR", f"{REL}|REPL.runcode|try", "self.last_value is not assigned inside runcode's try", REL, lva.lineno, detail="inside try body")
    # statements are evaluated before the expression
    evs = [c for c in pyq.calls(rc) if dotted(c.func) == "eval"]
    feeds = len(evs) == 2 and (evs[1]._parent is lva or (isinstance(evs[1]._parent, ast.Assign) and isinstance(evs[1]._parent.targets[0], ast.Name)
                                                       and isinstance(lva.value, ast.Name) and lva.value.id == evs[1]._parent.targets[0].id))
    ok_order = len(evs) == 2 and str(norm(evs[0].args[0])) != str(norm(evs[1].args[0])) and feeds and evs[0].lineno < evs[1].lineno
    ctx.check(ok_order, "REPL-ERR", f"{REL}|REPL.runcode|order", "runcode must eval code[0] (statements) and then assign eval(code[1]) to last_value", REL, rc.lineno,
              detail="eval(code[0]); last_value = eval(code[1])")

    # --- error paths ------------------------------------------------------------------------------
    if in_try:
        tr = in_try[0]
        hs = {norm(h.type) if h.type is not None else "<bare>": h for h in tr.handlers}
        se = hs.get("SystemExit")
        ctx.check(se is not None and len(se.body) == 1 and isinstance(se.body[0], ast.Raise) and se.body[0].exc is None
                  and list(hs).index("SystemExit") == 0, "REPL-ERR", f"{REL}|REPL.runcode|SystemExit", "SystemExit is not re-raised first", REL, tr.lineno, detail="re-raised")
        ex = hs.get("Exception") or hs.get("BaseException") or hs.get("<bare>")
        good = ex is not None and pyq.contains(ex.body, lambda n: isinstance(n, ast.Call) and dotted(n.func) == "self.showtraceback") is not None
        good2 = ex is not None and pyq.contains(ex.body, lambda n: isinstance(n, ast.Assign) and any(_is_self_attr(t, "print_last_value") for t in n.targets)
                                                and isinstance(n.value, ast.Constant) and n.value.value is False) is not None
        ctx.check(good, "REPL-ERR", f"{REL}|REPL.runcode|showtraceback", "runcode's handler does not call showtraceback (so *e is not set)", REL, tr.lineno,
                  witness="after (/ 1 0), *e is still the previous exception", detail="handler calls showtraceback")
        ctx.check(good2, "REPL-ERR", f"{REL}|REPL.runcode|no-print", "runcode's handler does not clear print_last_value", REL, tr.lineno,
                  witness="after a failing input the previous result is printed again", detail="print_last_value = False")
    ew = mod.func("REPL._error_wrap")
    ctx.require(ew is not None, "REPL._error_wrap not found")
    star_e = pyq.contains(ew, lambda n: isinstance(n, ast.Assign) and isinstance(n.targets[0], ast.Subscript) and norm(n.targets[0]) == "self.locals[mangle('*e')]")
    ctx.check(star_e is not None, "REPL-ERR", f"{REL}|REPL._error_wrap|*e", "_error_wrap does not store the exception under *e", REL, ew.lineno, detail=norm(star_e) if star_e else "")
    if star_e is not None:
        # the stored value is the `v` of (t, v, tb)
        tup = pyq.contains(ew, lambda n: isinstance(n, ast.Assign) and isinstance(n.targets[0], ast.Tuple) and len(n.targets[0].elts) == 3)
        okv = tup is not None and isinstance(star_e.value, ast.Name) and star_e.value.id == tup.targets[0].elts[1].id
        ctx.check(okv, "REPL-ERR", f"{REL}|REPL._error_wrap|*e-value", "*e is not the exception value of the (type, value, traceback) triple", REL, star_e.lineno, detail="value element")
    for meth in ("showsyntaxerror", "showtraceback"):
        f = mod.func("REPL." + meth)
        ctx.require(f is not None, f"REPL.{meth} not found")
        c = pyq.contains(f, lambda n: isinstance(n, ast.Call) and dotted(n.func) == "self._error_wrap")
        ctx.check(c is not None, "REPL-ERR", f"{REL}|REPL.{meth}|calls-error-wrap", f"{meth} does not go through _error_wrap, so *e is not updated", REL, f.lineno,
                  detail="calls _error_wrap")
    sse = mod.func("REPL.showsyntaxerror")
    c = pyq.contains(sse, lambda n: isinstance(n, ast.Assign) and any(_is_self_attr(t, "print_last_value") for t in n.targets)
                     and isinstance(n.value, ast.Constant) and n.value.value is False)
    ctx.check(c is not None, "REPL-ERR", f"{REL}|REPL.showsyntaxerror|no-print", "showsyntaxerror does not clear print_last_value", REL, sse.lineno,
              witness="after a syntax error the previous result is printed again", detail="print_last_value = False")
    # runsource's own handlers return False after displaying the error
    for h in [h for t in pyq.walk_no_nested(rs) if isinstance(t, ast.Try) for h in t.handlers]:
        shows = pyq.contains(h.body, lambda n: isinstance(n, ast.Call) and dotted(n.func) in ("self.showsyntaxerror", "self.showtraceback"))
        retf = h.body and isinstance(h.body[-1], ast.Return) and isinstance(h.body[-1].value, ast.Constant) and h.body[-1].value.value is False
        ctx.check(shows is not None and retf, "REPL-ERR", f"{REL}|REPL.runsource|except {norm(h.type)}", "handler must display the error and return False", REL, h.lineno,
                  detail="shows error, returns False")

    check_cont(ctx, src, mod)
    from . import c19
    from .. import readerq

    ctx.rule("PEOI-GUARD", "PrematureEndOfInput (= ask for more input) is raised only after observing the end of input, so a complete but invalid text is never reported as incomplete")
    c19.check_peoi_guard(ctx, readerq.Reader(src))
    from .. import core

    ctx.rule("SRC-RESET", "the REPL reuses one reader: every new input must reset the reader's look-ahead and position state")
    core.transfer(ctx, src, c19, {"SRC-RESET"})
    ctx.floor("REPL-ERR", 10)
    ctx.floor("REPL-CONT", 4)


def check_cont(ctx, src, mod=None):
    """REPL continuation routing (shared with C19)."""
    mod = mod or src.py(REL)
    # --- continuation routing ----------------------------------------------------------------------
    hc = mod.func("HyCompile.__call__")
    ctx.require(hc is not None, "HyCompile.__call__ not found")
    # how does a PrematureEndOfInput raised in the try body leave?  The first handler whose type covers it decides: it must
    # reach a bare `raise` under conditions that hold for a PrematureEndOfInput
    handler = None
    for t in pyq.walk_no_nested(hc):
        if isinstance(t, ast.Try) and any(dotted(c.func) == "read_many" for c in pyq.calls(t) if any(c is x for b in t.body for x in ast.walk(b))):
            for h in t.handlers:
                names = [dotted(e) for e in (h.type.elts if isinstance(h.type, ast.Tuple) else [h.type])] if h.type is not None else ["BaseException"]
                if any(n in PEOI_SUPERS or n == "BaseException" for n in names):
                    handler = h
                    break
    ctx.need(handler is not None, "HyCompile.__call__: no handler around read_many covers PrematureEndOfInput")
    bare = [r for r in ast.walk(handler) if isinstance(r, ast.Raise) and r.exc is None]
    verdict = False if not bare else None
    for r in bare:
        gs = [(t_, pol) for t_, pol in pyq.guards(r, handler)]
        if all(pol and _covers_peoi(t_, handler.name) for t_, pol in gs):
            verdict = True
    rer = bare[0] if bare else None
    ctx.decide("REPL-CONT", f"{REL}|HyCompile.__call__|reraise", verdict, "PrematureEndOfInput is not re-raised unchanged by HyCompile.__call__ "
               "(it would be converted into code that raises at run time, and the REPL would never ask for more input)", REL, handler.lineno,
               witness="typing `(+ 1` prints a traceback instead of the continuation prompt", detail="bare raise for PrematureEndOfInput")
    # read_many is inside that try
    rm = [c for c in pyq.calls(hc) if dotted(c.func) == "read_many"]
    ctx.check(len(rm) == 1 and any(part == "body" for _, part in pyq.enclosing_try_parts(rm[0])), "REPL-CONT", f"{REL}|HyCompile.__call__|read-in-try",
              "read_many is not inside the try", REL, hc.lineno, detail="inside try")
    cc = mod.func("HyCommandCompiler.__call__")
    ctx.require(cc is not None, "HyCommandCompiler.__call__ not found")
    hs = [h for t in pyq.walk_no_nested(cc) if isinstance(t, ast.Try) for h in t.handlers if h.type is not None and norm(h.type) == "PrematureEndOfInput"]
    ok = None
    if len(hs) == 1:
        # exits of the handler: a bare `raise` exactly when not allow_incomplete; otherwise it returns None (or falls off the end)
        raises = [n for n in ast.walk(hs[0]) if isinstance(n, ast.Raise)]
        rets = [n for n in ast.walk(hs[0]) if isinstance(n, ast.Return)]
        ok = (len(raises) == 1 and raises[0].exc is None and [str(g) for g in pyq.guard_texts(raises[0], hs[0])] == ["not self.allow_incomplete"]
              and all(r.value is None or (isinstance(r.value, ast.Constant) and r.value.value is None) for r in rets))
    ctx.decide("REPL-CONT", f"{REL}|HyCommandCompiler.__call__|continuation", ok,
              "PrematureEndOfInput must become `None` (continuation) exactly when allow_incomplete, and be re-raised otherwise", REL, cc.lineno,
              witness="the REPL reports an error for `(+ 1` instead of prompting `... `", detail="except PrematureEndOfInput: if not allow_incomplete: raise")
    sup = pyq.contains(cc, lambda n: isinstance(n, ast.Return) and isinstance(n.value, ast.Call) and "super().__call__" in norm(n.value))
    ctx.check(sup is not None, "REPL-CONT", f"{REL}|HyCommandCompiler.__call__|delegates", "does not return super().__call__(...)", REL, cc.lineno, detail="returns super().__call__")


def _static(e, env=None):
    """Value of a small constant expression (comprehension over a literal range, string formatting); mangle(x) is kept
    symbolic as ("mangle", x).  None when it is not of that kind."""
    env = env or {}
    try:
        if isinstance(e, ast.Constant):
            return e.value
        if isinstance(e, ast.Name):
            return env[e.id]
        if isinstance(e, (ast.Tuple, ast.List)):
            return [_static(x, env) for x in e.elts]
        if isinstance(e, ast.BinOp) and isinstance(e.op, (ast.Add, ast.Sub, ast.Mod)):
            a, b = _static(e.left, env), _static(e.right, env)
            if a is None or b is None:
                return None
            return a + b if isinstance(e.op, ast.Add) else (a - b if isinstance(e.op, ast.Sub) else a % (tuple(b) if isinstance(b, list) else b))
        if isinstance(e, ast.JoinedStr):
            out = ""
            for v in e.values:
                if isinstance(v, ast.Constant):
                    out += v.value
                elif isinstance(v, ast.FormattedValue) and v.format_spec is None and v.conversion == -1:
                    x = _static(v.value, env)
                    if x is None:
                        return None
                    out += str(x)
                else:
                    return None
            return out
        if isinstance(e, ast.Call):
            d = dotted(e.func)
            if d == "mangle" and len(e.args) == 1:
                x = _static(e.args[0], env)
                return None if x is None else ("mangle", x)
            if d == "range" and 1 <= len(e.args) <= 2:
                a = [_static(x, env) for x in e.args]
                return None if None in a else list(range(*a))
            if d == "str" and len(e.args) == 1:
                x = _static(e.args[0], env)
                return None if x is None else str(x)
            if isinstance(e.func, ast.Attribute) and e.func.attr == "format" and not e.keywords:
                f_ = _static(e.func.value, env)
                a = [_static(x, env) for x in e.args]
                return None if f_ is None or None in a else f_.format(*a)
            return None
        if isinstance(e, ast.ListComp) and len(e.generators) == 1 and not e.generators[0].ifs and isinstance(e.generators[0].target, ast.Name):
            it = _static(e.generators[0].iter, env)
            if it is None:
                return None
            out = [_static(e.elt, {**env, e.generators[0].target.id: x}) for x in it]
            return None if any(o is None for o in out) else out
    except Exception:
        return None
    return None


PEOI_SUPERS = {"PrematureEndOfInput", "LexException", "HySyntaxError", "HyLanguageError", "HyError", "SyntaxError", "Exception"}


def _covers_peoi(test, evar):
    """Is `test` true whenever the caught exception is a PrematureEndOfInput?"""
    if isinstance(test, ast.BoolOp) and isinstance(test.op, ast.Or):
        return any(_covers_peoi(v, evar) for v in test.values)
    if isinstance(test, ast.Call) and dotted(test.func) == "isinstance" and len(test.args) == 2 and isinstance(test.args[0], ast.Name) and test.args[0].id == evar:
        t = test.args[1]
        names = [dotted(e) for e in t.elts] if isinstance(t, ast.Tuple) else [dotted(t)]
        return any(n and n.split(".")[-1] in PEOI_SUPERS for n in names)
    return False


def _positive(test, node):
    """Is `node` required to be truthy for `test` to be true? (conjunct of an `and` chain, or the test itself)"""
    if test is node:
        return True
    if isinstance(test, ast.BoolOp) and isinstance(test.op, ast.And):
        return any(_positive(v, node) for v in test.values)
    return False


SELFTESTS = [
    dict(name="unguarded shift (F4)", file=REL, old="        if not res and self.has_new_value:", new="        if not res:", rule="REPL-FRESH", key="guard"),
    dict(name="flag set before eval", file=REL,
         old="            self.last_value = eval(code[1], self.locals)\n            self.has_new_value = True\n",
         new="            self.has_new_value = True\n            self.last_value = eval(code[1], self.locals)\n", rule="REPL-FRESH", key="flag-after-value"),
    dict(name="flag never cleared", file=REL, old='        self.has_new_value = False\n        try:\n            res = super().runsource', new='        try:\n            res = super().runsource',
         rule="REPL-FRESH", key="flag-cleared"),
    dict(name="continuation swallowed", file=REL, old="            if not self.allow_incomplete:\n                raise", new="            if self.allow_incomplete:\n                raise",
         rule="REPL-CONT", key="continuation"),
    dict(name="PEOI converted", file=REL, old="            if isinstance(e, (PrematureEndOfInput, SyntaxError)):", new="            if isinstance(e, (LexError, SyntaxError)) and not isinstance(e, PrematureEndOfInput):",
         rule="REPL-CONT", key="reraise"),
    dict(name="rename carry twin", file=REL, kind="twin", edits=[
        ("            next_result = self.last_value\n", "            carry = self.last_value\n"),
        ("                self.locals[sym], next_result = next_result, self.locals[sym]", "                self.locals[sym], carry = carry, self.locals[sym]")]),
]
