"""A small abstract interpreter for "save a dictionary key, run something that may overwrite it, put it back".

Used for hy_eval_user (C39): whatever way the function is written, for every initial state of `locals['hy']` (absent;
present and truthy; present and falsy; present and None) and every way the evaluation can end (returns; raises after
binding `hy`; raises before binding it), the key must be back in its initial state when the function is left.  The
function body is executed on this finite abstract domain - not on real values, and nothing of /repo is run.  Any
construct outside the small language below makes the result "not recognised" (None), never a violation.

Abstract values: ("old", k) the user's value in scenario k, "HYMOD" what the evaluation binds, True / False / None,
tuples of abstract values, "DICT" the namespace itself, ("val", i) an opaque value (the result of the evaluation).
"""
from __future__ import annotations

import ast

from .pysrc import dotted

ABSENT = "<absent>"


class Unknown(Exception):
    pass


class _Raise(Exception):
    pass


class _Return(Exception):
    def __init__(self, v):
        self.v = v


SCENARIOS = {"absent": ABSENT, "truthy": ("old", "truthy"), "falsy": ("old", "falsy"), "none": None}


def _truth(v):
    if v is True or v is False:
        return v
    if v is None:
        return False
    if isinstance(v, tuple) and v and v[0] == "old":
        return v[1] == "truthy"
    if isinstance(v, tuple) and v and v[0] == "tuple":
        return len(v) > 1
    if v in ("DICT", "HYMOD"):
        return True
    if isinstance(v, tuple) and v and v[0] == "val":
        raise Unknown("truth of an opaque value")
    raise Unknown(f"truth of {v!r}")


class Machine:
    def __init__(self, func, dict_name, key, effect_call, mode):
        self.func, self.dict_name, self.key, self.effect_call, self.mode = func, dict_name, key, effect_call, mode
        self.env = {}
        self.slot = ABSENT
        self.steps = 0

    # -- expressions ------------------------------------------------------------------------------
    def is_dict(self, e):
        return isinstance(e, ast.Name) and (e.id == self.dict_name or self.env.get(e.id) == "DICT")

    def is_slot(self, e):
        return isinstance(e, ast.Subscript) and self.is_dict(e.value) and isinstance(e.slice, ast.Constant) and e.slice.value == self.key

    def ev(self, e):
        self.steps += 1
        if self.steps > 4000:
            raise Unknown("too long")
        if isinstance(e, ast.Constant):
            if e.value is None or isinstance(e.value, bool):
                return e.value
            return ("const", e.value)
        if isinstance(e, ast.Name):
            if e.id == self.dict_name:
                return "DICT"
            if e.id in self.env:
                return self.env[e.id]
            raise Unknown(f"name {e.id}")
        if isinstance(e, ast.Tuple):
            return ("tuple",) + tuple(self.ev(x) for x in e.elts)
        if self.is_slot(e):
            if self.slot == ABSENT:
                raise _Raise()
            return self.slot
        if isinstance(e, ast.NamedExpr) and isinstance(e.target, ast.Name):
            v = self.ev(e.value)
            self.env[e.target.id] = v
            return v
        if isinstance(e, ast.UnaryOp) and isinstance(e.op, ast.Not):
            return not _truth(self.ev(e.operand))
        if isinstance(e, ast.BoolOp):
            v = None
            for x in e.values:
                v = self.ev(x)
                t = _truth(v)
                if isinstance(e.op, ast.And) and not t:
                    return v
                if isinstance(e.op, ast.Or) and t:
                    return v
            return v
        if isinstance(e, ast.IfExp):
            return self.ev(e.body) if _truth(self.ev(e.test)) else self.ev(e.orelse)
        if isinstance(e, ast.Compare) and len(e.ops) == 1:
            op, l, r = e.ops[0], e.left, e.comparators[0]
            if isinstance(op, (ast.In, ast.NotIn)) and isinstance(l, ast.Constant) and l.value == self.key and self.is_dict(r):
                present = self.slot != ABSENT
                return present if isinstance(op, ast.In) else not present
            if isinstance(op, (ast.Is, ast.IsNot)):
                a, b = self.ev(l), self.ev(r)
                if b is None or a is None:
                    same = a is None and b is None
                    return same if isinstance(op, ast.Is) else not same
                if a == b and isinstance(a, tuple) and a[0] in ("old", "val", "const"):
                    return isinstance(op, ast.Is)
                raise Unknown("identity of values")
            raise Unknown("comparison")
        if isinstance(e, ast.Call):
            d = dotted(e.func) or ""
            if e is self.effect_call or d == self.effect_call_name:
                for a in list(e.args) + [k.value for k in e.keywords]:
                    self.ev_loose(a)
                if self.mode == "raise-before":
                    raise _Raise()
                self.slot = "HYMOD"
                if self.mode == "raise-after":
                    raise _Raise()
                return ("val", "result")
            if d == "bool" and len(e.args) == 1:
                return _truth(self.ev(e.args[0]))
            if isinstance(e.func, ast.Attribute) and self.is_dict(e.func.value) and e.args and isinstance(e.args[0], ast.Constant) and e.args[0].value == self.key:
                m = e.func.attr
                if m == "pop":
                    if self.slot == ABSENT:
                        if len(e.args) < 2:
                            raise _Raise()
                        return self.ev(e.args[1])
                    v, self.slot = self.slot, ABSENT
                    return v
                if m == "get":
                    return self.slot if self.slot != ABSENT else (self.ev(e.args[1]) if len(e.args) > 1 else None)
                if m == "setdefault" and len(e.args) == 2:
                    if self.slot == ABSENT:
                        self.slot = self.ev(e.args[1])
                    return self.slot
                raise Unknown(f"dict method {m}")
            raise Unknown(f"call {d or '?'}")
        raise Unknown(type(e).__name__)

    def ev_loose(self, e):
        """Arguments of the evaluation call: evaluated for their effects on the slot only; anything unknown is opaque."""
        try:
            return self.ev(e)
        except Unknown:
            return ("val", "opaque")

    # -- statements -------------------------------------------------------------------------------
    def assign(self, t, v):
        if isinstance(t, ast.Name):
            if t.id == self.dict_name:
                self.env[t.id] = v
                if v != "DICT":
                    raise Unknown("namespace rebound")
                return
            self.env[t.id] = v
        elif self.is_slot(t):
            self.slot = v
        elif isinstance(t, (ast.Tuple, ast.List)):
            if not (isinstance(v, tuple) and v and v[0] == "tuple" and len(v) - 1 == len(t.elts)):
                raise _Raise() if isinstance(v, tuple) and v and v[0] == "tuple" else Unknown("unpacking")
            for a, b in zip(t.elts, v[1:]):
                self.assign(a, b)
        else:
            raise Unknown("assignment target")

    def run(self, stmts):
        for st in stmts:
            self.stmt(st)

    def stmt(self, st):
        if isinstance(st, ast.Expr):
            if isinstance(st.value, ast.Constant):
                return
            self.ev(st.value)
        elif isinstance(st, ast.Assign):
            v = self.ev(st.value)
            for t in st.targets:
                self.assign(t, v)
        elif isinstance(st, ast.AnnAssign) and st.value is not None:
            self.assign(st.target, self.ev(st.value))
        elif isinstance(st, ast.If):
            self.run(st.body if _truth(self.ev(st.test)) else st.orelse)
        elif isinstance(st, ast.Return):
            raise _Return(self.ev(st.value) if st.value is not None else None)
        elif isinstance(st, ast.Pass):
            return
        elif isinstance(st, ast.Delete):
            for t in st.targets:
                if self.is_slot(t):
                    if self.slot == ABSENT:
                        raise _Raise()
                    self.slot = ABSENT
                else:
                    raise Unknown("del")
        elif isinstance(st, ast.Try):
            pending = None
            try:
                try:
                    self.run(st.body)
                    self.run(st.orelse)
                except _Raise as r:
                    if st.handlers:
                        raise Unknown("except handlers")
                    pending = r
            except _Return as r:
                pending = r
            try:
                self.run(st.finalbody)
            except Unknown:
                raise
            if pending is not None:
                raise pending
        elif isinstance(st, ast.Raise):
            raise _Raise()
        else:
            raise Unknown(type(st).__name__)


def check_restore(func, dict_name, key, effect_name, prelude=None):
    """-> (True, None) | (False, description of the scenario that fails) | (None, why not recognised)."""
    body = [s for s in func.body if not (isinstance(s, ast.Expr) and isinstance(s.value, ast.Constant))]
    for sc, init in SCENARIOS.items():
        for mode in ("return", "raise-after", "raise-before"):
            m = Machine(func, dict_name, key, None, mode)
            m.effect_call_name = effect_name
            m.slot = init
            for a in func.args.args:
                if a.arg != dict_name:
                    m.env[a.arg] = ("val", a.arg)
            m.env.update(prelude or {})
            outcome = "fell off the end"
            try:
                m.run(body)
            except _Return as r:
                outcome = "returned"
                if mode == "return" and r.v != ("val", "result"):
                    return False, f"with `{key}` {sc} and the evaluation returning, the function returns {r.v!r} instead of the evaluation's value"
            except _Raise:
                outcome = "raised"
                if mode == "return":
                    return False, f"with `{key}` {sc} the function raises although the evaluation succeeded"
            except Unknown as u:
                return None, f"{u}"
            if m.slot != init:
                show = lambda v: "absent" if v == ABSENT else ("the module the evaluation bound" if v == "HYMOD" else ("the user's value" if isinstance(v, tuple) and v[0] == "old" else repr(v)))
                return False, f"with `{key}` initially {sc} ({show(init)}) and the evaluation ending by `{mode}`, the namespace is left with `{key}` = {show(m.slot)} ({outcome})"
    return True, None
