"""C26 — model constructors accept what syntax can express (thin: single source of truth for the validity predicates)."""
CANON = True

import ast

from .. import pm, pyq
from ..pysrc import dotted, norm, flat

MO = "hy/models.py"
HR = "hy/reader/hy_reader.py"


def check(ctx, src):
    ctx.rule("CTOR-SYMBOL", "Symbol() validates every string that does not come from the parser through the reader's own as_identifier and accepts it only if the result is a Symbol")
    ctx.rule("CTOR-KEYWORD", "Keyword() rejects, for non-parser input, text containing '.', whitespace (the reader's isnormalizedspace) or any of the reader's NON_IDENT characters")
    ctx.rule("CTOR-BRACKETS", "String/FString reject content containing the closing delimiter `]DELIM]` whenever a delimiter is given — including the empty one")
    ctx.rule("CTOR-IDENT", "as_identifier's reader-less arm rejects empty text, a leading ':' or '#', whitespace and NON_IDENT characters with the same predicates the reader uses")
    mo = src.py(MO)
    hr = src.py(HR)
    s = mo.func("Symbol.__new__")
    ctx.require(s is not None, "Symbol.__new__ not found")
    g = next((n for n in s.body if isinstance(n, ast.If)), None)
    ctx.check(g is not None and norm(g.test) == "not from_parser", "CTOR-SYMBOL", f"{MO}|Symbol.__new__|guard", f"validation runs under `{norm(g.test) if g else None}`; it must run for every non-parser input", MO, s.lineno,
              witness="Symbol('NaN') succeeds although reading NaN gives a Float", detail="not from_parser")
    t = flat(g) if g is not None else ""
    ctx.check(g is not None and pm.find(g, "sym = as_identifier(s)\nif not isinstance(sym, Symbol):\n    raise ValueError(___)\nreturn sym") is not None, "CTOR-SYMBOL", f"{MO}|Symbol.__new__|via as_identifier", "Symbol must be validated by as_identifier and rejected unless that yields a Symbol", MO, s.lineno, detail="as_identifier(s) must be a Symbol")
    ctx.check("from hy.reader.hy_reader import as_identifier" in t, "CTOR-SYMBOL", f"{MO}|Symbol.__new__|same function", "the validator is not the reader's as_identifier", MO, s.lineno, detail="imported from hy.reader.hy_reader")
    k = mo.func("Keyword.__init__")
    ctx.require(k is not None, "Keyword.__init__ not found")
    t = flat(k)
    ctx.check(pm.find(k, "if not from_parser:\n    ...\n    if value and ('.' in value or any((isnormalizedspace(c) for c in value)) or HyReader.NON_IDENT.intersection(value)):\n        raise ValueError(___)") is not None, "CTOR-KEYWORD", f"{MO}|Keyword.__init__|predicate",
              "the keyword validity predicate changed", MO, k.lineno, witness="Keyword('a b') or Keyword('a.b') succeeds although `:a b` / `:a.b` do not read as that keyword", detail="'.', whitespace, NON_IDENT")
    ctx.check("from hy.reader.hy_reader import HyReader" in t and "from hy.reader.reader import isnormalizedspace" in t, "CTOR-KEYWORD", f"{MO}|Keyword.__init__|same objects", "the predicates are not the reader's own objects", MO, k.lineno, detail="HyReader.NON_IDENT, isnormalizedspace")
    for cn, text in (("String", "if brackets is not None and f']{brackets}]' in value:\n    raise ValueError(___)"), ("FString", "if brackets is not None and _string_in_node(f']{brackets}]', value):\n    raise ValueError(___)")):
        f = mo.func(f"{cn}.__new__")
        ctx.require(f is not None, f"{cn}.__new__ not found")
        t = flat(f)
        ctx.check(pm.find(f, text) is not None, "CTOR-BRACKETS", f"{MO}|{cn}.__new__|closing delimiter", f"{cn} must reject content containing `]DELIM]` for every delimiter that is not None (the empty delimiter `#[[…]]` included)", MO, f.lineno,
                  witness=f"{cn}('a ]] b', brackets='') is accepted but does not read back", detail="brackets is not None and ]D] in value")
    ai = hr.func("as_identifier")
    ctx.require(ai is not None, "as_identifier not found")
    g = next((n for n in ai.body if isinstance(n, ast.If) and norm(n.test) == "reader is None"), None)
    t = flat(g) if g is not None else ""
    ctx.check(g is not None and pm.find(g, "if not ident or ident[0] in ':#' or any((isnormalizedspace(c) for c in ident)) or HyReader.NON_IDENT.intersection(ident):\n    raise ValueError(___)") is not None, "CTOR-IDENT", f"{HR}|as_identifier|reader-less arm",
              "the reader-less validity test of as_identifier changed", HR, ai.lineno, witness="Symbol('a b') or Symbol(':a') succeeds", detail="empty, leading : or #, whitespace, NON_IDENT")
    order = [norm(n.body[0]) for n in ai.body if isinstance(n, ast.Try)]
    ctx.check(order[:2] == ["return Integer(ident)", "return Float(ident)"], "CTOR-IDENT", f"{HR}|as_identifier|numeric first", "numeric readings must be tried before the symbol reading", HR, ai.lineno, witness="Symbol('5') succeeds", detail="Integer, Float, Complex first")
    ctx.assume("equivalence of the predicates on all strings is value-level; only the single-source-of-truth structure is decided")
    ctx.floor("CTOR-BRACKETS", 2)


SELFTESTS = [
    dict(name="identifier fast path", file=MO, old="        if not from_parser:\n            # Check that the symbol is syntactically legal.", new="        if not from_parser and not s.isidentifier():\n            # Check that the symbol is syntactically legal.", rule="CTOR-SYMBOL", key="guard"),
    dict(name="empty delimiter unchecked", file=MO, old='        if brackets is not None and f"]{brackets}]" in value:', new='        if brackets and f"]{brackets}]" in value:', rule="CTOR-BRACKETS", key="String"),
    dict(name="keyword dot allowed", file=MO, old='                "." in value\n                or any(isnormalizedspace(c) for c in value)', new='                any(isnormalizedspace(c) for c in value)', rule="CTOR-KEYWORD", key="predicate"),
]
