"""C30 — quote reproduces its argument: attribute coverage between render_quoted_form and the model constructors."""
CANON = True

import ast

from .. import pm, compq, pyq
from ..pysrc import dotted, norm, flat

R = compq.RM
MO = "hy/models.py"


def model_kwargs(mo):
    """class -> constructor keyword parameters beyond the content (from __new__/__init__ signatures)."""
    out = {}
    for cn, cls in mo.classes.items():
        for meth in ("__new__", "__init__"):
            f = mo.func(f"{cn}.{meth}")
            if f is not None:
                ps = [a.arg for a in f.args.args][2:]
                out.setdefault(cn, [])
                out[cn] = [p for p in ps if p not in ("args", "kwargs")]
    return out


def check_render(ctx, src, comp=None):
    comp = comp or compq.Compiler(src)
    f = comp.rm.func("render_quoted_form")
    ctx.require(f is not None, "render_quoted_form not found")
    return comp, f


def check(ctx, src):
    ctx.rule("Q-ATTRS", "for every model class, each constructor keyword beyond the content (brackets; conversion, expression, is_tstring; from_parser) is emitted by the arm of render_quoted_form that handles the class, "
             "under an `is not None` test (not truthiness, which loses empty strings)")
    ctx.rule("Q-CLASS", "the emitted constructor is hy.models.<the form's own class name>, and every Sequence model is rebuilt from all of its children")
    ctx.rule("Q-PROMOTE", "as_model copies a model's own attributes back whenever its input is a model (FComponent.replace restores conversion/expression/is_tstring)")
    comp, f = check_render(ctx, src)
    mo = src.py(MO)
    kws = model_kwargs(mo)
    ctx.check(kws.get("String") == ["brackets"] and kws.get("FString") == ["brackets", "is_tstring"] and kws.get("FComponent") == ["conversion", "expression", "is_tstring"]
              and kws.get("Symbol") == ["from_parser"] and kws.get("Keyword") == ["from_parser"], "Q-ATTRS", f"{MO}|constructor keywords", f"model constructor keywords are { {k: v for k, v in kws.items() if v} }", MO, 0,
              detail=str({k: v for k, v in kws.items() if v}))
    arms = {}
    for n in ast.walk(f):
        if isinstance(n, ast.If) and norm(n.test).startswith("isinstance(form, ") and norm(n.test).count("(") == 1:
            arms[norm(n.test)[len("isinstance(form, "):-1]] = n
    # emission sites of a constructor keyword: Keyword('<attr>') anywhere in render_quoted_form or in a helper it hands the
    # form to; the site's path conditions say for which class and under which test of the attribute it is emitted
    fns = [(f, "form")]
    for c in pyq.calls(f):
        h = comp.rm.func(c.func.id) if isinstance(c.func, ast.Name) else None
        if h is not None and h is not f and h.args.args and all(h is not x for x, _ in fns) and any(isinstance(a, ast.Name) and a.id == "form" for a in c.args):
            fns.append((h, h.args.args[[i for i, a in enumerate(c.args) if isinstance(a, ast.Name) and a.id == "form"][0]].arg))
    for cls, attrs in (("FString", ["brackets", "is_tstring"]), ("FComponent", ["conversion", "expression", "is_tstring"]), ("String", ["brackets"])):
        for a in attrs:
            sites = []
            for fn, fv in fns:
                for c in ast.walk(fn):
                    if isinstance(c, ast.Constant) and c.value == a and not isinstance(getattr(c, "_parent", None), ast.Expr):
                        at = [str(x) for x in pyq.atoms(c, fn)]
                        classes = [x for x in at if x.startswith(f"isinstance({fv}, ")]
                        if not classes or any(cls in x for x in classes):
                            sites.append((c, fn, fv, at))
            key = f"{R}|render_quoted_form|{cls}.{a}"
            if not sites:
                generic = any("_extra_kwargs" in str(flat(fn)) for fn, _ in fns)
                if generic:
                    # a loop over the model's own attribute table: the test of each attribute value must be `is not None`
                    kc = next((c for fn, _ in fns for c in ast.walk(fn) if isinstance(c, ast.Call) and dotted(c.func) == "Keyword" and c.args and isinstance(c.args[0], ast.Name)), None)
                    if kc is not None:
                        fn_k = comp.rm.enclosing_func(kc)
                        at_k = pyq.atoms(kc, fn_k)
                        nn = any(isinstance(x.node, ast.Compare) and isinstance(x.node.ops[0], ast.IsNot) and isinstance(x.node.comparators[0], ast.Constant) and x.node.comparators[0].value is None for x in at_k)
                        truthy = any(isinstance(x.node, (ast.Name, ast.NamedExpr)) or (isinstance(x.node, ast.Call) and dotted(x.node.func) == "getattr") for x in at_k)
                        if a != "is_tstring" and truthy and not nn:
                            ctx.decide_tt("Q-ATTRS", key + " test", False, f"`{a}` (like every extra attribute) is emitted under a truthiness test {[str(x) for x in at_k]}; an empty string is a value distinct from None and must survive",
                                       R, kc.lineno, witness=f"(quote <{cls} {a}=\"\">) comes back with {a}=None")
                            continue
                ctx.decide("Q-ATTRS", key, None if generic else False, f"the `{a}` attribute of {cls} is not emitted by quote", R, f.lineno, witness=f"(quote <{cls} with {a}>) loses {a}", detail="emitted")
                continue
            sites.sort(key=lambda t: not (isinstance(getattr(t[0], "_parent", None), ast.Call) and dotted(t[0]._parent.func) == "Keyword"))
            c, fn, fv, at = sites[0]
            if not (isinstance(getattr(c, "_parent", None), ast.Call) and dotted(c._parent.func) == "Keyword"):
                # the attribute name is handed to a table-driven helper: the test it is emitted under is not visible here
                ctx.decide_tt("Q-ATTRS", key + " test", None, f"`{a}` is emitted through a table-driven helper", R, c.lineno)
            elif a == "is_tstring":
                ok = f"{fv}.is_tstring" in at
                ctx.decide_tt("Q-ATTRS", key + " test", ok, f"is_tstring is emitted under {at}", R, c.lineno, detail="boolean")
            else:
                ok = f"{fv}.{a} is not None" in at
                truthy = f"{fv}.{a}" in at
                ctx.decide_tt("Q-ATTRS", key + " test", True if ok else (False if truthy else None),
                           f"`{a}` is emitted under {at}; an empty string is a value distinct from None and must survive (the test must be `is not None`)", R, c.lineno,
                           witness=f"(quote <{cls} {a}=\"\">) comes back with {a}=None", detail="is not None")
            ctx.ok("Q-ATTRS", key, "emitted")
    for cls, content in (("Symbol", "String(form)"), ("Keyword", "String(form.name)")):
        arm = arms.get(cls)
        ok = arm is not None and norm(arm.body[0]) == f"body = [{content}, Keyword('from_parser'), Symbol('True')]"
        ctx.check(ok, "Q-ATTRS", f"{R}|render_quoted_form|{cls}", f"{cls} must be rebuilt from its text with from_parser=True (symbols that look special must not be re-validated)", R, f.lineno, detail=content)
    # the FString/FComponent arms are inside the Sequence arm
    seq = arms.get("Sequence")
    ctx.need(seq is not None, "Sequence arm not found")
    loop = next((s for s in seq.body if isinstance(s, ast.For)), None)
    ctx.check(loop is not None and norm(loop.iter) == "form" and "contents.append(f_contents)" in [norm(s) for s in loop.body] and "body = [List(contents)]" in [norm(s) for s in seq.body], "Q-CLASS",
              f"{R}|render_quoted_form|all children", "a sequence model must be rebuilt from every child, in order", R, seq.lineno, witness="(quote (a b c)) loses elements", detail="for x in form: contents.append(...)")
    ctx.check(all(any(a is x for x in ast.walk(seq)) for a in (arms.get("FString"), arms.get("FComponent")) if a is not None), "Q-CLASS", f"{R}|render_quoted_form|f-arms inside sequence", "FString/FComponent attributes must be added to the sequence rebuild", R, seq.lineno, detail="nested")
    nm = pyq.contains(f, lambda n: isinstance(n, ast.Assign) and norm(n) == "name = form.__class__.__name__")
    rt = [r for r in pyq.walk_no_nested(f) if isinstance(r, ast.Return)]
    last = sorted(rt, key=lambda r: r.lineno)[-1]
    ctx.check(nm is not None and norm(last.value) == "(Expression([dotted('hy.models.' + name), *body]).replace(form), False)", "Q-CLASS", f"{R}|render_quoted_form|constructor", "the rebuilt form must call hy.models.<own class name> with the body", R, last.lineno,
              witness="(quote [1]) evaluates to a different model type", detail="hy.models.<ClassName>")
    # --- as_model attribute preservation
    am = mo.func("as_model")
    ctx.require(am is not None, "as_model not found")
    # the promoted model takes its attributes/positions back from the input whenever the input is a model: the call
    # <promoted>.replace(x, ...) is reached under exactly `isinstance(x, Object)` (besides the error exits before it)
    rep = pyq.contains(am, lambda n: isinstance(n, ast.Call) and isinstance(n.func, ast.Attribute) and n.func.attr == "replace" and n.args and isinstance(n.args[0], ast.Name) and n.args[0].id == "x")
    if rep is None:
        ctx.unres("Q-PROMOTE", f"{MO}|as_model|replace", "the call that copies the input model's attributes back was not recognised")
    else:
        at = [str(a) for a in pyq.atoms(rep, am) if "_seen" not in str(a) and not (str(a).startswith("isinstance(") and ", Object)" in str(a) and not str(a).startswith("isinstance(x,"))]
        ctx.decide("Q-PROMOTE", f"{MO}|as_model|replace", at == ["isinstance(x, Object)"], f"as_model copies positions/attributes back under `{at}`; it must do so for every model input", MO, am.lineno,
                   witness="a constructor-built FComponent with conversion='r' loses it when quoted through hy.eval", detail="isinstance(x, Object)")
    fr = mo.func("FComponent.replace")
    ctx.require(fr is not None, "FComponent.replace not found")
    t = flat(fr)
    ctx.check(pm.find(fr, "for attr in self._extra_kwargs:\n    if hasattr(other, attr):\n        setattr(self, attr, getattr(other, attr))") is not None, "Q-PROMOTE", f"{MO}|FComponent.replace|attrs", "FComponent.replace must copy the extra attributes", MO, fr.lineno, detail="copies _extra_kwargs")
    ek = {}
    for cn in ("FComponent", "FString"):
        for st in mo.classes[cn].body:
            if isinstance(st, ast.Assign) and norm(st.targets[0]) == "_extra_kwargs":
                ek[cn] = list(ast.literal_eval(st.value))
    ctx.check(ek == {"FComponent": ["conversion", "expression", "is_tstring"], "FString": ["brackets", "is_tstring"]}, "Q-PROMOTE", f"{MO}|_extra_kwargs", f"_extra_kwargs are {ek}", MO, 0, detail=str(ek))
    ctx.floor("Q-ATTRS", 14)


SELFTESTS = [
    dict(name="conversion dropped", file=R, old="            if form.conversion is not None:\n                body.extend([Keyword(\"conversion\"), String(form.conversion)])\n", new="", rule="Q-ATTRS", key="FComponent.conversion"),
    dict(name="truthiness test", file=R, old="            if form.brackets is not None:\n                body.extend([Keyword(\"brackets\"), String(form.brackets)])\n            if form.is_tstring:\n                body.extend([Keyword(\"is_tstring\"), Symbol(\"True\")])\n        elif isinstance(form, FComponent):",
         new="            if form.brackets:\n                body.extend([Keyword(\"brackets\"), String(form.brackets)])\n            if form.is_tstring:\n                body.extend([Keyword(\"is_tstring\"), Symbol(\"True\")])\n        elif isinstance(form, FComponent):", rule="Q-ATTRS", key="FString.brackets test"),
    dict(name="as_model skips position-less models", file=MO, old="    if isinstance(x, Object):\n        new = new.replace(x, recursive=False)", new="    if new is not x and hasattr(x, \"_start_line\"):\n        new = new.replace(x, recursive=False)", rule="Q-PROMOTE", key="as_model"),
    dict(name="wrong class name", file=R, old="    name = form.__class__.__name__\n", new="    name = form.__class__.__mro__[0].__name__ if not isinstance(form, Sequence) else 'List'\n", rule="Q-CLASS", key="constructor"),
]
