"""Shared facts about the compiler: pattern-macro registry, model compilers, Result typing."""
from __future__ import annotations

import ast

from . import core
from .pysrc import FUNC, Unfoldable, dotted, fold, module_env, norm

RM = "hy/core/result_macros.py"
CP = "hy/compiler.py"
SC = "hy/scoping.py"
MC = "hy/macros.py"


class Compiler:
    def __init__(self, src):
        self.src = src
        self.rm = src.py(RM)
        self.cp = src.py(CP)
        self.sc = src.py(SC)
        self.mc = src.py(MC)
        self.mods = [self.rm, self.cp, self.sc, self.mc]
        self.env = module_env(self.rm, {"m_ops", "a_ops", "c_ops", "Inf"})
        self.registry = []  # dicts: func, names, pattern (ast), shadow, version, decorator
        self.macro_funcs = set()
        self.model_compilers = {}  # model class name -> func node
        self._scan()

    def _scan(self):
        for q, f in self.rm.funcs.items():
            for d in f.decorator_list:
                if isinstance(d, ast.Call) and dotted(d.func) == "pattern_macro":
                    names_node = d.args[0]
                    version = None
                    if isinstance(names_node, ast.Tuple) and len(names_node.elts) == 2 and isinstance(names_node.elts[0], ast.Tuple):
                        try:
                            version = fold(names_node.elts[0])
                        except Unfoldable:
                            version = None
                        names_node = names_node.elts[1]
                    try:
                        names = fold(names_node, self.env)
                    except Unfoldable as e:
                        raise core.AnalysisError(f"cannot fold pattern_macro names of {q}: {e}")
                    if isinstance(names, str):
                        names = [names]
                    shadow = any(k.arg == "shadow" and isinstance(k.value, ast.Constant) and k.value.value for k in d.keywords)
                    self.registry.append(dict(func=f, qual=q, names=list(names), pattern=d.args[1] if len(d.args) > 1 else None,
                                              shadow=bool(shadow), version=version, deco=d))
                    self.macro_funcs.add(f)
        for q, f in self.cp.funcs.items():
            for d in f.decorator_list:
                if isinstance(d, ast.Call) and dotted(d.func) == "builds_model":
                    for a in d.args:
                        self.model_compilers[dotted(a)] = f
                    self.macro_funcs.add(f)

    def macro(self, name):
        for r in self.registry:
            if name in r["names"]:
                return r
        return None

    def all_macro_names(self):
        out = []
        for r in self.registry:
            out.extend(r["names"])
        return out


# ---------------------------------------------------------------------------
# Result typing (syntactic)
# ---------------------------------------------------------------------------

RESULT_CALLS = {"compile", "_compile_branch", "compile_atom", "Result", "expr_as_stmt", "compile_assign", "compile_with_expression",
                "compile_function_node", "compile_expression"}
COMPILE_CALLS = {"compile", "_compile_branch", "compile_atom"}


def is_compile_call(e):
    """compiler.compile(X) / self.compile(X) / compiler._compile_branch(X)."""
    if isinstance(e, ast.Call) and isinstance(e.func, ast.Attribute) and e.func.attr in COMPILE_CALLS:
        recv = dotted(e.func.value)
        return recv in ("compiler", "self")
    return False


def result_vars(func):
    """Names (in func incl. closures) that hold a Result at some point."""
    out = set()
    changed = True
    while changed:
        changed = False
        for n in ast.walk(func):
            tgt = None
            val = None
            if isinstance(n, ast.Assign) and len(n.targets) == 1:
                tgt, val = n.targets[0], n.value
            elif isinstance(n, ast.AugAssign) and isinstance(n.op, ast.Add):
                tgt, val = n.target, n.value
            if tgt is None:
                continue
            if isinstance(tgt, ast.Name) and tgt.id not in out and is_result_expr(val, out):
                out.add(tgt.id)
                changed = True
            # elts, ret, keywords = compiler._compile_collect(...)
            if isinstance(tgt, ast.Tuple) and isinstance(val, ast.Call) and isinstance(val.func, ast.Attribute) and val.func.attr == "_compile_collect":
                if len(tgt.elts) == 3 and isinstance(tgt.elts[1], ast.Name) and tgt.elts[1].id not in out:
                    out.add(tgt.elts[1].id)
                    changed = True
            if isinstance(tgt, ast.Tuple) and isinstance(val, ast.Call) and dotted(val.func) in ("compile_lambda_list",):
                if len(tgt.elts) == 2 and isinstance(tgt.elts[1], ast.Name) and tgt.elts[1].id not in out:
                    out.add(tgt.elts[1].id)
                    changed = True
            if isinstance(tgt, ast.Tuple) and isinstance(val, ast.Call) and dotted(val.func) in ("compile_arguments_set",):
                if len(tgt.elts) == 3 and isinstance(tgt.elts[2], ast.Name) and tgt.elts[2].id not in out:
                    out.add(tgt.elts[2].id)
                    changed = True
    return out


def is_result_expr(e, rvars=()):
    if is_compile_call(e):
        return True
    if isinstance(e, ast.Call):
        d = dotted(e.func) or ""
        last = d.split(".")[-1]
        if last in ("Result", "compile_assign", "compile_with_expression", "compile_function_node", "expr_as_stmt"):
            return True
    if isinstance(e, ast.Name) and e.id in rvars:
        return True
    if isinstance(e, ast.BinOp) and isinstance(e.op, ast.Add):
        return is_result_expr(e.left, rvars) or is_result_expr(e.right, rvars)
    if isinstance(e, ast.IfExp):
        return is_result_expr(e.body, rvars) and is_result_expr(e.orelse, rvars)
    return False


# ---------------------------------------------------------------------------
# Statement-free sub-forms: compile(X).expr is safe when X cannot compile to statements
# ---------------------------------------------------------------------------

# Arms of compile_pattern whose own test restricts the model to literals / symbols / dotted names (confirmed against the
# pattern grammar `_pattern` by reading): guard that must hold on the path -> why the compiled form has no statements
STATEMENT_FREE_GUARDS = {
    "isinstance(value, (String, Integer, Float, Complex, Bytes))": "a literal compiles to a Constant",
    "value[0] == Symbol('.')": "a dotted form of symbols compiles to an attribute chain",
    "isinstance(value, Dict)": "mapping-pattern keys are literals or dotted names by the pattern grammar",
    "isinstance(value, Expression)": "the head of a class pattern is a (dotted) symbol by the pattern grammar",
    "isinstance(value, Keyword)": "hy.models.Keyword is a dotted name",
    "str(value) in ('False', 'None', 'True')": "a constant symbol compiles to a Constant",
}


def statement_free(call, func):
    """Why the sub-form compiled by `call` (compiler.compile(X)) cannot produce statements, or None.
    Decided from the model expression X itself or from the conditions on the path to the call."""
    from . import pyq
    from .pysrc import dotted as _d

    def model_ctor(a):
        if isinstance(a, ast.Call):
            d = _d(a.func) or ""
            if d in ("Symbol", "dotted", "String", "Integer", "Keyword"):
                return f"the argument is built by {d}(...)"
            if isinstance(a.func, ast.Attribute) and a.func.attr == "replace":
                return model_ctor(a.func.value)
        return None

    if call.args:
        r = model_ctor(call.args[0])
        if r:
            return r
    for g in pyq.guard_texts(call, func):
        for pat, why in STATEMENT_FREE_GUARDS.items():
            if g == pat or pat in g:
                return f"path condition `{pat}`: {why}"
    return None
