"""C18 — reading yields models or a Hy reader error: the exception funnel around try_parse_one_form."""
CANON = True

import ast

from .. import pyq, readerq
from ..pysrc import dotted, norm
from ..readerq import EX, HR, RD

OUTSIDE_OK_CALLS = {"slurp_space", "peek_and_getc", "peekc", "getc", "peeking", "chars", "getn", "_set_source", "parse_forms_until", "try_parse_one_form", "parse",
                    "as_current_reader", "fill_pos"}


STRICT = {"FUNNEL-INSIDE", "FUNNEL-OUTSIDE", "FUNNEL-CLASSES"}


def _is_dispatch(c, f):
    """Does this call run handler code (a reader_table / reader_macros entry, read_default, Reader.dispatch)?"""
    if isinstance(c.func, ast.Subscript) and dotted(c.func.value) in ("self.reader_table", "self.reader_macros"):
        return True
    if isinstance(c.func, ast.Attribute) and c.func.attr in ("read_default", "dispatch") and dotted(c.func.value) == "self":
        return True
    if isinstance(c.func, ast.Name):
        # a local bound from the handler table
        for n in ast.walk(f):
            if isinstance(n, ast.Assign) and any(isinstance(t, ast.Name) and t.id == c.func.id for t in n.targets):
                v = n.value
                if isinstance(v, ast.Call) and isinstance(v.func, ast.Attribute) and v.func.attr == "get" and dotted(v.func.value) in ("self.reader_table", "self.reader_macros"):
                    return True
                if isinstance(v, ast.Subscript) and dotted(v.value) in ("self.reader_table", "self.reader_macros"):
                    return True
    return False


def check(ctx, src):
    ctx.rule("FUNNEL-TRY", "the whole body of try_parse_one_form is one try whose handlers re-raise LexException unchanged and convert every other Exception into LexException")
    ctx.rule("FUNNEL-INSIDE", "every dispatch into handler code (reader_table handlers, reader macros, read_default, Reader.dispatch) happens lexically inside that try, or in a function only reachable from inside it")
    ctx.rule("FUNNEL-OUTSIDE", "in the functions reachable from HyReader.parse outside the try, every explicit raise is a LexException subclass, and they call only the character primitives")
    ctx.rule("FUNNEL-CLASSES", "PrematureEndOfInput < LexException < HySyntaxError < (HyLanguageError, SyntaxError)")
    rq = readerq.Reader(src)
    hr, rd, ex = rq.hr, rq.rd, rq.ex
    m, tp = rq.methods["try_parse_one_form"]
    # the converting try: the try statement of try_parse_one_form whose body dispatches to handler code
    tries = [n for n in ast.walk(tp) if isinstance(n, ast.Try)]
    tr = next((t for t in tries if any(_is_dispatch(c, tp) for st in t.body for c in pyq.calls(st))), None)
    ctx.need(tr is not None, "try_parse_one_form: no try statement around the handler dispatch was recognised")
    # ancestors of LexException (rebuilt from the sources) decide which handler a reader error reaches first
    errs0 = src.py("hy/errors.py")
    bases = {c: [norm(b) for b in n.bases] for m0 in (ex, errs0) for c, n in m0.classes.items()}
    anc, todo = set(), ["LexException"]
    while todo:
        c = todo.pop()
        if c in anc:
            continue
        anc.add(c)
        todo.extend(bases.get(c, []))
    anc |= {"Exception", "BaseException"}

    def types(h):
        if h.type is None:
            return {"BaseException"}
        ts = h.type.elts if isinstance(h.type, ast.Tuple) else [h.type]
        return {str(norm(t)) for t in ts}

    names = [sorted(types(h)) for h in tr.handlers]
    first = next((h for h in tr.handlers if types(h) & anc), None)
    desc, grew = {"LexException"}, True
    while grew:
        grew = False
        for c, bs in bases.items():
            if c not in desc and any(b in desc for b in bs):
                desc.add(c)
                grew = True
    passes = first is not None and len(first.body) == 1 and isinstance(first.body[0], ast.Raise) and first.body[0].exc is None
    narrowed = False
    if first is not None and not passes and first.name:
        # one handler for everything that re-raises reader errors by an isinstance test before converting the rest
        for st_ in first.body:
            if isinstance(st_, ast.If) and st_.body and isinstance(st_.body[0], ast.Raise) and st_.body[0].exc is None:
                c_ = st_.test
                if isinstance(c_, ast.Call) and dotted(c_.func) == "isinstance" and len(c_.args) == 2 and isinstance(c_.args[0], ast.Name) and c_.args[0].id == first.name:
                    tys = {str(norm(t_)) for t_ in (c_.args[1].elts if isinstance(c_.args[1], ast.Tuple) else [c_.args[1]])}
                    if tys and tys <= desc:
                        passes = narrowed = True
                    elif tys:
                        passes = None
                break
            if not isinstance(st_, ast.Expr):
                break
    if passes and not narrowed and not types(first) <= desc:
        ctx.decide("FUNNEL-TRY", f"{HR}|try_parse_one_form|handlers", False, f"handlers are {names}: the pass-through handler also lets {sorted(types(first) - desc)} escape unconverted", HR, tr.lineno,
                   witness="a plain SyntaxError/ValueError raised while reading (e.g. by a reader macro) escapes hy.read-many as itself", detail=str(names))
        passes = None
    if passes is not None:
        ctx.decide("FUNNEL-TRY", f"{HR}|try_parse_one_form|handlers", passes, f"handlers are {names}: the first one a LexException reaches must re-raise it unchanged", HR, tr.lineno,
                   witness="PrematureEndOfInput is converted into a plain LexException (the REPL stops asking for more input)", detail=str(names))
    catchall = next((h for h in tr.handlers if types(h) & {"Exception", "BaseException"}), None)
    conv = catchall is not None and any(isinstance(r, ast.Raise) and r.exc is not None and norm(r.exc).startswith("LexException.from_reader(") for r in catchall.body[-1:])
    ctx.decide("FUNNEL-TRY", f"{HR}|try_parse_one_form|convert", conv, f"handlers are {names}: every other Exception must be caught and raised again as LexException.from_reader(...)", HR, tr.lineno,
               witness="deep nesting (RecursionError) or a reader macro raising KeyError escapes hy.read-many unconverted", detail="except Exception: raise LexException.from_reader")
    # --- dispatch sites
    n_disp = 0
    for q, f in list(hr.funcs.items()) + list(rd.funcs.items()):
        mod = hr if f in hr.funcs.values() else rd
        for c in pyq.calls(f):
            is_disp = _is_dispatch(c, f)
            if not is_disp or mod.enclosing_func(c) is not f:
                continue
            n_disp += 1
            key = f"{mod.rel}|{q}|{norm(c)[:50]}"
            if f is tp:
                inside = any(part == "body" and t is tr for t, part in pyq.enclosing_try_parts(c))
                ctx.check(inside, "FUNNEL-INSIDE", key, "handler code is called outside the converting try", mod.rel, c.lineno, witness="a handler's ValueError escapes as ValueError", detail="inside the try body")
            else:
                # the containing function must only be reachable through try_parse_one_form
                outside = rq.reachable("parse", stop=("try_parse_one_form",))
                ctx.check(f.name not in outside, "FUNNEL-INSIDE", key, f"`{f.name}` dispatches to handler code and is reachable from parse() without passing through try_parse_one_form", mod.rel, c.lineno,
                          detail="only reachable from inside the try")
    ctx.need(n_disp >= 3, f"only {n_disp} dispatch sites found")
    # --- outside region
    outside = rq.reachable("parse", stop=("try_parse_one_form",)) | {"try_parse_one_form"}
    cls_bases = {c: [norm(b) for b in n.bases] for c, n in ex.classes.items()}
    lex = {"LexException"}
    ch = True
    while ch:
        ch = False
        for c, bs in cls_bases.items():
            if c not in lex and any(b in lex for b in bs):
                lex.add(c); ch = True
    for name in sorted(outside):
        mod, f = rq.methods[name]
        ctx.functions.add(f"{mod.rel}:{name}")
        for r in [n for n in ast.walk(f) if isinstance(n, ast.Raise) and n.exc is not None]:
            if name == "try_parse_one_form" and any(t is tr for t, part in pyq.enclosing_try_parts(r)):
                continue
            cn = (dotted(r.exc.func) if isinstance(r.exc, ast.Call) else dotted(r.exc)) or ""
            base = cn.split(".")[0]
            import builtins as _b
            known_class = base in ex.classes or isinstance(getattr(_b, base, None), type)
            ctx.decide("FUNNEL-OUTSIDE", f"{mod.rel}|{name}|raise {base}", (base in lex) if known_class else None, f"`{name}` runs outside the converting try and raises {base}, which is not a reader error", mod.rel, r.lineno,
                      witness="hy.read-many raises that exception type", detail="LexException subclass")
        # (what these functions call needs no rule of its own: `outside` is the closure under calls, so a method that becomes
        # reachable outside the try is itself checked for its raises above, and code that dispatches to handlers is
        # required to be unreachable from here by FUNNEL-INSIDE.)
    ctx.assume("implicit exceptions (e.g. from the underlying stream's read()) in the 10 functions outside the try are not modelled; termination is not decided")
    # --- hierarchy
    errs = src.py("hy/errors.py")
    ctx.check(cls_bases.get("PrematureEndOfInput") == ["LexException"] and cls_bases.get("LexException") == ["HySyntaxError"], "FUNNEL-CLASSES", f"{EX}|hierarchy", f"reader exception bases are {cls_bases}", EX, 0, detail=str(cls_bases))
    hb = [norm(b) for b in errs.classes["HySyntaxError"].bases] if "HySyntaxError" in errs.classes else []
    ctx.check(hb == ["HyLanguageError", "SyntaxError"], "FUNNEL-CLASSES", "hy/errors.py|HySyntaxError", f"HySyntaxError bases are {hb}", "hy/errors.py", 0, detail=str(hb))
    # read_many hands the generator over lazily (errors surface when iterated) — wrapping is in parse only
    rm_ = src.py("hy/reader/__init__.py").func("read_many")
    ctx.require(rm_ is not None, "read_many not found")
    ctx.check(pyq.contains(rm_, lambda n: isinstance(n, ast.Call) and dotted(n.func) == "hy.models.Lazy" and "reader.parse(" in norm(n)) is not None, "FUNNEL-INSIDE", "hy/reader/__init__.py|read_many|parse",
              "read_many no longer reads through HyReader.parse", "hy/reader/__init__.py", rm_.lineno, detail="Lazy(reader.parse(...))")
    ctx.floor("FUNNEL-OUTSIDE", 3)


SELFTESTS = [
    dict(name="catch-all narrowed", file=HR, old="            except Exception as e:\n                raise LexException.from_reader(", new="            except (ValueError, SyntaxError) as e:\n                raise LexException.from_reader(", rule="FUNNEL-TRY", key="convert"),
    dict(name="pass-through widened to SyntaxError", file=HR, old="            except LexException:\n                raise\n", new="            except SyntaxError:\n                raise\n", rule="FUNNEL-TRY", key="handlers"),
    dict(name="dispatch before try", file=HR, rule="FUNNEL-INSIDE", key="try_parse_one_form", edits=[
        ("        with self.as_current_reader():\n            try:\n                self.slurp_space()\n                c = self.getc()\n                start = self._pos\n                if not c:",
         "        with self.as_current_reader():\n            self.slurp_space()\n            c = self.getc()\n            start = self._pos\n            handler = self.reader_table.get(c)\n            pre = handler(self, c) if handler and c == ';' else None\n            try:\n                if not c:")],
         allow_analysis_error=True),
    dict(name="ValueError outside", file=HR, old="        while True:\n            self.slurp_space()\n            if self.peek_and_getc(closer):\n                break",
         new="        while True:\n            self.slurp_space()\n            if closer is None:\n                raise ValueError('closer')\n            if self.peek_and_getc(closer):\n                break", rule="FUNNEL-OUTSIDE", key="parse_forms_until"),
]
