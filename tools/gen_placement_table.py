#!/venv/bin/python
"""Print the placement facts of every compile function on the current tree as a Python dict literal
(used once to seed hyverif/placement_table.py, then reviewed by hand)."""
import sys
sys.path.insert(0, "/verif")
from hyverif import core, compq, placement
src = core.Src()
facts = placement.all_facts(src)
print("TABLE = {")
for fn in sorted(facts):
    print(f"    {fn!r}: [")
    for f in sorted(facts[fn]):
        print(f"        {f!r},")
    print("    ],")
print("}")
