"""C26 — model constructors accept what syntax can express (thin: single source of truth for the validity predicates)."""
CANON = True

import ast

from .. import pm, pyq
from ..pysrc import dotted, norm, flat

MO = "hy/models.py"
HR = "hy/reader/hy_reader.py"


def check(ctx, src):
    ctx.rule("CTOR-SYMBOL", "Symbol() validates every string that does not come from the parser through the reader's own as_identifier and accepts it only if the result is a Symbol")
    ctx.rule("CTOR-KEYWORD", "Keyword() rejects, for non-parser input, text containing '.', whitespace (the reader's isnormalizedspace) or any of the reader's NON_IDENT characters")
    ctx.rule("CTOR-BRACKETS", "String/FString reject content containing the closing delimiter `]DELIM]` whenever a delimiter is given — including the empty one")
    ctx.rule("CTOR-IDENT", "as_identifier's reader-less arm rejects empty text, a leading ':' or '#', whitespace and NON_IDENT characters with the same predicates the reader uses")
    mo = src.py(MO)
    hr = src.py(HR)
    s = mo.func("Symbol.__new__")
    ctx.require(s is not None, "Symbol.__new__ not found")
    # Symbol: as_identifier(s) is called exactly when the string does not come from the parser, and its result decides
    def helpers_of(fn, depth=2):
        return pyq.helpers_of(mo, fn, depth)

    ai_calls = [c for fn in helpers_of(s) for c in pyq.calls(fn) if dotted(c.func) == "as_identifier"]
    ctx.need(len(ai_calls) >= 1, "Symbol.__new__ no longer validates through as_identifier")
    aic = ai_calls[0]
    at = pyq.atoms(aic, s)
    only_parser = len(at) == 1 and at[0] == "not from_parser"
    ctx.decide("CTOR-SYMBOL", f"{MO}|Symbol.__new__|guard", only_parser if mo.enclosing_func(aic) is s else None,
               f"validation runs under `{[str(a) for a in at]}`; it must run for every non-parser input (and only under that condition)", MO, s.lineno,
               witness="Symbol('NaN') succeeds although reading NaN gives a Float", detail="not from_parser")
    g = pyq.stmt_of(aic) if hasattr(pyq, "stmt_of") else None
    fn_ai = mo.enclosing_func(aic)
    ctx.check(pm.find(fn_ai, "sym = as_identifier(s)\nif not isinstance(sym, Symbol):\n    raise ValueError(___)\nreturn sym") is not None,
              "CTOR-SYMBOL", f"{MO}|Symbol.__new__|via as_identifier", "Symbol must be validated by as_identifier and rejected unless that yields a Symbol", MO, s.lineno, detail="as_identifier(s) must be a Symbol")
    imp = any(isinstance(n, ast.ImportFrom) and n.module == "hy.reader.hy_reader" and any(a.name == "as_identifier" for a in n.names) for fn in helpers_of(s) for n in ast.walk(fn)) \
        or any(isinstance(n, ast.ImportFrom) and n.module == "hy.reader.hy_reader" and any(a.name == "as_identifier" for a in n.names) for n in mo.tree.body)
    ctx.decide("CTOR-SYMBOL", f"{MO}|Symbol.__new__|same function", imp, "the validator is not the reader's as_identifier", MO, s.lineno, detail="imported from hy.reader.hy_reader")
    k = mo.func("Keyword.__init__")
    ctx.require(k is not None, "Keyword.__init__ not found")
    # Keyword: the rejecting test uses the reader's own predicates (isnormalizedspace, HyReader.NON_IDENT) and the dot
    kfns = helpers_of(k)
    ktext = " ".join(str(flat(fn)) for fn in kfns)
    uses_ws = any(isinstance(c, ast.Call) and dotted(c.func) == "isnormalizedspace" for fn in kfns for c in ast.walk(fn))
    uses_ni = "HyReader.NON_IDENT" in ktext
    uses_dot = any(isinstance(c, ast.Compare) and isinstance(c.ops[0], (ast.In, ast.NotIn)) and isinstance(c.left, ast.Constant) and c.left.value == "." for fn in kfns for c in ast.walk(fn))
    other_ws = [c for fn in kfns for c in ast.walk(fn) if isinstance(c, ast.Call) and isinstance(c.func, ast.Attribute) and c.func.attr in ("isspace", "strip", "split")]
    raises = [r for fn in kfns for r in ast.walk(fn) if isinstance(r, ast.Raise)]
    verdict = None if not raises else (uses_ws and uses_ni and uses_dot and not other_ws)
    ctx.decide("CTOR-KEYWORD", f"{MO}|Keyword.__init__|predicate", verdict,
               f"the keyword validity predicate must use the reader's own tests: isnormalizedspace ({uses_ws}), HyReader.NON_IDENT ({uses_ni}), '.' ({uses_dot}), no other whitespace test ({not other_ws})", MO, k.lineno,
               witness="Keyword('a b') or Keyword('a.b') succeeds although `:a b` / `:a.b` do not read as that keyword", detail="'.', whitespace, NON_IDENT")
    np_ = [r for r in raises if any(a == "not from_parser" for a in pyq.atoms(r, mo.enclosing_func(r)))] if raises else []
    imp2 = "from hy.reader.hy_reader import HyReader" in ktext and "from hy.reader.reader import isnormalizedspace" in ktext
    ctx.check(imp2, "CTOR-KEYWORD", f"{MO}|Keyword.__init__|same objects", "the predicates are not the reader's own objects", MO, k.lineno, detail="HyReader.NON_IDENT, isnormalizedspace")
    for cn, text in (("String", "if brackets is not None and f']{brackets}]' in value:\n    raise ValueError(___)"), ("FString", "if brackets is not None and _string_in_node(f']{brackets}]', value):\n    raise ValueError(___)")):
        f = mo.func(f"{cn}.__new__")
        ctx.require(f is not None, f"{cn}.__new__ not found")
        t = flat(f)
        ctx.check(pm.find(f, text) is not None, "CTOR-BRACKETS", f"{MO}|{cn}.__new__|closing delimiter", f"{cn} must reject content containing `]DELIM]` for every delimiter that is not None (the empty delimiter `#[[…]]` included)", MO, f.lineno,
                  witness=f"{cn}('a ]] b', brackets='') is accepted but does not read back", detail="brackets is not None and ]D] in value")
    ai = hr.func("as_identifier")
    ctx.require(ai is not None, "as_identifier not found")
    # the reader-less arm: a `raise ValueError` of as_identifier itself whose path condition contains `reader is None`; the
    # disjunction it is guarded by must name the four tests
    rl = [r for r in pyq.walk_no_nested(ai) if isinstance(r, ast.Raise) and any(a == "reader is None" for a in pyq.atoms(r, ai))]
    if not rl:
        ctx.unres("CTOR-IDENT", f"{HR}|as_identifier|reader-less arm", "the reader-less validity test of as_identifier was not recognised")
    else:
        disj = [a.node for a in pyq.atoms(rl[0], ai) if isinstance(a.node, ast.BoolOp) and isinstance(a.node.op, ast.Or)]
        parts = [norm(v) for d in disj for v in d.values]
        want = ["not ident", "ident[0] in ':#'", "any((isnormalizedspace(c) for c in ident))", "HyReader.NON_IDENT.intersection(ident)"]
        missing = [w for w in want if not any(p_ == w for p_ in parts)]
        ctx.decide("CTOR-IDENT", f"{HR}|as_identifier|reader-less arm", (not missing) if disj else None,
                   f"the reader-less validity test of as_identifier no longer rejects on {missing}", HR, rl[0].lineno, witness="Symbol('a b') or Symbol(':a') succeeds", detail="empty, leading : or #, whitespace, NON_IDENT")
    order = [norm(n.body[0]) for n in ai.body if isinstance(n, ast.Try)]
    ctx.check(order[:2] == ["return Integer(ident)", "return Float(ident)"], "CTOR-IDENT", f"{HR}|as_identifier|numeric first", "numeric readings must be tried before the symbol reading", HR, ai.lineno, witness="Symbol('5') succeeds", detail="Integer, Float, Complex first")
    ctx.assume("equivalence of the predicates on all strings is value-level; only the single-source-of-truth structure is decided")
    ctx.floor("CTOR-BRACKETS", 2)


SELFTESTS = [
    dict(name="identifier fast path", file=MO, old="        if not from_parser:\n            # Check that the symbol is syntactically legal.", new="        if not from_parser and not s.isidentifier():\n            # Check that the symbol is syntactically legal.", rule="CTOR-SYMBOL", key="guard"),
    dict(name="empty delimiter unchecked", file=MO, old='        if brackets is not None and f"]{brackets}]" in value:', new='        if brackets and f"]{brackets}]" in value:', rule="CTOR-BRACKETS", key="String"),
    dict(name="keyword dot allowed", file=MO, old='                "." in value\n                or any(isnormalizedspace(c) for c in value)', new='                any(isnormalizedspace(c) for c in value)', rule="CTOR-KEYWORD", key="predicate"),
]
