"""C05 — fn/defn argument binding: slot wiring of the lambda list into ast.arguments, guards, implicit return."""
CANON = True

import ast

from .. import boolfn, pm, compq, idflow, placement, pyq
from ..pyflow import Reach
from ..pysrc import dotted, flat, norm

R = compq.RM
GROUPS = ["posonly", "args", "rest", "kwonly", "kwargs"]


def check_scopefn_params(ctx, comp, rule):
    """ScopeFn.__init__ must define every kind of parameter (shared with C06/C07)."""
    sc = comp.sc
    f = sc.func("ScopeFn.__init__")
    ctx.require(f is not None, "ScopeFn.__init__ not found")
    loop = next((n for n in pyq.walk_no_nested(f) if isinstance(n, ast.For) and "args." in norm(n.iter)), None)
    ctx.need(loop is not None, "ScopeFn.__init__: parameter loop not found")
    it = norm(loop.iter)
    for part in ("args.args", "args.posonlyargs", "args.kwonlyargs", "args.vararg", "args.kwarg"):
        ctx.check(part in it, rule, f"{compq.SC}|ScopeFn.__init__|defines {part}", f"function scopes no longer record `{part}` parameters as defined ({it})", compq.SC, loop.lineno,
                  witness=f"(let [a 1] ((fn [… a …] a) 5)) with `a` a {part.split('.')[1]} parameter reads the let-bound a; (nonlocal a) inside resolves past the parameter",
                  detail="in the chain")
    d = pyq.contains(loop, lambda n: isinstance(n, ast.Call) and norm(n) == "self.define(arg.arg)")
    ctx.check(d is not None, rule, f"{compq.SC}|ScopeFn.__init__|define(arg.arg)", "parameters are not defined by their .arg name", compq.SC, loop.lineno, detail="self.define(arg.arg)")


def check(ctx, src):
    ctx.rule("LL-WIRE", "the five groups of the lambda-list pattern (positional-only, ordinary, rest/bare *, keyword-only, kwargs) flow, by tuple position, into exactly posonlyargs, args, vararg, kwonlyargs+kw_defaults, kwarg; "
             "defaults = posonly defaults then ordinary defaults; only the keyword-only group pads missing defaults with None")
    ctx.rule("LL-GUARD", "`non-default argument follows default argument`, `named arguments must follow bare *`, `at least one argument must precede /` are raised before ast.arguments is built")
    ctx.rule("FN-SHAPE", "a Lambda is emitted only without annotations on any of the five groups or the return, type parameters, statements or :async; the last body expression is returned "
             "unless the function is an async generator; yield marks the nearest enclosing Python function scope")
    ctx.rule("CALL-WIRE", "_compile_collect appends positionals and keywords in encounter order to separate lists; compile_expression passes them as Call.args / Call.keywords")
    ctx.rule("SCOPE-PARAMS", "function scopes record all five kinds of parameters as defined")
    ctx.rule("PLACEMENT", "placement facts of the function-building forms (frozen table)")
    comp = compq.Compiler(src)
    placement.check_placement(ctx, src, ["compile_function_lambda", "compile_function_def", "compile_function_node", "compile_lambda_list", "compile_arguments_set", "_compile_collect", "compile_expression"], "PLACEMENT", comp)
    rm = comp.rm
    ll = rm.func("compile_lambda_list")
    ctx.require(ll is not None, "compile_lambda_list not found")
    reach = Reach(ll)
    # --- pattern order
    pat = rm.toplevel_assign("lambda_list")
    ctx.need(isinstance(pat, ast.Call) and dotted(pat.func) == "brackets" and len(pat.args) == 5, "lambda_list pattern no longer has five groups")
    texts = [norm(a) for a in pat.args]
    want = ["maybe(many(argument) + sym('/'))", "many(argument)", "maybe(kwonly_delim | varargs('unpack-iterable', NASYM))", "many(argument)", "maybe(varargs('unpack-mapping', NASYM))"]
    ctx.check(texts == want, "LL-WIRE", f"{R}|lambda_list|pattern", f"lambda_list pattern groups are {texts}", R, pat.lineno, detail="5 groups in order")
    un = pyq.contains(ll, lambda n: isinstance(n, ast.Assign) and isinstance(n.targets[0], ast.Tuple) and norm(n.value) == "params" and len(n.targets[0].elts) == 5)
    ctx.need(un is not None, "compile_lambda_list: 5-tuple unpack of params not found")
    gvars = [e.id for e in un.targets[0].elts]
    # --- which group feeds which arguments field
    call = pyq.contains(ll, lambda n: isinstance(n, ast.Call) and dotted(n.func) == "ast.arguments")
    ctx.need(call is not None, "ast.arguments construction not found")

    def group_of(e, want_index):
        """the params group whose compile_arguments_set(...)[want_index] reaches expression e"""
        if isinstance(e, ast.Name):
            out = set()
            for h in reach.at.get(id(e)) or []:
                hh = h
                idx = None
                if hh[0] == "elem" and hh[1][0] == "elem":       # [rest_ast], _, ret = f([rest_parms]...)
                    idx = hh[1][2]
                    hh = hh[1][1]
                elif hh[0] == "elem":
                    idx = hh[2]
                    hh = hh[1]
                if hh[0] == "val" and isinstance(hh[1], ast.Call) and dotted(hh[1].func) == "compile_arguments_set":
                    arg = hh[1].args[1]
                    names = [n.id for n in ast.walk(arg) if isinstance(n, ast.Name)]
                    g = [gvars.index(n) for n in names if n in gvars]
                    # posonly_parms = posonly_parms or [] rebinding keeps the name
                    kw = len(hh[1].args) > 3 and isinstance(hh[1].args[3], ast.Constant) and hh[1].args[3].value is True
                    out.add((GROUPS[g[0]] if g else "?", idx, kw))
                elif hh[0] == "val" and isinstance(hh[1], ast.Constant) and hh[1].value is None:
                    out.add(("None", None, False))
            return out
        return set()

    kw = {k.arg: k.value for k in call.keywords}
    expect = {"posonlyargs": ("posonly", 0), "args": ("args", 0), "kwonlyargs": ("kwonly", 0), "kw_defaults": ("kwonly", 1), "vararg": ("rest", 0), "kwarg": ("kwargs", 0)}
    for fld, (grp, idx) in expect.items():
        got = group_of(kw.get(fld), idx) if fld in kw else set()
        real = {(g, i) for g, i, _ in got if g != "None"}
        ctx.check(real == {(grp, idx)}, "LL-WIRE", f"{R}|compile_lambda_list|arguments.{fld}", f"arguments.{fld} is fed from {sorted(real) or 'nothing'}; expected the `{grp}` group (element {idx})", R, call.lineno,
                  witness=f"a lambda list using the `{grp}` group binds its parameters as another kind", detail=f"{grp}[{idx}]")
        if fld in ("kwonlyargs", "kw_defaults"):
            ctx.check(all(k for g, i, k in got if g != "None"), "LL-WIRE", f"{R}|compile_lambda_list|{fld} is_kwonly", "the keyword-only group is not compiled with is_kwonly=True (kw_defaults lose their None padding)", R, call.lineno,
                      witness="(fn [* a [b 1]] …): kw_defaults shorter than kwonlyargs -> ValueError", detail="True")
        elif got:
            ctx.check(not any(k for g, i, k in got), "LL-WIRE", f"{R}|compile_lambda_list|{fld} not is_kwonly", f"the `{grp}` group is compiled with is_kwonly=True", R, call.lineno, detail="False")
    d = kw.get("defaults")
    okd = isinstance(d, ast.List) and len(d.elts) == 2 and all(isinstance(e, ast.Starred) for e in d.elts) and \
        [next(iter({g for g, i, _ in group_of(e.value, 1)}), None) for e in d.elts] == ["posonly", "args"] and all({i for g, i, _ in group_of(e.value, 1)} == {1} for e in d.elts)
    ctx.check(okd, "LL-WIRE", f"{R}|compile_lambda_list|arguments.defaults", f"defaults is `{norm(d) if d is not None else None}`; expected positional-only defaults followed by ordinary defaults",
              R, call.lineno, witness="(fn [[a 1] / [b 2]] [a b]) swaps the default values", detail="[*posonly_defaults, *args_defaults]")
    # --- guards precede construction
    for msg in ("non-default argument follows default argument", "named arguments must follow bare *", "at least one argument must precede /"):
        g = pyq.contains(ll, lambda n: isinstance(n, ast.Call) and (dotted(n.func) or "").endswith("_syntax_error") and any(isinstance(a, ast.Constant) and a.value == msg for a in n.args))
        ctx.check(g is not None and g.lineno < call.lineno, "LL-GUARD", f"{R}|compile_lambda_list|{msg}", f"the guard `{msg}` is missing or comes after the construction", R, ll.lineno,
                  witness="an ill-formed lambda list reaches Python's compile() and raises ValueError/SyntaxError without Hy position", detail="present, before ast.arguments")
    # a bare `*` is a marker, not a parameter: every binding of the variable handed to `vararg=` other than None is on a
    # path where the rest slot is not the bare star
    va = kw.get("vararg")
    vname = va.id if isinstance(va, ast.Name) else None
    binds = [n for n in ast.walk(ll) if isinstance(n, ast.Assign) and any(isinstance(x, ast.Name) and x.id == vname for t in n.targets for x in ast.walk(t))
             and not (isinstance(n.value, ast.Constant) and n.value.value is None)] if vname else []
    slot = ll.args.args[1].arg if len(ll.args.args) > 1 else None
    restv = None
    for n in ast.walk(ll):
        if isinstance(n, ast.Assign) and isinstance(n.targets[0], ast.Tuple) and len(n.targets[0].elts) == 5 and isinstance(n.value, ast.Name) and n.value.id == slot:
            restv = n.targets[0].elts[2].id if isinstance(n.targets[0].elts[2], ast.Name) else None
    verdict = None
    if binds and restv:
        verdict = all(any(str(a) == f"{restv} != Symbol('*')" for a in pyq.atoms_expanded(b, ll)) for b in binds)
    ctx.decide("LL-WIRE", f"{R}|compile_lambda_list|bare-star", verdict, "a bare * must give vararg=None: the rest slot is compiled as a parameter also when it is the bare star", R, ll.lineno,
               witness="(fn [a * b] …) gets a *-parameter named `*`", detail="vararg bound only when rest is not the bare *")
    # --- compile_arguments_set
    cas = rm.func("compile_arguments_set")
    ctx.require(cas is not None, "compile_arguments_set not found")
    a = pyq.contains(cas, lambda n: isinstance(n, ast.Call) and dotted(n.func) == "asty.arg")
    ctx.check(a is not None and {k.arg: norm(k.value) for k in a.keywords} == {"arg": "mangle(compiler._nonconst(sym))", "annotation": "ann_ast"}, "LL-WIRE", f"{R}|compile_arguments_set|arg",
              "asty.arg fields changed", R, cas.lineno, detail="arg=mangle(_nonconst(sym)), annotation=ann_ast")
    # which list receives the defaults: the second element of the returned tuple
    rt = next((r for r in ast.walk(cas) if isinstance(r, ast.Return) and isinstance(r.value, ast.Tuple) and len(r.value.elts) == 3), None)
    dv = rt.value.elts[1].id if rt is not None and isinstance(rt.value.elts[1], ast.Name) else None
    apps = [n for n in ast.walk(cas) if isinstance(n, ast.Call) and isinstance(n.func, ast.Attribute) and n.func.attr == "append" and isinstance(n.func.value, ast.Name) and n.func.value.id == dv and len(n.args) == 1]
    pads = [n for n in apps if isinstance(n.args[0], ast.Constant) and n.args[0].value is None]
    vals = [n for n in apps if n not in pads]
    A = boolfn.Atoms(D="default is None", L="isinstance(decl, List)", K="is_kwonly")
    feas = lambda e: e["D"] or e["L"]  # a default only ever comes from a [sym default] declaration
    v, cex = boolfn.equivalent(pads, cas, A, lambda e: e["D"] and (e["L"] or e["K"]), feasible=feas)
    ctx.decide_tt("LL-WIRE", f"{R}|compile_arguments_set|padding", v if dv else None, f"None padding of defaults does not happen exactly for parameters without a default that are keyword-only or written as a list (differs for {cex})",
               R, cas.lineno, witness="(fn [a b] …) gets defaults=[None, None] -> ValueError: more positional defaults than args / a required keyword-only parameter loses its slot", detail="default is None and (List or kwonly)")
    v, cex = boolfn.equivalent(vals, cas, A, lambda e: not e["D"], feasible=feas)
    okv = all(norm(n.args[0]).endswith(".force_expr") for n in vals) and bool(vals)
    ctx.decide_tt("LL-WIRE", f"{R}|compile_arguments_set|default-value", (v and okv) if v is not None and dv else None, f"a parameter's default value is not compiled and appended exactly when it has one (differs for {cex})", R, cas.lineno, detail="append(<compiled default>.force_expr)")
    # --- lambda vs def
    fl = rm.func("compile_function_lambda")
    ctx.require(fl is not None, "compile_function_lambda not found")
    # the Lambda is built only when nothing needs a `def`: no statements in the body, no type parameters, not async, and no
    # annotation anywhere - return annotation and all five parameter groups.  Decided on the path condition of the
    # asty.Lambda construction, boolean temporaries expanded.
    lamc = [c for c in pyq.calls(fl) if dotted(c.func) == "asty.Lambda"]
    if len(lamc) != 1:
        ctx.unres("FN-SHAPE", f"{R}|compile_function_lambda|lambda-condition", "the Lambda construction was not recognised")
    else:
        at = [str(a) for a in pyq.atoms_expanded(lamc[0], fl)]
        bodyv = next((dotted(k.value.value) for k in lamc[0].keywords if k.arg == "body" and isinstance(k.value, ast.Attribute)), None)
        need = {"not tp": "type parameters", "not is_async": "async", f"not {bodyv}.stmts": "statements in the body"}
        missing = [why for a, why in need.items() if a not in at]
        ctx.decide("FN-SHAPE", f"{R}|compile_function_lambda|lambda-condition", not missing if bodyv else None,
                   f"a Lambda is emitted under {at}: {missing} would be lost in a Lambda", R, lamc[0].lineno, witness="statements / type parameters / async are lost in a Lambda",
                   detail="not (annotations or tp or body.stmts or is_async)")
        # annotations: `returns is None` and a test that looks at the five parameter groups (in place, or in a helper it calls)
        ann = [a for a in pyq.atoms_expanded(lamc[0], fl) if a not in need and not (str(a).endswith(" is None") and " " not in str(a)[:-8])]
        texts = []
        for a in ann:
            texts.append(str(flat(a.node)) if hasattr(a, "node") and a.node is not None else str(a))
            for c in ast.walk(a.node) if getattr(a, "node", None) is not None else []:
                if isinstance(c, ast.Call) and isinstance(c.func, ast.Name) and rm.func(c.func.id) is not None:
                    texts.append(str(flat(rm.func(c.func.id))))
                if isinstance(c, ast.Name):
                    for d_ in [n.value for n in ast.walk(fl) if isinstance(n, ast.Assign) and len(n.targets) == 1 and isinstance(n.targets[0], ast.Name) and n.targets[0].id == c.id]:
                        texts.append(str(flat(d_)))
        tt = " ".join(texts)
        # the five parameter groups are whatever the 5-way unpacking of the parsed lambda list calls them
        def five(fn_):
            for n in ast.walk(fn_):
                if isinstance(n, ast.Assign) and isinstance(n.targets[0], ast.Tuple) and len(n.targets[0].elts) == 5 and all(isinstance(x, ast.Name) for x in n.targets[0].elts):
                    return [x.id for x in n.targets[0].elts]
            return None
        helper_fns = [rm.func(c.func.id) for a in ann for c in (ast.walk(a.node) if getattr(a, "node", None) is not None else []) if isinstance(c, ast.Call) and isinstance(c.func, ast.Name) and rm.func(c.func.id) is not None]
        names5 = five(fl) or next((five(h) for h in helper_fns if five(h)), None)
        import re as _re
        groups = [g for g in (names5 or []) if not _re.search(r"\b" + _re.escape(g) + r"\b", tt)]
        if names5 is None:
            ann = []
        retv = next((n.targets[0].elts[1].id for n in ast.walk(fl) if isinstance(n, ast.Assign) and isinstance(n.targets[0], ast.Tuple) and len(n.targets[0].elts) == 2
                     and all(isinstance(x, ast.Name) for x in n.targets[0].elts) and isinstance(n.value, ast.Name) and n.value.id in [a_.arg for a_ in fl.args.args]), "returns")
        ret_ok = f"{retv} is None" in at or f"{retv} is not None" in tt
        ctx.decide("FN-SHAPE", f"{R}|compile_function_lambda|has_annotations", None if not ann else (ret_ok and not groups),
                   f"the annotation test before emitting a Lambda does not look at {groups or 'the return annotation'}: an annotated parameter of that group is emitted inside a Lambda, where Python drops the annotation",
                   R, lamc[0].lineno, witness="(fn [#^ (f) #* xs] 1) never evaluates (f); hy2py prints an unparsable lambda", detail="all five groups + returns")
    fnn = rm.func("compile_function_node")
    ctx.require(fnn is not None, "compile_function_node not found")
    # the node class wrapped around the final expression: Return, or Expr for an async generator - decided on the truth table
    rsites = [n for n in ast.walk(fnn) if isinstance(n, ast.Assign) and dotted(n.value) == "asty.Return"]
    esites = [n for n in ast.walk(fnn) if isinstance(n, ast.Assign) and dotted(n.value) == "asty.Expr"]
    A2 = boolfn.Atoms(B="body.expr", A="scope.is_async", Y="scope.has_yield")
    v1, c1 = boolfn.equivalent(rsites, fnn, A2, lambda e: e["B"] and not (e["A"] and e["Y"]))
    v2, c2 = boolfn.equivalent(esites, fnn, A2, lambda e: e["B"] and e["A"] and e["Y"])
    same_var = len({n.targets[0].id for n in rsites + esites if isinstance(n.targets[0], ast.Name)}) == 1 and bool(rsites) and bool(esites)
    ev = rsites[0].targets[0].id if same_var else None
    used = pyq.contains(fnn, lambda n: isinstance(n, ast.Call) and isinstance(n.func, ast.Name) and n.func.id == ev and any(k.arg == "value" and norm(k.value) == "body.expr" for k in n.keywords))
    verdict = None if (v1 is None or v2 is None or not same_var or used is None) else (v1 and v2)
    ctx.decide_tt("FN-SHAPE", f"{R}|compile_function_node|implicit-return", verdict, f"the implicit return rule changed (Return of the last expression unless async generator; differs for {c1 or c2})", R, fnn.lineno,
               witness="(defn f [] 1) returns None / an async generator gets `return value`: SyntaxError", detail="Expr if async generator else Return")
    y = rm.func("compile_yield_expression")
    ctx.require(y is not None, "compile_yield_expression not found")
    mark = pyq.contains(y, lambda n: isinstance(n, ast.If) and norm(n.test) == "is_inside_function_scope(compiler.scope)" and "nearest_python_scope(compiler.scope).has_yield = True" in [norm(s) for s in n.body])
    ctx.check(mark is not None, "FN-SHAPE", f"{R}|compile_yield_expression|marks-nearest-function", "yield must mark the nearest enclosing Python scope (through let and comprehension scopes) as a generator",
              R, y.lineno, witness="(defn :async f [] (let [x 1] (yield x)) 2) compiles to `return 2` in an async generator: SyntaxError", detail="nearest_python_scope(...).has_yield = True")
    for fname in ("compile_function_lambda", "compile_function_def"):
        f = rm.func(fname)
        w = pyq.contains(f, lambda n: isinstance(n, ast.With) and "compiler.local_state()" in norm(n) and "compiler.scope.create(ScopeFn, args, is_async)" in norm(n)
                         and pyq.contains(n.body, lambda x: isinstance(x, ast.Call) and isinstance(x.func, ast.Attribute) and x.func.attr == "_compile_branch") is not None)
        ctx.check(w is not None, "FN-SHAPE", f"{R}|{fname}|body-in-function-scope", "the body is not compiled inside `local_state()` and a ScopeFn created from the compiled arguments", R, f.lineno,
                  detail="with local_state(), scope.create(ScopeFn, args, is_async)")
    # --- calls
    cc = comp.cp.func("HyASTCompiler._compile_collect")
    ctx.require(cc is not None, "_compile_collect not found")
    # positionals and keywords go to separate lists (first and third element of the returned tuple), in encounter order (append)
    rt2 = next((r for r in ast.walk(cc) if isinstance(r, ast.Return) and isinstance(r.value, ast.Tuple) and len(r.value.elts) == 3), None)
    pos_l, kw_l = (rt2.value.elts[0].id, rt2.value.elts[2].id) if rt2 is not None and all(isinstance(e, ast.Name) for e in rt2.value.elts) else (None, None)
    apps2 = [n for n in ast.walk(cc) if isinstance(n, ast.Call) and isinstance(n.func, ast.Attribute) and n.func.attr in ("append", "extend", "insert") and isinstance(n.func.value, ast.Name) and n.func.value.id in (pos_l, kw_l)]
    kwc = [n for n in ast.walk(cc) if isinstance(n, ast.Call) and dotted(n.func) == "asty.keyword"]
    adds_kw = [a for a in apps2 if a.func.value.id == kw_l] + [n for n in ast.walk(cc) if isinstance(n, ast.AugAssign) and isinstance(n.target, ast.Name) and n.target.id == kw_l]
    def reaches_kw(k):
        if any(k is x for a in adds_kw for x in ast.walk(a)):
            return True
        # built into a local first (also through a tuple assignment), the local appended afterwards
        st = k
        while st is not None and not isinstance(st, ast.stmt):
            st = getattr(st, "_parent", None)
        if isinstance(st, ast.Assign):
            names = {x.id for t in st.targets for x in ast.walk(t) if isinstance(x, ast.Name)}
            return any(isinstance(x, ast.Name) and x.id in names for a in adds_kw for arg in (a.args if isinstance(a, ast.Call) else [a.value]) for x in ast.walk(arg))
        return False

    okw = all(reaches_kw(k) for k in kwc) and bool(kwc)
    ok_app = all(a.func.attr in ("append", "extend") for a in apps2)
    ctx.decide("CALL-WIRE", f"{compq.CP}|_compile_collect|appends", None if pos_l is None else (okw and ok_app), "keyword arguments must be appended (in encounter order) to the keyword list, positionals to the positional list",
               compq.CP, cc.lineno, detail="append only; asty.keyword -> keywords")
    ctx.check(not any(isinstance(n, ast.Call) and isinstance(n.func, ast.Attribute) and n.func.attr in ("insert", "sort", "reverse") for n in ast.walk(cc)), "CALL-WIRE",
              f"{compq.CP}|_compile_collect|no-reorder", "arguments are reordered", compq.CP, cc.lineno, detail="no insert/sort/reverse")
    ret = [n for n in pyq.walk_no_nested(cc) if isinstance(n, ast.Return)]
    ctx.check(len(ret) == 1 and norm(ret[0].value) == "(compiled_exprs, ret, keywords)", "CALL-WIRE", f"{compq.CP}|_compile_collect|return", "return tuple changed", compq.CP, cc.lineno, detail="(exprs, ret, keywords)")
    ce = comp.cp.func("HyASTCompiler.compile_expression")
    c = pyq.contains(ce, lambda n: isinstance(n, ast.Call) and dotted(n.func) == "asty.Call")
    un = pyq.contains(ce, lambda n: isinstance(n, ast.Assign) and isinstance(n.targets[0], ast.Tuple) and "_compile_collect" in norm(n.value))
    ctx.check(c is not None and un is not None and norm(un.targets[0]) == "(args, ret, keywords)" and {k.arg: norm(k.value) for k in c.keywords}.get("args") == "args"
              and {k.arg: norm(k.value) for k in c.keywords}.get("keywords") == "keywords", "CALL-WIRE", f"{compq.CP}|compile_expression|Call", "Call.args / Call.keywords wiring changed", compq.CP, ce.lineno,
              detail="args=args, keywords=keywords")
    check_scopefn_params(ctx, comp, "SCOPE-PARAMS")
    ctx.floor("LL-WIRE", 12)


def _if_of(n):
    while n is not None and not isinstance(n, ast.If):
        n = n._parent
    return n


SELFTESTS = [
    dict(name="kwonly not padded", file=R, old="        compiler, kwonly_parms, ret, True\n    )", new="        compiler, kwonly_parms, ret\n    )", rule="LL-WIRE", key="is_kwonly"),
    dict(name="defaults swapped", file=R, old="defaults=[*posonly_defaults, *args_defaults],", new="defaults=[*args_defaults, *posonly_defaults],", rule="LL-WIRE", key="arguments.defaults"),
    dict(name="posonly as args", file=R, old="            vararg=rest_ast,\n            posonlyargs=posonly_ast,", new="            vararg=rest_ast,\n            posonlyargs=[],", rule="LL-WIRE", key="arguments.posonlyargs"),
    dict(name="annotations of rest ignored", file=R, old="for param in (posonly or []) + args + kwonly + [rest, kwargs]", new="for param in (posonly or []) + args + kwonly", rule="FN-SHAPE", key="has_annotations"),
    dict(name="yield marks only direct scope", file=R, old="    if is_inside_function_scope(compiler.scope):\n        nearest_python_scope(compiler.scope).has_yield = True",
         new="    if is_function_scope(compiler.scope):\n        compiler.scope.has_yield = True", rule="FN-SHAPE", key="compile_yield_expression"),
    dict(name="scope drops posonly", file=compq.SC, old="args.args, args.posonlyargs, args.kwonlyargs, [args.vararg, args.kwarg]", new="args.args, args.kwonlyargs, [args.vararg, args.kwarg]",
         rule="SCOPE-PARAMS", key="args.posonlyargs"),
]
