"""C03 — operator macros agree with hy.pyops and Python: agreement of sibling tables."""
CANON = True
STRICT = {"R-LIN-ANON", "R-LIN-VAR", "R-LIN-PATH", "R-EXPR-STORE", "R-REC-FWD"}

import ast

from .. import pm as pmx, compq, hysexp, pyq
from ..pysrc import Unfoldable, dotted, fold, norm

R = compq.RM
PY = "hy/pyops.hy"
INF = float("inf")

AST_TO_OPERATOR = {
    "ast.Add": "operator.add", "ast.Sub": "operator.sub", "ast.Mult": "operator.mul", "ast.Div": "operator.truediv", "ast.FloorDiv": "operator.floordiv",
    "ast.Pow": "operator.pow", "ast.LShift": "operator.lshift", "ast.RShift": "operator.rshift", "ast.BitOr": "operator.or_", "ast.BitAnd": "operator.and_",
    "ast.MatMult": "operator.matmul", "ast.Eq": "operator.eq", "ast.NotEq": "operator.ne", "ast.Lt": "operator.lt", "ast.LtE": "operator.le", "ast.Gt": "operator.gt",
    "ast.GtE": "operator.ge", "ast.Is": "operator.is_", "ast.IsNot": "operator.is-not",
}
SELF_FORM = {"ast.Mod": "%", "ast.BitXor": "^", "ast.In": "in", "ast.NotIn": "not-in", "ast.Invert": "bnot", "ast.Not": "not"}
NULLARY_DOC = {"+": "0", "*": "1", "|": "0", "and": "True", "or": "None"}
UNARY_DOC = {"+": "+x", "-": "-x", "*": "x", "/": "1 / x", "&": "x", "|": "x", "<": "True", "<=": "True", "=": "True", "is": "True", ">=": "True", ">": "True",
             "and": "x", "or": "x", "bnot": "~x", "not": "not x"}


def pattern_arity(p):
    """[min, max] number of forms a one- or two-slot operator pattern accepts."""
    lo = hi = 0
    for e in p.elts:
        t = norm(e)
        if t == "FORM":
            lo += 1; hi += 1
        elif t == "many(FORM)":
            hi = INF
        elif t == "oneplus(FORM)":
            lo += 1; hi = INF
        elif isinstance(e, ast.Call) and dotted(e.func) == "times" and norm(e.args[2]) == "FORM":
            a, b = fold(e.args[0]), fold(e.args[1], {"Inf": INF})
            lo += a; hi += b
        else:
            raise Unfoldable(t)
    return lo, hi


def check(ctx, src):
    ctx.rule("T-ARITY", "the arity interval of each operator macro's pattern equals the arity of the same-named hy.pyops function's lambda list")
    ctx.rule("T-OP", "the ast operator class of each macro corresponds (by Python's fixed ast<->operator table) to the function the pyops body folds with, or the body uses the same macro form")
    ctx.rule("T-FOLD", "the set of operators the macro folds to the right ({**}) equals the set of pyops functions that use _foldr; everything else folds left (reduce with the first argument as start)")
    ctx.rule("T-IDENT", "nullary and unary cases of the macro (identity element; 1/x; unary + and -; argument unchanged; True for one-argument comparisons) agree with the pyops bodies and documented :nullary/:unary")
    ctx.rule("T-AGG", "the aggregator used by augmented assignment with 3+ arguments equals the documented :agg of the parent operator (default: the operator itself; none when :n-ary None)")
    ctx.rule("T-SHADOW", "a shadowed macro call containing #* is rewritten to (hy.pyops.NAME …) before pattern parsing, and NAME is exported by hy.pyops")
    comp = compq.Compiler(src)
    py = src.hy(PY)
    env = comp.env
    m_ops, c_ops = env.get("m_ops"), env.get("c_ops")
    ctx.need(isinstance(m_ops, dict) and isinstance(c_ops, dict) and len(m_ops) == 13 and len(c_ops) == 10, "m_ops / c_ops tables could not be folded")
    c_src = comp.rm.toplevel_assign("c_ops")
    # the unmangled comparison table is the first assignment
    c_first = next(st.value for st in comp.rm.tree.body if isinstance(st, ast.Assign) and norm(st.targets[0]) == "c_ops")
    c_plain = fold(c_first)
    shadow = {}
    for r in comp.registry:
        if r["shadow"]:
            for n in r["names"]:
                shadow[n] = r
    ctx.need(len(shadow) >= 28, f"{len(shadow)} shadowed macros found, 28 expected")
    all_names = None
    for f in py.top("setv"):
        if f.items[1].is_sym("__all__"):
            all_names = [x.items[1].val for x in f.walk() if x.kind == "expr" and x.head() == "quote"]
    ctx.need(all_names and len(all_names) >= 28, "hy.pyops.__all__ not understood")

    for name, r in sorted(shadow.items()):
        d = py.defn(name)
        key = f"{name}"
        ctx.check(d is not None and name in all_names, "T-SHADOW", f"{PY}|{key}|exported", f"operator `{name}` has shadow=True but hy.pyops does not define/export it", PY, 0,
                  witness=f"({name} #* xs) raises AttributeError", detail="defined and in __all__")
        if d is None:
            continue
        ll = d.items[2]
        try:
            lo, hi = pattern_arity(r["pattern"])
        except Unfoldable as e:
            ctx.unres("T-ARITY", key, f"pattern {e}")
            continue
        plo, phi = hysexp.lambda_list_arity(ll)
        ctx.check((lo, hi) == (plo, phi), "T-ARITY", f"{name}|arity", f"macro `{name}` accepts {lo}..{hi} arguments but hy.pyops.{name} accepts {plo}..{phi}", R, r["deco"].lineno,
                  witness=f"({name} …) with a boundary number of arguments is a syntax error for the macro and fine for the function (or vice versa)", detail=f"{lo}..{hi}")

    # --- operator correspondence
    def body_syms(d):
        return set(d.syms())

    for name, (cls, agg) in sorted(m_ops.items()):
        d = py.defn(name)
        ctx.need(d is not None, f"pyops {name} missing")
        syms = body_syms(d)
        cls = str(cls)
        if cls in AST_TO_OPERATOR:
            ctx.check(AST_TO_OPERATOR[cls] in syms, "T-OP", f"{name}|{cls}", f"macro `{name}` emits {cls} but hy.pyops.{name} does not use {AST_TO_OPERATOR[cls]}", PY, d.line,
                      witness=f"({name} 7 2) and (hy.pyops.{name} 7 2) differ", detail=AST_TO_OPERATOR[cls])
        else:
            body = d.items[4:]
            ctx.check(cls in SELF_FORM and any(b.kind == "expr" and b.head() == SELF_FORM[cls] for b in body), "T-OP", f"{name}|{cls}", f"hy.pyops.{name} does not reduce to the `{SELF_FORM.get(cls)}` form", PY, d.line, detail="same macro form")
        # aggregator
        doc = d.items[3]
        kv = {doc.items[i].val: doc.items[i + 1] for i in range(1, len(doc.items) - 1, 2) if doc.items[i].kind == "kw"}
        nary_none = "n-ary" in kv and kv["n-ary"].is_sym("None")
        documented = None if nary_none else (kv["agg"].val if "agg" in kv else name)
        ctx.check(agg == documented, "T-AGG", f"{name}=|aggregator", f"({name}= x a b …) aggregates with `{agg}` but hy.pyops.{name} documents `{documented}`", R, 0,
                  witness=f"({name}= x a b) differs from the documented ({name}= x ({documented} a b))", detail=str(agg))
        # fold direction
        ctx.check(("_foldr" in syms) == (name == "**"), "T-FOLD", f"{name}|pyops fold", f"hy.pyops.{name} {'uses' if '_foldr' in syms else 'does not use'} _foldr", PY, d.line, detail="right fold only for **")
    for name, cls in sorted(c_plain.items()):
        d = py.defn(name)
        ctx.need(d is not None, f"pyops {name} missing")
        cls = str(cls)
        syms = body_syms(d)
        if cls in AST_TO_OPERATOR:
            ctx.check(AST_TO_OPERATOR[cls] in syms and "comp-op" in syms, "T-OP", f"{name}|{cls}", f"macro `{name}` emits {cls} but hy.pyops.{name} does not use {AST_TO_OPERATOR[cls]} via comp-op", PY, d.line, detail=AST_TO_OPERATOR[cls])
        else:
            inner = [n for n in d.walk() if n.kind == "expr" and n.head() == SELF_FORM.get(cls)]
            ctx.check(bool(inner) and "comp-op" in syms, "T-OP", f"{name}|{cls}", f"hy.pyops.{name} does not test with `{SELF_FORM.get(cls)}`", PY, d.line, detail="same macro form")
    un = comp.rm.func("compile_unary_operator")
    opsd = pyq.contains(un, lambda n: isinstance(n, ast.Dict) and {getattr(k, "value", None) for k in n.keys} == {"not", "bnot"})
    ctx.need(opsd is not None, "compile_unary_operator: operator table not found")
    ops = fold(opsd)
    ctx.check({k: str(v) for k, v in ops.items()} == {"not": "ast.Not", "bnot": "ast.Invert"}, "T-OP", "not/bnot|classes", f"unary table is {ops}", R, un.lineno, detail="Not / Invert")
    for name in ("not", "bnot"):
        d = py.defn(name)
        ctx.check(d is not None and any(b.kind == "expr" and b.head() == name for b in d.items[4:]), "T-OP", f"{name}|pyops", f"hy.pyops.{name} does not reduce to ({name} x)", PY, 0, detail="same form")
    # comp-op chains pairwise with `and`
    co = py.defn("comp-op")
    ctx.need(co is not None, "comp-op not found")
    t = co.src()
    ctx.check("(zip (+ #(a1) a-rest) a-rest)" in t and "(and (unpack-iterable (gfor" in t and "(op x y)" in t, "T-OP", "comp-op|chain", "comp-op no longer tests adjacent pairs left to right", PY, co.line, detail="adjacent pairs")
    # --- macro fold direction and start
    mx = comp.rm.func("compile_maths_expression")
    ctx.require(mx is not None, "compile_maths_expression not found")
    ra = pyq.contains(mx, lambda n: isinstance(n, ast.Assign) and isinstance(n.value, ast.Compare) and norm(n.value.left) == "root" and isinstance(n.targets[0], ast.Name))
    ctx.check(ra is not None and norm(ra.value) in ("root == '**'",), "T-FOLD", "macro|right-associative set", f"the macro folds right for `{norm(ra.value) if ra else None}`", R, mx.lineno,
              witness="(** 2 3 2) gives 64 instead of 512, or (- 10 3 2) gives 9", detail="root == '**'")
    start = pyq.contains(mx, lambda n: isinstance(n, ast.Assign) and norm(n) == "ret = compiler.compile(args[-1 if right_associative else 0])")
    loop = next((n for n in pyq.walk_no_nested(mx) if isinstance(n, ast.For)), None)
    ctx.check(start is not None and loop is not None and norm(loop.iter) == "args[-2 if right_associative else 1::-1 if right_associative else 1]", "T-FOLD", "macro|fold order",
              "the fold must start from the first (last for **) argument and visit the rest in order (reverse order for **)", R, mx.lineno, detail="start/step by associativity")
    body = [norm(s) for s in loop.body] if loop else []
    ctx.check(body == ["left_expr = ret.force_expr", "ret += compiler.compile(child)", "right_expr = ret.force_expr", "if right_associative: left_expr, right_expr = (right_expr, left_expr)",
                       "ret += asty.BinOp(expr, left=left_expr, op=op(), right=right_expr)"], "T-FOLD", "macro|fold step", f"fold step is {body}", R, mx.lineno,
              witness="(- a b) computes b - a", detail="accumulated value on the left (right for **)")
    for name in m_ops:
        d = py.defn(name)
        t = d.src()
        if name in ("%", "^", "**"):
            continue
        # the n-ary case is a left fold that starts from the first argument: (reduce OP <rest...> a1), or (reduce OP args)
        # over all the arguments
        ll = d.items[2]
        params = [x.val for x in ll.items if x.kind == "sym" and x.val != "#*"]
        rest = next((ll.items[i + 1].val for i in range(len(ll.items) - 1) if ll.items[i].is_sym("#*")), None)
        rest = rest or next((x.items[1].val for x in ll.items if x.kind == "expr" and x.head() == "unpack-iterable" and len(x.items) == 2), None)
        params = [p_ for p_ in params if p_ != rest]
        body_n = hysexp.value_for_count(d.items[-1], rest, 3) if rest else d.items[-1]
        red = [n for n in (body_n.walk() if body_n is not None else []) if n.kind == "expr" and n.head() == "reduce"]
        verdict = None
        if len(red) == 1:
            a = red[0].items[1:]
            if len(a) == 3:
                verdict = (bool(params) and a[2].is_sym(params[0])) if a[2].kind == "sym" else None
            elif len(a) == 2:
                verdict = a[1].is_sym(rest) and not params if a[1].kind == "sym" else None
        ctx.decide("T-FOLD", f"{name}|pyops start", verdict, f"hy.pyops.{name} does not left-fold starting from its first argument ({red[0].src() if red else None})", PY, d.line, detail="reduce(op, rest, a1) / reduce(op, args)")
    # --- identities
    null = pyq.contains(mx, lambda n: isinstance(n, ast.If) and norm(n.test) == "len(args) == 0")
    ctx.need(null is not None, "macro nullary arm not found")
    nd = fold(pyq.contains(null, lambda n: isinstance(n, ast.Dict)))
    for name, v in sorted(nd.items()):
        d = py.defn(name)
        doc = d.items[3]
        kv = {doc.items[i].val: doc.items[i + 1] for i in range(1, len(doc.items) - 1, 2) if doc.items[i].kind == "kw"}
        ctx.check(kv.get("nullary") is not None and kv["nullary"].val == str(v) == NULLARY_DOC.get(name), "T-IDENT", f"{name}|nullary", f"({name}) is {v} in the macro, documented {kv.get('nullary').val if kv.get('nullary') else None}", R, null.lineno, detail=str(v))
        ll = d.items[2]
        rest = next((ll.items[i + 1].val for i in range(len(ll.items) - 1) if ll.items[i].is_sym("#*")), None)
        rest = rest or next((x.items[1].val for x in ll.items if x.kind == "expr" and x.head() == "unpack-iterable" and len(x.items) == 2), None)
        first = hysexp.value_for_count(d.items[-1], rest, 0) if rest else None
        ctx.decide("T-IDENT", f"{name}|nullary pyops body", None if first is None else first.src() == str(v), f"hy.pyops.{name} returns {first.src() if first else '?'} for no arguments; the macro gives {v}", PY, d.line, detail=str(v))
    ctx.check(set(nd) == {n for n, r in shadow.items() if r["func"].name == "compile_maths_expression" and pattern_arity(r["pattern"])[0] == 0}, "T-IDENT", "nullary|domain",
              "the identity table does not cover exactly the operators that accept zero arguments", R, null.lineno, witness="(|) raises KeyError inside the compiler", detail=str(sorted(nd)))
    # unary cases, identified by what they build and decided by the conditions on the path to it
    # the reciprocal: a two-element list [<one>, <the only argument>] built under `len(args) == 1` and `root == '/'`;
    # <one> must be the integer model 1 (a float numerator changes the result for big ints and Fractions)
    ap = mx.args.args[3].arg if len(mx.args.args) > 3 else "args"
    recs = [n for n in ast.walk(mx) if isinstance(n, ast.List) and len(n.elts) == 2 and isinstance(n.elts[1], ast.Subscript) and norm(n.elts[1]) == f"{ap}[0]"]
    verdict = None
    for r_ in recs:
        ctors = [c for c in ast.walk(r_.elts[0]) if isinstance(c, ast.Call) and isinstance(c.func, ast.Name) and c.func.id[:1].isupper()]
        if not ctors:
            continue
        c0 = ctors[-1]
        is_int_one = c0.func.id == "Integer" and len(c0.args) == 1 and isinstance(c0.args[0], ast.Constant) and c0.args[0].value == 1 and type(c0.args[0].value) is int
        guarded = pyq.has_atoms(r_, mx, ["len(args) == 1", "root == '/'"], about="root")
        verdict = bool(is_int_one) if guarded else (False if is_int_one else None)
        rec = r_
    ctx.decide("T-IDENT", "/|unary", verdict, "unary / must be rewritten to (/ 1 x) with the integer 1, exactly for one argument of `/`",
               R, mx.lineno, witness="(/ x) with a huge int differs from Python's 1/x (float numerator)", detail="[Integer(1), x]")
    uop = pyq.contains(mx, lambda n: isinstance(n, ast.Call) and dotted(n.func) == "asty.UnaryOp")
    tbl = pyq.contains(mx, lambda n: isinstance(n, ast.Dict) and {getattr(k, "value", None) for k in n.keys} == {"+", "-"})
    same = [r for r in ast.walk(mx) if isinstance(r, ast.Return) and norm(r.value) == "compiler.compile(args[0])"]
    okpm = (uop is not None and tbl is not None and fold(tbl) == {"+": "ast.UAdd", "-": "ast.USub"} and pyq.has_atoms(uop, mx, ["len(args) == 1", "root != '/'", "root in ('+', '-')"], about="root")
            and len(same) == 1 and pyq.has_atoms(same[0], mx, ["len(args) == 1", "root != '/'", "root not in ('+', '-')"], about="root"))
    ctx.check(okpm, "T-IDENT", "+,-|unary", "unary + / - must be UAdd / USub and every other unary case the argument itself", R, mx.lineno, detail="UAdd/USub; else unchanged")
    cmpf = comp.rm.func("compile_compare_op_expression")
    one = pyq.contains(cmpf, lambda n: isinstance(n, ast.If) and norm(n.test) == "len(args) == 1")
    ctx.check(one is not None and norm(one.body[0]) == "return compiler.compile(args[0]) + asty.Constant(expr, value=True)", "T-IDENT", "comparison|unary", "a one-argument comparison must evaluate its argument and be True", R, cmpf.lineno, detail="compile(arg) + True")
    ops_l = pmx.find(cmpf, "ops = [get_c_op(compiler, root) for _ in args[1:]]")
    cmpn = pyq.contains(cmpf, lambda n: isinstance(n, ast.Call) and dotted(n.func) == "asty.Compare")
    ctx.check(ops_l is not None and cmpn is not None and pmx.eq(cmpn, "asty.Compare(expr, left=exprs[0], ops=ops, comparators=exprs[1:])") is not None, "T-OP", "comparison|chain",
              "comparison macros must chain all arguments in one Compare", R, cmpf.lineno, detail="Compare(left=exprs[0], comparators=exprs[1:])")
    for name, want in sorted(UNARY_DOC.items()):
        d = py.defn(name)
        if d is None or d.items[3].kind != "list":
            continue
        doc = d.items[3]
        kv = {doc.items[i].val: doc.items[i + 1] for i in range(1, len(doc.items) - 1, 2) if doc.items[i].kind == "kw"}
        # the one-argument case of the rest-parameter operators whose unary case is the argument itself: the body, evaluated
        # for exactly one argument, is that argument (get args 0) - not a fold that combines it with an identity element
        if want == "x" and name in ("*", "&", "|", "and", "or"):
            ll_ = d.items[2]
            rest_ = next((ll_.items[i_ + 1].val for i_ in range(len(ll_.items) - 1) if ll_.items[i_].is_sym("#*")), None) or \
                next((x_.items[1].val for x_ in ll_.items if x_.kind == "expr" and x_.head() == "unpack-iterable" and len(x_.items) == 2), None)
            positional = [x_ for x_ in ll_.items if x_.kind == "sym" and x_.val not in ("#*", rest_)]
            if rest_ and not positional:
                one = hysexp.value_for_count(d.items[-1], rest_, 1)
                verdict_u = None if one is None else (True if one.src() in (f"(get {rest_} 0)", f"(. {rest_} [0])", f"(next (iter {rest_}))") else
                                                      (False if one.kind == "expr" and one.head() in ("reduce", "functools.reduce") and len(one.items) == 4 and one.items[2].is_sym(rest_) else None))
                ctx.decide("T-IDENT", f"{name}|unary pyops body", verdict_u, f"hy.pyops.{name} with one argument evaluates `{one.src() if one else None}`; it must return the argument itself, as the macro does",
                           PY, d.line, witness=f"(hy.pyops.{name} x) for a set / None / bool x raises or changes the type", detail="(get args 0)", robust=True)
        ctx.check("unary" in kv and kv["unary"].val == want, "T-IDENT", f"{name}|unary doc", f"documented unary case of `{name}` is {kv['unary'].val if 'unary' in kv else None}, the macro implements `{want}`", PY, d.line, detail=want)
    # --- augmented assignment
    ag = comp.rm.func("compile_augassign_expression")
    ctx.require(ag is not None, "compile_augassign_expression not found")
    rec = pyq.contains(ag, lambda n: isinstance(n, ast.If) and norm(n.test) == "len(values) > 1")
    ctx.check(rec is not None and "mkexpr(root, [target], mkexpr(a_ops[root][1], rest=values)).replace(expr)" in norm(rec.body[0]), "T-AGG", "augassign|rewrite",
              "with several values, (OP= x a b …) must be rewritten to (OP= x (AGG a b …))", R, ag.lineno, detail="mkexpr(root, [target], mkexpr(agg, rest=values))")
    a_src = comp.rm.toplevel_assign("a_ops")
    ctx.check(a_src is not None and norm(a_src) == "{x + '=': v for x, v in m_ops.items()}", "T-AGG", "a_ops|derivation", "a_ops is no longer derived from m_ops", R, 0, detail="x + '='")
    # --- shadow wrapper
    mc = comp.mc
    w = mc.func("pattern_macro.dec.wrapper_maker.wrapper")
    ctx.need(w is not None, "pattern_macro wrapper not found")
    sh = pyq.contains(w, lambda n: isinstance(n, ast.If) and norm(n.test) == "shadow and any((is_unpack('iterable', x) for x in args))")
    parse = pyq.contains(w, lambda n: isinstance(n, ast.Call) and dotted(n.func) == "pattern.parse")
    ctx.check(sh is not None and parse is not None and sh.lineno < parse.lineno and any(st is sh for st in w.body), "T-SHADOW", f"{compq.MC}|pattern_macro.wrapper|fallback-first",
              "the #* fallback to hy.pyops must be decided before the arguments are matched against the macro's pattern", compq.MC, w.lineno,
              witness="(** #* [2 3]) is a syntax error although (hy.pyops.** 2 3) is fine", detail="before pattern.parse")
    if sh is not None:
        # what the fallback returns: a call form whose head is (. hy pyops NAME) and whose arguments are the macro's own
        consts = [c.value for st in sh.body for c in ast.walk(st) if isinstance(c, ast.Constant) and isinstance(c.value, str)]
        star = any(isinstance(x, ast.Starred) and isinstance(x.value, ast.Name) and x.value.id == "args" for st in sh.body for x in ast.walk(st))
        names = any(isinstance(x, ast.Name) and x.id == "name" for st in sh.body for x in ast.walk(st))
        idx = [consts.index(x) if x in consts else None for x in (".", "hy", "pyops")]
        verdict = None if None in idx and "pyops" not in consts else (None not in idx and idx == sorted(idx) and star and names)
        ctx.decide("T-SHADOW", f"{compq.MC}|pattern_macro.wrapper|target", verdict, f"the fallback must call (. hy pyops NAME) with the same arguments (head built from {consts}, *args: {star})", compq.MC, sh.lineno, detail="(. hy pyops name)")
    from . import c11 as _c11
    from .. import core as _core

    ctx.rule("R-LIN", "Result-flow rules shared with C11, for the functions of this property: no value placed on a path that excludes the placement of its statements, no expression replaced while the operand's "
             "temporaries stay exposed, no recursive call that loses a parameter")
    _core.transfer(ctx, src, _c11, {"R-LIN-PATH", "R-EXPR-STORE", "R-REC-FWD"}, key_filter=lambda k: any(f in k for f in ('compile_maths_expression', 'compile_augassign_expression', 'compile_compare', 'compile_unary', 'compile_chained')))
    ctx.floor("T-ARITY", 28)
    ctx.floor("T-OP", 25)


SELFTESTS = [
    dict(name="sub emits Add", file=R, old='    "-": (ast.Sub, "+"),', new='    "-": (ast.Add, "+"),', rule="T-OP", key="-|"),
    dict(name="pyops sub uses add", file=PY, old="    (reduce operator.sub a-rest a1)", new="    (reduce operator.add a-rest a1)", rule="T-OP", key="-|"),
    dict(name="agg of - documented as *", file=PY, old='    :unary "-x"\n    :agg "+"]', new='    :unary "-x"\n    :agg "*"]', rule="T-AGG", key="-="),
    dict(name="fold right for //", file=R, old='    right_associative = root == "**"', new='    right_associative = root in ("**", "//")', rule="T-FOLD", key="right-associative"),
    dict(name="min arity of & raised", file=R, old='@pattern_macro(["-", "/", "&", "@"], [oneplus(FORM)], shadow=True)', new='@pattern_macro(["-", "/", "@"], [oneplus(FORM)], shadow=True)\n@pattern_macro(["&"], [times(2, Inf, FORM)], shadow=True)',
         rule="T-ARITY", key="&|arity"),
    dict(name="float reciprocal", file=R, old="            args = [Integer(1).replace(expr), args[0]]", new="            args = [Float(1).replace(expr), args[0]]", rule="T-IDENT", key="/|unary"),
    dict(name="shadow after parse", file=compq.MC, kind="break", rule="T-SHADOW", key="fallback-first", edits=[
        ("""                if shadow and any(is_unpack("iterable", x) for x in args):
                    # Try a shadow function call with this name instead.
                    return Expression(
                        [Expression(map(Symbol, [".", "hy", "pyops", name])), *args]
                    ).replace(_hy_compiler.this)

""", ""),
        ("""                return fn(_hy_compiler, expr, name, *parse_tree)""", """                if shadow and any(is_unpack("iterable", x) for x in args):
                    return Expression(
                        [Expression(map(Symbol, [".", "hy", "pyops", name])), *args]
                    ).replace(_hy_compiler.this)
                return fn(_hy_compiler, expr, name, *parse_tree)""")]),
    dict(name="reorder m_ops twin", file=R, kind="twin", edits=[('    "+": (ast.Add, "+"),\n    "/": (ast.Div, "*"),', '    "/": (ast.Div, "*"),\n    "+": (ast.Add, "+"),')]),
]
