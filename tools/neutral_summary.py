#!/venv/bin/python
"""Summarise /tmp/neutral_detail.json: which rules fired on which behaviour-preserving variants."""
import json, re, sys, collections
d = json.load(open("/tmp/neutral_detail.json"))
by = collections.defaultdict(set)
for k, info in d.items():
    t, f = k.split("|")
    for l in info["lines"]:
        m = re.match(r"(ANALYSIS-ERROR property=\S+ .{0,150})|(\S+?): \[([^\]]+)\] (.{0,110})", l)
        if not m: continue
        key = m.group(1) or f"[{m.group(3)}] {m.group(4)}"
        by[key].add(f"{t}:{f.split('/')[-1]}")
for k, v in sorted(by.items()):
    print(f"{k}\n      <- {', '.join(sorted(v))}")
print(len(by), "distinct alarms")
