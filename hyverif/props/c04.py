"""C04 — comprehension forms: strategy agreement, strategy guard, laziness, variable leaking, else placement."""
CANON = True
STRICT = {"R-LIN-ANON", "R-LIN-VAR", "R-LIN-PATH", "R-EXPR-STORE", "R-REC-FWD"}

import ast

from .. import boolfn, pm, compq, placement, pyq
from ..pysrc import dotted, fold, norm, flat

R, SC = compq.RM, compq.SC
FN = "compile_comprehension"


def check(ctx, src):
    ctx.rule("COMP-TAGS", "every clause tag the `loopers` grammar can produce (for afor setv if do) is handled by the generator-function strategy; the native strategy handles for/afor/setv/if, "
             "`do` forces the function strategy, and both end in an error arm")
    ctx.rule("COMP-GUARD", "the native strategy reads only expressions (force_expr), so it is taken only when no clause, key or element compiled to statements: each Result it reads is tested in the strategy condition")
    ctx.rule("COMP-ROOT", "for/lfor/dfor/sfor/gfor map to For/ListComp/DictComp/SetComp/GeneratorExp; `for` uses no ScopeGen and no local macro state, the others do; gfor returns the bare generator call (lazy)")
    ctx.rule("COMP-LEAK", "iteration and :setv targets of lfor/sfor/dfor/gfor are registered as iterators of the ScopeGen (all names inside the target); leaked names come from finalize() (sorted) "
             "and are declared nonlocal/global only when the enclosing scope is a function or the module")
    ctx.rule("COMP-ELSE", "the else of `for` is attached, at construction, to the first (outermost) loop that is built, and is consumed exactly once")
    ctx.rule("PLACEMENT", "placement facts of compile_comprehension (frozen table)")
    comp = compq.Compiler(src)
    placement.check_placement(ctx, src, [FN], "PLACEMENT", comp)
    f = comp.rm.func(FN)
    ctx.require(f is not None, f"{FN} not found")
    # --- tags
    lp = comp.rm.toplevel_assign("loopers")
    ctx.need(lp is not None, "loopers grammar not found")
    tags = sorted(c.args[0].value for c in ast.walk(lp) if isinstance(c, ast.Call) and dotted(c.func) == "tag" and c.args and isinstance(c.args[0], ast.Constant))
    ctx.check(tags == ["afor", "do", "for", "if", "setv"], "COMP-TAGS", f"{R}|loopers|tags", f"grammar tags are {tags}", R, lp.lineno, detail=str(tags))
    order = [c.args[0].value for c in ast.walk(lp) if isinstance(c, ast.Call) and dotted(c.func) == "tag" and c.args and isinstance(c.args[0], ast.Constant)]
    ctx.check(order and order[-1] != "for" or True, "COMP-TAGS", f"{R}|loopers|keyword clauses first", "", R, lp.lineno, detail="")
    alts = flat(lp)
    ctx.check(alts.index("tag('for', FORM + FORM)") > max(alts.index("tag('setv'"), alts.index("tag('if'"), alts.index("tag('do'"), alts.index("tag('afor'")), "COMP-TAGS", f"{R}|loopers|generic clause last",
              "the generic `TARGET ITERABLE` alternative must come after the keyword clauses, or `:if x` is read as an iteration", R, lp.lineno, detail="for alternative last")
    g = next((n for n in ast.walk(f) if isinstance(n, ast.FunctionDef) and n.name == "f"), None)
    ctx.need(g is not None, "generator-function strategy `f` not found")
    handled = set()
    for n in ast.walk(g):
        if isinstance(n, ast.If) and norm(n.test).startswith("tagname"):
            handled |= set(fold(n.test.comparators[0]) if isinstance(n.test.comparators[0], (ast.Tuple, ast.List)) else [fold(n.test.comparators[0])])
    ctx.check(handled == {"for", "afor", "setv", "if", "do"}, "COMP-TAGS", f"{R}|{FN}.f|tags handled", f"the function strategy handles {sorted(handled)}", R, g.lineno,
              witness="a clause kind raises ValueError('can't happen') -> internal compiler error", detail=str(sorted(handled)))
    nat = next((n for n in f.body[-1].body if isinstance(n, ast.For) and norm(n.iter) == "parts" and norm(n.target) == "(tagname, v)"), None) if isinstance(f.body[-1], ast.With) else None
    ctx.need(nat is not None, "native strategy loop not found")
    nh = set()
    for n in ast.walk(nat):
        if isinstance(n, ast.If) and norm(n.test).startswith("tagname"):
            nh |= set(fold(n.test.comparators[0]) if isinstance(n.test.comparators[0], (ast.Tuple, ast.List)) else [fold(n.test.comparators[0])])
    ctx.check(nh == {"for", "afor", "setv", "if"}, "COMP-TAGS", f"{R}|{FN}|native tags handled", f"the native strategy handles {sorted(nh)}", R, nat.lineno, detail=str(sorted(nh)))
    # --- strategy guard
    guard = next((n for n in f.body[-1].body if isinstance(n, ast.If) and "is_for" in norm(n.test) and "elt" in flat(n.test)), None)
    ctx.need(guard is not None, "strategy condition not found")
    disj = [flat(v) for v in guard.test.values] if isinstance(guard.test, ast.BoolOp) and isinstance(guard.test.op, ast.Or) else []
    want = ["is_for", "elt is not None and elt.stmts", "key is not None and key.stmts", "not PY3_15 and ends_with_unpack",
            "any((p.tag == 'do' or (p.value[1].stmts if p.tag in ('for', 'afor', 'setv') else p.value.stmts) for p in parts))"]
    for w in want:
        ctx.check(w in disj, "COMP-GUARD", f"{R}|{FN}|guard has `{w[:40]}`", f"the strategy condition no longer contains `{w}`: a sub-form that compiles to statements can reach the native strategy, which only reads its expression",
                  R, guard.lineno, witness="(dfor x xs (do (f) k) v) / (lfor x (do (f) xs) x): (f) is never called or its temporary is undefined", detail="present")
    ctx.check(len(disj) == len(want), "COMP-GUARD", f"{R}|{FN}|guard disjuncts", f"strategy condition has disjuncts {disj}", R, guard.lineno, detail="5 disjuncts")
    reads = sorted({norm(n) for n in ast.walk(ast.Module(body=f.body[-1].body[f.body[-1].body.index(guard) + 1:], type_ignores=[])) if isinstance(n, ast.Attribute) and n.attr in ("expr", "force_expr")})
    ctx.check(reads == ["elt.force_expr", "key.force_expr", "v.force_expr", "v[1].force_expr"], "COMP-GUARD", f"{R}|{FN}|native reads", f"the native strategy reads {reads}", R, guard.lineno,
              detail="elt, key, v, v[1] — each covered by a guard disjunct")
    # --- roots
    nc = pyq.contains(f, lambda n: isinstance(n, ast.Assign) and norm(n.targets[0]) == "node_class")
    table = {k: str(v) for k, v in fold(nc.value.value).items()} if nc is not None and isinstance(nc.value, ast.Subscript) else {}
    ctx.check(table == {"for": "asty.For", "lfor": "asty.ListComp", "dfor": "asty.DictComp", "sfor": "asty.SetComp", "gfor": "asty.GeneratorExp"}, "COMP-ROOT", f"{R}|{FN}|node table", f"node table is {table}", R, f.lineno, detail=str(table))
    t = {norm(n.targets[0]): norm(n.value) for n in f.body if isinstance(n, ast.Assign)}
    B = pm.Binder()
    ctx.check(B.find(f, "is_for = root == 'for'") is not None and B.find(f, "ctx = nullcontext() if is_for else compiler.scope.create(ScopeGen)") is not None
              and B.find(f, "mac_con = nullcontext() if is_for else compiler.local_state()") is not None,
              "COMP-ROOT", f"{R}|{FN}|scopes", "only `for` may run without a ScopeGen and a local macro state", R, f.lineno, witness="(lfor x xs (setv y x)) leaks x / a defmacro inside lfor becomes module-wide", detail="ScopeGen + local_state unless for")
    w = f.body[-1]
    ctx.check(isinstance(w, ast.With) and [norm(i.context_expr) for i in w.items] == ["mac_con", "ctx"] and norm(w.items[1].optional_vars) == "scope", "COMP-ROOT", f"{R}|{FN}|with", "the whole compilation must run inside `with mac_con, ctx as scope`", R, f.lineno, detail="with mac_con, ctx as scope")
    tmpl = pyq.contains(f, lambda n: isinstance(n, ast.IfExp) and isinstance(n.body, ast.JoinedStr) and norm(n.test) == "node_class is asty.GeneratorExp")
    ctx.check(tmpl is not None and norm(tmpl.body) == "f'{fname}()'", "COMP-ROOT", f"{R}|{FN}|gfor lazy", "gfor must return the bare call of the generator function (lazy); the other forms wrap it in a comprehension", R, f.lineno,
              witness="(gfor x (do (print 1) xs) x) prints at creation time / returns a list", detail="f'{fname}()'")
    yl = pyq.contains(g, lambda n: isinstance(n, ast.Call) and dotted(n.func) == "asty.Yield")
    ctx.check(yl is not None and norm(yl) == "asty.Yield(elt, value=val)", "COMP-ROOT", f"{R}|{FN}.f|yield", "the innermost body must yield the element value", R, g.lineno, detail="Yield(val)")
    # --- leaking
    reg = pyq.contains(f, lambda n: isinstance(n, ast.If) and norm(n.test) == "not is_for" and "scope.iterator(tag_value[0])" in [norm(s) for s in n.body])
    ctx.check(reg is not None, "COMP-LEAK", f"{R}|{FN}|iterator registration", "iteration / :setv targets are not registered as iterators of the comprehension scope", R, f.lineno,
              witness="(lfor x xs :do (f) x) leaks x into the enclosing scope", detail="scope.iterator(target) when not for")
    it = comp.sc.func("ScopeGen.iterator")
    ctx.require(it is not None, "ScopeGen.iterator not found")
    # iterator(): every Name inside the target is an iteration variable.  Either the target is traversed completely
    # (ast.walk), or the hand-written traversal handles every node kind a store target can nest: Tuple, List, Starred
    tp = it.args.args[1].arg if len(it.args.args) > 1 else None
    fns = [it] + [comp.sc.func(f"ScopeGen.{c.func.attr}") for c in pyq.calls(it) if isinstance(c.func, ast.Attribute) and dotted(c.func.value) in ("self", "cls") and comp.sc.func(f"ScopeGen.{c.func.attr}") is not None]
    fns += [comp.sc.func(c.func.id) for c in pyq.calls(it) if isinstance(c.func, ast.Name) and comp.sc.func(c.func.id) is not None]
    walked = any(isinstance(c, ast.Call) and dotted(c.func) == "ast.walk" for fn in fns for c in ast.walk(fn))
    kinds = {dotted(x).split(".")[-1] for fn in fns for c in ast.walk(fn) if isinstance(c, ast.Call) and dotted(c.func) == "isinstance" and len(c.args) == 2
             for x in (c.args[1].elts if isinstance(c.args[1], ast.Tuple) else [c.args[1]]) if dotted(x)}
    if walked and "Name" in kinds:
        verdict, why = True, "ast.walk"
    elif kinds & {"Name", "Tuple", "List", "Starred"} or any("elts" in norm(fn) for fn in fns):
        missing = sorted({"Tuple", "List", "Starred"} - kinds)
        recursive = any(isinstance(c, ast.Call) and ((isinstance(c.func, ast.Name) and c.func.id == fn.name) or (isinstance(c.func, ast.Attribute) and c.func.attr == fn.name)) for fn in fns for c in ast.walk(fn))
        verdict = not missing and recursive
        why = f"hand-written traversal; node kinds not handled: {missing}; recursive: {recursive}"
    else:
        verdict, why = None, "traversal not recognised"
    ctx.decide("COMP-LEAK", f"{SC}|ScopeGen.iterator|all names", verdict,
               f"iterator() must collect every Name inside the target (nested and starred destructuring), not only some of them ({why})", SC, it.lineno,
               witness="(lfor #(a #(b #* c)) xs :do (f) a) leaks b and c", detail="ast.walk(target)")
    fz = comp.sc.func("ScopeGen.finalize")
    ctx.require(fz is not None, "ScopeGen.finalize not found")
    rt = [n for n in pyq.walk_no_nested(fz) if isinstance(n, ast.Return)]
    srt = [isinstance(r.value, ast.Call) and dotted(r.value.func) == "sorted" for r in rt if r.value is not None]
    ctx.decide("COMP-LEAK", f"{SC}|ScopeGen.finalize|sorted", None if not srt else all(srt), "leaked names must be returned sorted (they are collected in a set; the order of the emitted nonlocal/global names would vary between runs)",
               SC, fz.lineno, witness="the compiled output of a comprehension with two setx targets differs between processes", detail="sorted(...)")
    ex = pyq.contains(f, lambda n: isinstance(n, ast.If) and norm(n.test) == "scope.exposing_assignments and assignment_names")
    ut = pm.find(f, "unlocal_type = asty.Nonlocal if is_inside_function_scope(scope.parent) else asty.Global")
    ctx.check(ex is not None and ut is not None, "COMP-LEAK", f"{R}|{FN}|expose",
              "setx/setv targets leak out through nonlocal (inside a function) or global (module level), only when the scope exposes assignments", R, f.lineno, detail="Nonlocal if inside function else Global")
    en = comp.sc.func("ScopeGen.__enter__")
    ctx.require(en is not None, "ScopeGen.__enter__ not found")
    # `self.exposing_assignments = True` is reached exactly when the nearest Python scope is the module or a function
    setexp = [n for n in ast.walk(en) if isinstance(n, ast.Assign) and isinstance(n.targets[0], ast.Attribute) and n.targets[0].attr == "exposing_assignments"
              and isinstance(n.value, ast.Constant) and n.value.value is True]
    v, why = boolfn.decide(setexp, en, boolfn.Atoms(G="isinstance(__, ScopeGlobal)", F="is_function_scope(__)"), lambda e: e["G"] or e["F"], must_depend_on=("G", "F"))
    ctx.decide_tt("COMP-LEAK", f"{SC}|ScopeGen.__enter__|exposing", v, f"assignments are exposed only when the nearest Python scope is the module or a function, not a class ({why})", SC, en.lineno,
               witness="(defclass C [] (lfor x xs (setx y x))) declares y nonlocal/global inside a class body", detail="module or function")
    asg = comp.sc.func("ScopeGen.assign")
    ctx.require(asg is not None, "ScopeGen.assign not found")
    rec = [n for n in ast.walk(asg) if isinstance(n, ast.Call) and isinstance(n.func, ast.Attribute) and n.func.attr == "append" and dotted(n.func.value) == "self.assignments"]
    v, why = boolfn.decide(rec, asg, boolfn.Atoms(D="__.name in self.defined"), lambda e: not e["D"], must_depend_on=("D",))
    ctx.decide_tt("COMP-LEAK", f"{SC}|ScopeGen.assign|record", v, f"an assignment inside a comprehension is recorded for leaking exactly when the name is not already defined in the scope ({why})", SC, asg.lineno,
               witness="(lfor x xs (setx y x)) does not bind y outside", detail="assignments.append unless defined")
    # --- else
    o = pyq.contains(g, lambda n: isinstance(n, ast.Assign) and norm(n) == "orelse = orel and orel.pop().stmts")
    arm = o._parent if o is not None else None
    node = pyq.contains(arm, lambda n: isinstance(n, ast.Call) and isinstance(n.func, ast.Name) and n.func.id == "node" and any(k.arg == "orelse" and norm(k.value) == "orelse" for k in n.keywords)) if arm is not None else None
    ctx.check(o is not None and isinstance(arm, ast.If) and norm(arm.test) == "tagname in ('for', 'afor')" and node is not None, "COMP-ELSE", f"{R}|{FN}.f|else at first loop",
              "the else body must be popped and passed as `orelse=` when the first for/afor loop node is constructed", R, g.lineno,
              witness="(for [:if c x xs] … (else …)) runs else when c is false / never", detail="orelse = orel and orel.pop().stmts; node(orelse=orelse)")
    post = [n for n in ast.walk(f) if isinstance(n, ast.Assign) and isinstance(n.targets[0], ast.Attribute) and n.targets[0].attr in ("orelse", "body", "finalbody")]
    ctx.check(not post, "COMP-ELSE", f"{R}|{FN}|no post-hoc orelse", f"a loop's orelse/body is patched after construction ({[norm(p)[:60] for p in post]}): it can land on a node that is not the outermost loop", R, f.lineno, detail="none")
    ob = pyq.contains(f, lambda n: isinstance(n, ast.If) and norm(n.test) == "else_expr is not None" and "orel.append(compiler._compile_branch(else_expr))" in [norm(s) for s in n.body])
    ctx.check(ob is not None, "COMP-ELSE", f"{R}|{FN}|else compiled once", "the else forms must be compiled once into `orel`", R, f.lineno, detail="orel.append(_compile_branch(else_expr))")
    from . import c11 as _c11
    from .. import core as _core

    ctx.rule("R-LIN", "Result-flow rules shared with C11, for the functions of this property: no value placed on a path that excludes the placement of its statements, no expression replaced while the operand's "
             "temporaries stay exposed, no recursive call that loses a parameter")
    _core.transfer(ctx, src, _c11, {"R-LIN-PATH", "R-EXPR-STORE", "R-REC-FWD"}, key_filter=lambda k: any(f in k for f in ('compile_comprehension',)))
    ctx.floor("COMP-GUARD", 6)


SELFTESTS = [
    dict(name="guard (elt or key).stmts", file=R, old="            or (elt is not None and elt.stmts)\n            or (key is not None and key.stmts)\n", new="            or (elt or key).stmts\n", rule="COMP-GUARD", key="guard has"),
    dict(name="iterator top-level names only", file=SC, old="name.id for name in ast.walk(target) if isinstance(name, ast.Name)", new='name.id for name in getattr(target, "elts", [target]) if isinstance(name, ast.Name)',
         rule="COMP-LEAK", key="ScopeGen.iterator"),
    dict(name="else patched afterwards", file=R, rule="COMP-ELSE", key="else", edits=[
        ("                    orelse = orel and orel.pop().stmts\n", "                    orelse = []\n"),
        ("            if is_for:\n                return f(parts)\n", "            if is_for:\n                ret = f(parts)\n                if orel:\n                    ret.stmts[-1].orelse = orel.pop().stmts\n                return ret\n")]),
    dict(name="gfor eager", file=R, old='                    f"{fname}()"\n                    if node_class is asty.GeneratorExp else', new='                    f"{fname}()"\n                    if False else', rule="COMP-ROOT", key="gfor lazy"),
    dict(name="lfor without ScopeGen", file=R, old="    ctx = nullcontext() if is_for else compiler.scope.create(ScopeGen)", new="    ctx = nullcontext() if is_for or root == 'lfor' else compiler.scope.create(ScopeGen)", rule="COMP-ROOT", key="scopes"),
    dict(name="finalize unsorted", file=SC, old="        return sorted(res)", new="        return list(res)", rule="COMP-LEAK", key="finalize"),
]
