"""C16 — staging forms: eval-when-compile / eval-and-compile / do-mac; every sub-form is compiled (and so evaluated at compile time) once."""
CANON = True

import ast

from .. import boolfn, pm, compq, pyq
from ..pysrc import dotted, norm, flat

R = compq.RM
FN = "compile_eval_foo_compile"


def check(ctx, src):
    ctx.rule("STAGE-EVAL-ONCE", "compile_eval_foo_compile calls compiler.eval exactly once, outside any loop, on `(do …body)`, before every return")
    ctx.rule("STAGE-ROOT", "eval-when-compile contributes an empty Result; eval-and-compile compiles the body once with _compile_branch; do-mac compiles the promoted compile-time value (whatever its truthiness) and not the body")
    ctx.rule("STAGE-ERRORS", "errors while evaluating are wrapped as HyEvalError, except HyInternalError which is re-raised")
    ctx.rule("COMPILE-ONCE", "no compile function compiles the same sub-form twice on one path (a staging form inside it would run twice at compile time): a context manager already compiled by `with` is handed to the nested `with` as a Result")
    comp = compq.Compiler(src)
    f = comp.rm.func(FN)
    ctx.require(f is not None, f"{FN} not found")
    evs = [c for c in pyq.calls(f) if norm(c.func) == "compiler.eval"]
    ctx.check(len(evs) == 1, "STAGE-EVAL-ONCE", f"{R}|{FN}|one eval", f"compiler.eval is called {len(evs)} times", R, f.lineno, witness="the body runs twice (or never) at compile time", detail="1")
    if evs:
        e = evs[0]
        in_loop = any(isinstance(p, (ast.For, ast.While, ast.ListComp, ast.GeneratorExp)) for p in _parents(e, f))
        ctx.check(not in_loop and norm(e.args[0]) == "new_expr + body", "STAGE-EVAL-ONCE", f"{R}|{FN}|eval of (do body)", "the whole body must be evaluated in one call, as one `do`", R, e.lineno, detail="compiler.eval(new_expr + body)")
        rets = [r for r in pyq.walk_no_nested(f) if isinstance(r, ast.Return)]
        ctx.check(all(r.lineno > e.lineno for r in rets) and len(rets) >= 1, "STAGE-EVAL-ONCE", f"{R}|{FN}|eval before return", "a return precedes the evaluation", R, f.lineno, detail="eval dominates all returns")
    ne = pyq.contains(f, lambda n: isinstance(n, ast.Assign) and norm(n) == "new_expr = Expression([Symbol('do').replace(expr[0])]).replace(expr)")
    ctx.check(ne is not None, "STAGE-EVAL-ONCE", f"{R}|{FN}|do wrapper", "the body must be wrapped in `do`", R, f.lineno, detail="(do …)")
    # what each root contributes to the output, decided on the truth table of the root tests
    AT = boolfn.Atoms(M="root == 'do-mac'", E="root == 'eval-and-compile'")
    feas = lambda e: not (e["M"] and e["E"])
    def ret_sites(pred):
        return [r for r in pyq.walk_no_nested(f) if isinstance(r, ast.Return) and r.value is not None and pred(r.value)]
    s_mac = ret_sites(lambda v: isinstance(v, ast.Call) and norm(v.func) == "compiler.compile" and pm.find(v, "as_model(value)") is not None)
    s_eac = ret_sites(lambda v: isinstance(v, ast.Call) and norm(v.func) == "compiler._compile_branch" and len(v.args) == 1 and isinstance(v.args[0], ast.Name) and v.args[0].id == "body")
    s_ewc = ret_sites(lambda v: isinstance(v, ast.Call) and dotted(v.func) == "Result" and not v.args and not v.keywords)
    all_rets = [r for r in pyq.walk_no_nested(f) if isinstance(r, ast.Return)]
    res = [boolfn.equivalent(s_mac, f, AT, lambda e: e["M"], feasible=feas, free_unknown=True), boolfn.equivalent(s_eac, f, AT, lambda e: e["E"], feasible=feas, free_unknown=True),
           boolfn.equivalent(s_ewc, f, AT, lambda e: not e["M"] and not e["E"], feasible=feas, free_unknown=True)]
    verdict = None if any(r[0] is None for r in res) or len(all_rets) != len(s_mac) + len(s_eac) + len(s_ewc) else all(r[0] for r in res)
    if any(r[0] is False for r in res) and s_mac and s_eac:
        verdict = False
    ctx.decide_tt("STAGE-ROOT", f"{R}|{FN}|per-root result", verdict, f"do-mac must compile the promoted compile-time value, eval-and-compile the body (once), eval-when-compile nothing (counterexamples: {[r[1] for r in res if r[1]]})",
               R, f.lineno, witness="(do-mac 0) compiles to None instead of 0 / eval-when-compile emits run-time code / eval-and-compile emits nothing", detail="do-mac: value; eval-and-compile: body; else: empty")
    reg = comp.macro("do-mac")
    ctx.check(reg is not None and sorted(reg["names"]) == ["do-mac", "eval-and-compile", "eval-when-compile"] and norm(reg["pattern"]) == "[many(FORM)]", "STAGE-ROOT", f"{R}|{FN}|registration", "the three staging forms are registered with [many(FORM)]", R, f.lineno, detail="3 names")
    tr = next((n for n in pyq.walk_no_nested(f) if isinstance(n, ast.Try)), None)
    hs = [(norm(h.type), h) for h in tr.handlers] if tr else []
    ok = [n for n, _ in hs] == ["HyInternalError", "Exception"] and isinstance(hs[0][1].body[-1], ast.Raise) and hs[0][1].body[-1].exc is None and "HyEvalError(str(e), compiler.filename, body, compiler.source)" in norm(hs[1][1].body[-1])
    ctx.check(ok, "STAGE-ERRORS", f"{R}|{FN}|handlers", "HyInternalError must be re-raised, everything else wrapped in HyEvalError", R, f.lineno, detail="HyInternalError: raise; Exception: HyEvalError")
    he = comp.cp.func("HyASTCompiler.eval")
    hcall = pyq.contains(he, lambda n: isinstance(n, ast.Call) and dotted(n.func) == "hy_eval") if he is not None else None
    kw = {k.arg: norm(k.value) for k in hcall.keywords} if hcall is not None else {}
    ctx.decide("STAGE-EVAL-ONCE", f"{compq.CP}|HyASTCompiler.eval", None if hcall is None else (kw.get("locals") == "self.module.__dict__" and kw.get("module") == "self.module" and kw.get("import_stdlib") == "False"), "compile-time evaluation must run in the module being compiled", compq.CP, 0, detail="hy_eval in self.module")
    # --- compile once: with
    w = comp.rm.func("compile_with_expression")
    ctx.require(w is not None, "compile_with_expression not found")
    rec = [c for c in pyq.calls(w) if dotted(c.func) == "compile_with_expression"]
    stmt_arm = [c for c in rec if "ctx" in norm(c.args[3])]
    ctx.check(len(stmt_arm) == 1 and norm(stmt_arm[0].args[3]) == "[((is_async, variable, ctx), *args[i + 1:])]", "COMPILE-ONCE", f"{R}|compile_with_expression|compiled manager handed on",
              "when a later manager compiles to statements, the nested `with` must receive the already compiled Result of that manager; re-compiling the raw form evaluates staging forms in it twice", R, w.lineno,
              witness="(with [a (A) b (do (import x) (eval-when-compile (print \"ct\")) (B))] …) prints ct twice while compiling", detail="((is_async, variable, ctx), *args[i + 1:])")
    guard = pyq.contains(w, lambda n: isinstance(n, ast.If) and norm(n.test) == "not isinstance(ctx, Result)" and pyq.contains(n.body, lambda x: isinstance(x, ast.Assign) and norm(x) == "ctx = compiler.compile(ctx)") is not None)
    ctx.check(guard is not None, "COMPILE-ONCE", f"{R}|compile_with_expression|no recompile", "a manager that arrives as a Result must not be compiled again", R, w.lineno, detail="if not isinstance(ctx, Result): compile")
    # generic: a slot parameter compiled by two different compile() calls on one straight-line path
    n_checked = 0
    for r in comp.registry:
        fn = r["func"]
        params = [a.arg for a in fn.args.args][3:]
        for p in params:
            calls = [c for c in pyq.calls(fn) if compq.is_compile_call(c) and c.args and isinstance(c.args[0], ast.Name) and c.args[0].id == p and comp.rm.enclosing_func(c) is fn]
            n_checked += 1
            if len(calls) > 1:
                # allowed when in different branches of an if/else
                same_path = any(_same_path(a, b, fn) for i, a in enumerate(calls) for b in calls[i + 1:])
                ctx.check(not same_path, "COMPILE-ONCE", f"{R}|{r['qual']}|{p} compiled once", f"slot `{p}` is compiled {len(calls)} times on one path", R, calls[0].lineno,
                          witness="a staging form or macro in that slot is expanded/evaluated twice at compile time", detail="once per path")
    ctx.ok("COMPILE-ONCE", f"{R}|all pattern macros|direct compile(slot) calls", f"{n_checked} slot parameters checked for double compile(slot) on one path")
    ctx.assume("effect counts across a real compile / run / cached-run history are not simulated")
    ctx.floor("STAGE-EVAL-ONCE", 5)


def _parents(n, stop):
    n = getattr(n, "_parent", None)
    while n is not None and n is not stop:
        yield n
        n = getattr(n, "_parent", None)


def _same_path(a, b, fn):
    """False if a and b sit in different arms of a common if/else."""
    pa = [a] + list(_parents(a, fn))
    pb = [b] + list(_parents(b, fn))
    for x in pa:
        if isinstance(x, ast.If) and x in pb:
            ia = next(y for y in pa if getattr(y, "_parent", None) is x)
            ib = next(y for y in pb if getattr(y, "_parent", None) is x)
            in_body_a = any(ia is s for s in x.body)
            in_body_b = any(ib is s for s in x.body)
            if in_body_a != in_body_b:
                return False
    return True


SELFTESTS = [
    dict(name="do-mac drops falsy values", file=R, old='        if root == "do-mac"\n        else compiler._compile_branch(body)', new='        if root == "do-mac" and value\n        else compiler._compile_branch(body)', rule="STAGE-ROOT", key="per-root result"),
    dict(name="eval twice", file=R, old="        value = compiler.eval(new_expr + body)\n", new="        compiler.eval(new_expr + body)\n        value = compiler.eval(new_expr + body)\n", rule="STAGE-EVAL-ONCE", key="one eval"),
    dict(name="with recompiles manager", file=R, old="                    [((is_async, variable, ctx), *args[i + 1:])],", new="                    [args[i:]],", rule="COMPILE-ONCE", key="compiled manager handed on"),
    dict(name="internal errors wrapped", file=R, old="    except HyInternalError:\n        # Unexpected \"meta\" compilation errors need to be treated\n        # like normal (unexpected) compilation errors at this level\n        # (or the compilation level preceding this one).\n        raise\n", new="", rule="STAGE-ERRORS", key="handlers"),
]
