"""C37 — reader macros in stream order and per module: laziness of the form stream and isolation of reader state."""
CANON = True

import ast

from .. import compq, pyq, readerq
from ..pysrc import dotted, norm, flat
from ..readerq import HR, RD

RI = "hy/reader/__init__.py"


def check(ctx, src):
    ctx.rule("LAZY", "read_many wraps a generator; HyReader.parse and parse_forms_until are generators; nothing between read_many and _compile_branch forces the stream, and _compile_branch compiles each form inside the loop that pulls it")
    ctx.rule("ISOLATION", "reader_macros and reader_table are per reader instance (fresh dict / copy of DEFAULT_TABLE in __init__); no method writes DEFAULT_TABLE; _current_reader is saved and restored in a finally; "
             "an explicit or tree-carried reader takes priority over the ambient one")
    ctx.rule("DEFREADER", "defreader is refused outside the global scope, defines the macro at compile time and enables it in the current reader; an undefined tag is a LexException; a reader macro returning None yields no form")
    rq = readerq.Reader(src)
    hr, rd = rq.hr, rq.rd
    ri = src.py(RI)
    rm = ri.func("read_many")
    ctx.require(rm is not None, "read_many not found")
    lz = pyq.contains(rm, lambda n: isinstance(n, ast.Call) and dotted(n.func) == "hy.models.Lazy")
    ctx.check(lz is not None and norm(lz.args[0]).startswith("reader.parse("), "LAZY", f"{RI}|read_many|Lazy(parse)", "read_many must hand the parse generator to Lazy unforced", RI, rm.lineno, detail="Lazy(reader.parse(...))")
    forced = [c for c in pyq.calls(rm) if dotted(c.func) in ("list", "tuple", "sorted", "len")]
    ctx.check(not forced, "LAZY", f"{RI}|read_many|not forced", f"read_many forces the stream with {[norm(c) for c in forced]}", RI, rm.lineno, witness="a reader macro defined by the first form is not yet defined when the second form is read", detail="no list()/tuple()")
    for name in ("parse", "parse_forms_until"):
        f = rq.methods[name][1]
        ctx.check(any(isinstance(n, (ast.Yield, ast.YieldFrom)) for n in pyq.walk_no_nested(f)), "LAZY", f"{HR}|{name}|generator", f"{name} is no longer a generator", HR, f.lineno, detail="yield")
    lz_cls = src.py("hy/models.py")
    it = lz_cls.func("Lazy.__iter__")
    ctx.check(it is not None and norm(it.body[0]) == "yield from self._gen", "LAZY", "hy/models.py|Lazy.__iter__", "Lazy must iterate its generator lazily", "hy/models.py", 0, detail="yield from self._gen")
    wr = [norm(n.targets[0].slice) for n in ast.walk(lz_cls.tree) if isinstance(n, ast.Assign) and isinstance(n.targets[0], ast.Subscript) and dotted(n.targets[0].value) == "_wrappers"]
    ctx.check("Lazy" not in wr, "LAZY", "hy/models.py|_wrappers|no Lazy", "as_model has a wrapper for Lazy (it would force the stream)", "hy/models.py", 0, detail="none")
    comp = compq.Compiler(src)
    cb = comp.cp.func("HyASTCompiler._compile_branch")
    loop = next((n for n in pyq.walk_no_nested(cb) if isinstance(n, ast.For)), None)
    ctx.check(loop is not None and norm(loop.iter) == "exprs" and pyq.contains(loop.body, lambda n: isinstance(n, ast.Call) and norm(n) == "self.compile(node)") is not None, "LAZY", f"{compq.CP}|_compile_branch|compile inside loop",
              "_compile_branch must compile each form inside the loop that pulls it from the stream", compq.CP, cb.lineno, detail="for node in exprs: self.compile(node)")
    ctx.check(any(isinstance(d, ast.Call) and dotted(d.func) == "builds_model" and "Lazy" in norm(d) for d in cb.decorator_list), "LAZY", f"{compq.CP}|_compile_branch|builds Lazy", "Lazy is no longer compiled by _compile_branch", compq.CP, cb.lineno, detail="@builds_model(Lazy)")
    hc = comp.cp.func("hy_compile")
    forced = [c for c in pyq.calls(hc) if dotted(c.func) in ("list", "tuple", "sorted", "len") and "tree" in norm(c)]
    ctx.check(not forced, "LAZY", f"{compq.CP}|hy_compile|not forced", "hy_compile forces the form stream", compq.CP, hc.lineno, detail="no list(tree)")
    # --- isolation
    init = hr.func("HyReader.__init__")
    rinit = rd.func("Reader.__init__")
    rmv = [n.value for n in ast.walk(init) if isinstance(n, ast.Assign) and len(n.targets) == 1 and norm(n.targets[0]) == "self.reader_macros"]
    fresh = None
    if rmv:
        v0 = rmv[0]
        if isinstance(v0, (ast.Dict, ast.DictComp)) or (isinstance(v0, ast.Call) and (dotted(v0.func) == "dict" or (isinstance(v0.func, ast.Attribute) and v0.func.attr == "copy"))):
            fresh = True
        elif isinstance(v0, (ast.Name, ast.Attribute)):
            fresh = False
    ctx.decide("ISOLATION", f"{HR}|HyReader.__init__|reader_macros", fresh, f"reader_macros must be a fresh dict per reader (it is bound to `{norm(rmv[0]) if rmv else None}`)", HR, init.lineno,
               witness="a reader macro defined while reading module A is visible when reading module B", detail="{}")
    ctx.check(pyq.contains(rinit, lambda n: isinstance(n, ast.Assign) and norm(n) == "self.reader_table = self.DEFAULT_TABLE.copy()") is not None, "ISOLATION", f"{RD}|Reader.__init__|reader_table", "reader_table must be a copy of DEFAULT_TABLE", RD, rinit.lineno, detail="DEFAULT_TABLE.copy()")
    wr = [n for m in (hr, rd) for n in ast.walk(m.tree) if isinstance(n, (ast.Assign, ast.AugAssign, ast.Delete)) and "DEFAULT_TABLE" in norm(n.targets[0] if isinstance(n, ast.Assign) else n.target if isinstance(n, ast.AugAssign) else n)
          and m.qual_of(n) not in ("ReaderMeta.__new__",)]
    ctx.check(not wr, "ISOLATION", "reader|DEFAULT_TABLE writers", f"DEFAULT_TABLE is written at {[norm(w)[:40] for w in wr]}", RD, 0, detail="only the metaclass")
    acr = hr.func("HyReader.as_current_reader")
    ctx.require(acr is not None, "as_current_reader not found")
    # save / set / yield / restore: the old value of HyReader._current_reader is read into a local before it is overwritten
    # with self, and every yield of the context manager is inside a try whose finally writes that local back
    def _is_cur(e):
        return isinstance(e, ast.Attribute) and e.attr == "_current_reader"
    pairs = list(pyq.assign_pairs(acr))
    saves = [(t, st) for t, v, st in pairs if isinstance(t, ast.Name) and _is_cur(v)]
    sets_ = [st for t, v, st in pairs if _is_cur(t) and isinstance(v, ast.Name) and v.id == "self"]
    yields = [n for n in ast.walk(acr) if isinstance(n, (ast.Yield, ast.YieldFrom))]
    saved = saves[0][0].id if saves else None
    def _restores(tr_):
        return any(_is_cur(t) and isinstance(v, ast.Name) and v.id == saved for st in tr_.finalbody for t, v, _ in pyq.assign_pairs(st))
    protected = [y for y in yields if any(part == "body" and _restores(t_) for t_, part in pyq.enclosing_try_parts(y))]
    _o = pyq.order(acr)
    verdict = None
    if saves and sets_ and yields:
        verdict = len(protected) == len(yields) and _o[id(saves[0][1])] <= _o[id(sets_[0])]
    ctx.decide("ISOLATION", f"{HR}|as_current_reader|restore in finally", verdict, "the previous current reader must be restored in a finally around the yield", HR, acr.lineno,
               witness="after a read of module A fails, A's reader stays current and a defreader evaluated for module B lands in it", detail="save; set; try: yield finally: restore")
    # each form is read with this reader installed as the current one *for that form only*: the dispatch to handler code in
    # try_parse_one_form (or a helper it calls) is lexically inside `with self.as_current_reader()`.  (A `with` around the
    # whole generator in parse() would keep the reader installed while the consumer of the stream runs.)
    tpf = hr.func("HyReader.try_parse_one_form")
    ctx.require(tpf is not None, "try_parse_one_form not found")

    def _is_dispatch(n):
        return isinstance(n, ast.Call) and (dotted(n.func) == "self.read_default" or (isinstance(n.func, ast.Name) and n.args and isinstance(n.args[0], ast.Name) and n.args[0].id == "self"))

    def _under_with(n, f_):
        p_ = getattr(n, "_parent", None)
        while p_ is not None and p_ is not f_:
            if isinstance(p_, ast.With) and any("as_current_reader()" in norm(i.context_expr) for i in p_.items):
                return True
            p_ = getattr(p_, "_parent", None)
        return False

    def _installed(f_, depth=0):
        """True / False / None for: every dispatch reachable from f_ happens under the with."""
        res = []
        for n in ast.walk(f_):
            if _is_dispatch(n):
                res.append(_under_with(n, f_))
            elif depth < 2 and isinstance(n, ast.Call) and isinstance(n.func, ast.Attribute) and isinstance(n.func.value, ast.Name) and n.func.value.id == "self" \
                    and hr.func(f"HyReader.{n.func.attr}") is not None and n.func.attr not in ("read_default", "try_parse_one_form", "parse_one_form", "parse_forms_until"):
                h_ = hr.func(f"HyReader.{n.func.attr}")
                if any(_is_dispatch(x) for x in ast.walk(h_)):
                    res.append(True if _under_with(n, f_) else _installed(h_, depth + 1))
        if not res:
            return None
        return False if False in res else (None if None in res else True)

    ctx.decide("ISOLATION", f"{HR}|try_parse_one_form|installed per form", _installed(tpf), "handler code of a form must run inside `with self.as_current_reader()` entered for that form", HR, tpf.lineno,
               witness="a reader left installed by a suspended read_many generator receives the reader macros of the next module", detail="with self.as_current_reader() around the dispatch")
    cr = hr.func("HyReader.current_reader")
    # priority: every value current_reader can return - in the order they are tried - is the explicit reader, then the
    # ambient one, then a new one
    order_ = []
    if cr is not None:
        for n in ast.walk(cr):
            if isinstance(n, ast.BoolOp) and isinstance(n.op, ast.Or):
                order_ += [str(norm(v)) for v in n.values if str(norm(v)) in ("override", "HyReader._current_reader", "cls._current_reader")]
        pr = None
        if order_[:2] and order_[0] == "override" and order_[1].endswith("_current_reader"):
            pr = True
        elif len(order_) >= 2 and order_[0].endswith("_current_reader") and "override" in order_:
            pr = False
    ctx.decide("ISOLATION", f"{HR}|current_reader|priority", pr if cr is not None else None, f"an explicit reader must take priority over the ambient one (tried in the order {order_})", HR, cr.lineno if cr else 0,
               witness="a module imported while another stream is being compiled registers its reader macros in the importer's reader", detail="override or _current_reader or new")
    ur = hr.func("HyReader.using_reader")
    ctx.check(ur is not None and "reader = cls.current_reader(override, create)" in [norm(s) for s in ur.body] and "with reader.as_current_reader() if reader else nullcontext(): yield" in [norm(s) for s in ur.body], "ISOLATION", f"{HR}|using_reader", "using_reader must install the chosen reader for the duration of the block", HR, 0, detail="with reader.as_current_reader()")
    w = pyq.contains(hc, lambda n: isinstance(n, ast.With) and "HyReader.using_reader(reader, create=False)" in norm(n.items[0].context_expr))
    rdr = pyq.contains(hc, lambda n: isinstance(n, ast.Assign) and norm(n) == "reader = getattr(tree, 'reader', None)")
    ctx.check(w is not None and rdr is not None, "ISOLATION", f"{compq.CP}|hy_compile|tree reader", "hy_compile must compile under the reader that produced the tree", compq.CP, hc.lineno, detail="using_reader(tree.reader)")
    imp = src.py("hy/importer.py")
    fresh = [c for c in pyq.calls(imp.tree) if dotted(c.func) == "read_many" and not any(k.arg == "reader" and norm(k.value) == "HyReader()" for k in c.keywords)]
    ctx.check(not fresh, "ISOLATION", "hy/importer.py|fresh reader per module", "the importer reads a module without a fresh HyReader()", "hy/importer.py", 0, detail="reader=HyReader()")
    # --- defreader
    mh = src.hy("hy/core/macros.hy")
    dr = mh.defn("defreader")
    ctx.require(dr is not None, "defreader not found")
    t = dr.src()
    ctx.check("(when (not (isinstance _hy_compiler.scope hy.scoping.ScopeGlobal))" in t and "Cannot define reader macro outside of global scope." in t, "DEFREADER", "hy/core/macros.hy|defreader|global only", "defreader must be refused outside the global scope", "hy/core/macros.hy", dr.line, detail="ScopeGlobal only")
    ctx.check("(eval-and-compile (hy.macros.reader-macro" in t and "(eval-when-compile (setv (get (. (hy.reader.HyReader.current-reader) reader-macros)" in t, "DEFREADER", "hy/core/macros.hy|defreader|define and enable", "defreader must define the macro (compile time and run time) and enable it in the current reader at compile time",
              "hy/core/macros.hy", dr.line, witness="a reader macro is not usable in the next top-level form", detail="eval-and-compile + eval-when-compile")
    td = rq.handlers["#"][2]
    tt = flat(td)
    undef = pyq.contains(td, lambda n: isinstance(n, ast.Raise) and isinstance(n.exc, ast.Call) and dotted(n.exc.func) == "LexException.from_reader" and any(g == "ident not in self.reader_macros" for g in pyq.guard_texts(n, td)))
    ctx.check(undef is not None, "DEFREADER", f"{HR}|tag_dispatch|undefined", "an undefined reader macro must raise LexException", HR, td.lineno, detail="LexException")
    ctx.floor("LAZY", 8)
    ctx.floor("ISOLATION", 8)


SELFTESTS = [
    dict(name="restore without finally", file=HR, old="        HyReader._current_reader = self\n        try:\n            yield\n        finally:\n            HyReader._current_reader = old_reader", new="        HyReader._current_reader = self\n        yield\n        HyReader._current_reader = old_reader", rule="ISOLATION", key="as_current_reader"),
    dict(name="ambient reader first", file=HR, old="return override or HyReader._current_reader or (cls() if create else None)", new="return HyReader._current_reader or override or (cls() if create else None)", rule="ISOLATION", key="current_reader"),
    dict(name="read_many forced", file=RI, old="    m = hy.models.Lazy(reader.parse(\n        stream, filename, skip_shebang))", new="    m = hy.models.Lazy(iter(list(reader.parse(\n        stream, filename, skip_shebang))))", rule="LAZY", key="read_many"),
    dict(name="shared reader_macros", file=HR, old="        self.reader_macros = {}\n", new="        self.reader_macros = HyReader._shared_macros\n", rule="ISOLATION", key="reader_macros"),
]
