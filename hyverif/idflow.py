"""E5: identifier provenance for identifier-typed AST fields written by the compiler.

prov(expr) is a set of tags:
  MANGLED        went through mangle()/module_name_str()
  RESERVED       get_anon_var()/local_macro_name() (fresh, counter-based; possibly mangled)
  RESERVED_LIT   a "_hy_..." literal or f-string / concatenation starting with one (reserved prefix but not fresh)
  COPY           identifier copied from an existing AST node (.id/.name/.attr/.arg/.names)
  NONE           the constant None
  LIT:<s>        a string literal
  RAW:<why>      text taken from a user model without mangling
  UNK:<why>      the analysis cannot tell (never a violation)
"""
from __future__ import annotations

import ast

from .pysrc import FUNC, dotted, norm

ID_FIELDS = {
    "Name": ["id"], "Attribute": ["attr"], "arg": ["arg"], "keyword": ["arg"], "alias": ["name", "asname"],
    "FunctionDef": ["name"], "AsyncFunctionDef": ["name"], "ClassDef": ["name"], "ImportFrom": ["module"],
    "Global": ["names"], "Nonlocal": ["names"], "ExceptHandler": ["name"], "MatchAs": ["name"], "MatchStar": ["name"],
    "MatchMapping": ["rest"], "MatchClass": ["kwd_attrs"], "TypeVar": ["name"], "ParamSpec": ["name"], "TypeVarTuple": ["name"],
}
MANGLERS = {"mangle", "module_name_str", "hy.mangle"}
RESERVERS = {"get_anon_var", "local_macro_name"}
PASS_THROUGH = {"_nonconst"}
NODE_ID_ATTRS = {"id", "attr", "arg", "names", "asname", "module"}


class Fn:
    """Per-function facts: assignments by variable (including closures' enclosing function)."""

    def __init__(self, mod, node, world):
        self.mod = mod
        self.node = node
        self.world = world
        self.params = [a.arg for a in node.args.posonlyargs + node.args.args + node.args.kwonlyargs]
        self.defs = {}
        self._collect(node)
        self.outer = None
        p = mod.enclosing_func(node)
        if p is not None:
            self.outer = world.fn(mod, p)

    def _add(self, name, how):
        self.defs.setdefault(name, []).append(how)

    def _bind(self, target, value_how):
        if isinstance(target, ast.Name):
            self._add(target.id, value_how)
        elif isinstance(target, (ast.Tuple, ast.List)):
            for i, t in enumerate(target.elts):
                if isinstance(t, ast.Starred):
                    self._bind(t.value, ("rest", value_how, i))
                else:
                    self._bind(t, ("elem", value_how, i))

    def _collect(self, f):
        for n in ast.walk(f):
            if n is not f and isinstance(n, FUNC) and self.mod.enclosing_func(n) is not f:
                pass
            if isinstance(n, ast.Assign):
                for t in n.targets:
                    self._bind(t, ("val", n.value))
            elif isinstance(n, ast.AnnAssign) and n.value is not None:
                self._bind(n.target, ("val", n.value))
            elif isinstance(n, ast.AugAssign):
                self._bind(n.target, ("val", n.value))
            elif isinstance(n, ast.NamedExpr):
                self._bind(n.target, ("val", n.value))
            elif isinstance(n, (ast.For, ast.AsyncFor)):
                self._bind(n.target, ("iter", n.iter))
            elif isinstance(n, ast.comprehension):
                self._bind(n.target, ("iter", n.iter))
            elif isinstance(n, ast.withitem) and n.optional_vars is not None:
                self._bind(n.optional_vars, ("with", n.context_expr))

    def reach(self):
        top = self.node
        while True:
            p = self.mod.enclosing_func(top)
            if p is None:
                break
            top = p
        return self.world.reach_of(top)

    def lookup_node(self, name_node):
        """Reaching definitions of this particular load (flow-sensitive), else all definitions."""
        r = self.reach().at.get(id(name_node), "missing")
        if r != "missing" and r is not None:
            return self, r
        return self.lookup(name_node.id)

    def lookup(self, name):
        if name in self.defs:
            return self, self.defs[name]
        if name in self.params:
            return self, [("param", name)]
        if self.outer is not None:
            return self.outer.lookup(name)
        return self, None


class World:
    def __init__(self, mods, macro_funcs):
        self.mods = mods  # list of Module
        self.macro_funcs = macro_funcs  # set of function nodes registered as pattern macros / model compilers
        self._fn = {}
        self._sites = None
        self._reach = {}
        self.by_name = {}
        for m in mods:
            for q, f in m.funcs.items():
                self.by_name.setdefault(f.name, []).append((m, f))

    def fn(self, mod, node):
        k = id(node)
        if k not in self._fn:
            self._fn[k] = None
            self._fn[k] = Fn(mod, node, self)
        return self._fn[k]

    def reach_of(self, top):
        from .pyflow import Reach

        k = id(top)
        if k not in self._reach:
            self._reach[k] = Reach(top)
        return self._reach[k]

    def call_sites(self, fname):
        if self._sites is None:
            self._sites = {}
            for m in self.mods:
                for n in ast.walk(m.tree):
                    if isinstance(n, ast.Call):
                        d = dotted(n.func)
                        if d:
                            f = m.enclosing_func(n)
                            if f is not None:
                                self._sites.setdefault(d.split(".")[-1], []).append((m, f, n))
        return self._sites.get(fname, [])


def _arg_for_param(call, fnode, pname):
    params = [a.arg for a in fnode.args.posonlyargs + fnode.args.args]
    is_method = params and params[0] in ("self", "cls")
    if is_method and isinstance(call.func, ast.Attribute):
        params = params[1:]
    for k in call.keywords:
        if k.arg == pname:
            return k.value
    if pname in params:
        i = params.index(pname)
        if i < len(call.args) and not any(isinstance(a, ast.Starred) for a in call.args[: i + 1]):
            return call.args[i]
    return None


class Prov:
    def __init__(self, world):
        self.w = world
        self._stack = set()

    # ---- kind: is this expression a user model, an AST node, or a string? -------
    def kind(self, e, fn, depth=0):
        if depth > 16:
            return "unknown"
        if isinstance(e, ast.Constant):
            return "str" if isinstance(e.value, str) else "const"
        if isinstance(e, (ast.List, ast.Tuple)):
            ks = {self.kind(v, fn, depth + 1) for v in e.elts}
            ks.discard("const")
            return "const" if not ks else ks.pop() if len(ks) == 1 else "unknown"
        if isinstance(e, ast.Call):
            d = dotted(e.func) or ""
            last = d.split(".")[-1]
            if d.startswith("asty.") or d.startswith("ast."):
                return "node"
            if last in ("zip", "list", "tuple", "reversed", "enumerate", "iter", "next", "sorted", "chain", "islice", "dropwhile", "filter") and e.args:
                return self.kind(e.args[0], fn, depth + 1)
            if last in ("Symbol", "Keyword", "String", "Expression", "List", "mkexpr", "dotted", "as_model", "Integer", "Dict", "Tuple"):
                return "model"
            if last in ("mangle", "str", "get_anon_var", "local_macro_name", "module_name_str", "join", "format", "replace"):
                return "str"
            if last == "replace" and isinstance(e.func, ast.Attribute):
                return self.kind(e.func.value, fn, depth + 1)
            if last in ("_storeize", "force_expr"):
                return "node"
            if last == "add" and isinstance(e.func, ast.Attribute) and "scope" in norm(e.func.value):
                return "str" if len(e.args) == 2 else "model"
            return self._kind_of_return(last, None, depth)
        if isinstance(e, ast.Attribute):
            if e.attr in ("expr", "force_expr"):
                return "node"
            if e.attr in ("value", "tag") :
                return self.kind(e.value, fn, depth + 1)
            if e.attr in ("id", "name", "attr", "arg"):
                return "str"
            return "unknown"
        if isinstance(e, ast.Subscript):
            return self.kind(e.value, fn, depth + 1)
        if isinstance(e, ast.IfExp):
            a, b = self.kind(e.body, fn, depth + 1), self.kind(e.orelse, fn, depth + 1)
            if "const" in (a, b):
                return b if a == "const" else a
            return a if a == b else ("model" if "model" in (a, b) and "node" not in (a, b) else "unknown")
        if isinstance(e, ast.BoolOp):
            ks = {self.kind(v, fn, depth + 1) for v in e.values}
            ks.discard("const")
            return ks.pop() if len(ks) == 1 else "unknown"
        if isinstance(e, ast.Starred):
            return self.kind(e.value, fn, depth + 1)
        if isinstance(e, (ast.ListComp, ast.GeneratorExp, ast.SetComp)):
            return self.kind(e.elt, fn, depth + 1)
        if isinstance(e, ast.Name):
            owner, defs = fn.lookup_node(e)
            if defs is None:
                return "unknown"
            ks = set()
            for how in defs:
                ks.add(self._kind_how(how, owner, depth + 1))
            ks.discard("const")
            if len(ks) == 1:
                return ks.pop()
            if ks == {"model", "str"} or ks == {"model", "unknown"}:
                return "model"
            return "unknown"
        return "unknown"

    def _kind_of_return(self, fname, index, depth):
        cands = self.w.by_name.get(fname, [])
        if len(cands) != 1:
            return "unknown"
        m, f = cands[0]
        key = (id(f), "kindret", index)
        if key in self._stack:
            return "unknown"
        self._stack.add(key)
        try:
            cfn = self.w.fn(m, f)
            ks = set()
            for r in ast.walk(f):
                if isinstance(r, ast.Return) and r.value is not None and m.enclosing_func(r) is f:
                    v = r.value
                    if index is not None:
                        if isinstance(v, ast.Tuple) and index < len(v.elts):
                            v = v.elts[index]
                        else:
                            ks.add("unknown")
                            continue
                    ks.add(self.kind(v, cfn, depth + 1))
            ks.discard("const")
            if "model" in ks and not (ks & {"node"}):
                return "model"
            return ks.pop() if len(ks) == 1 else "unknown"
        finally:
            self._stack.discard(key)

    def _kind_how(self, how, fn, depth):
        if depth > 16:
            return "unknown"
        tag = how[0]
        if tag == "val":
            return self.kind(how[1], fn, depth)
        if tag == "param":
            name = how[1]
            if fn.node in self.w.macro_funcs:
                idx = fn.params.index(name)
                if idx >= 3 or (fn.params and fn.params[0] == "self" and idx >= 1):
                    return "model"
                if name in ("expr",):
                    return "model"
                return "unknown"
            ks = set()
            for m, f, call in self.w.call_sites(fn.node.name):
                a = _arg_for_param(call, fn.node, name)
                if a is None and len(call.args) == 1 and isinstance(call.args[0], ast.Starred):
                    a = call.args[0].value  # f(*entry): container kind stands for element kind
                if a is not None:
                    ks.add(self.kind(a, self.w.fn(m, f), depth + 1))
            ks.discard("const")
            if "model" in ks and not (ks & {"node", "str"}):
                return "model"
            return ks.pop() if len(ks) == 1 else "unknown"
        if tag in ("iter", "with"):
            return self.kind(how[1], fn, depth)
        if tag in ("elem", "rest"):
            inner = how[1]
            if tag == "elem" and inner[0] == "val" and isinstance(inner[1], ast.Call):
                d = dotted(inner[1].func) or ""
                if len(self.w.by_name.get(d.split(".")[-1], [])) == 1:
                    return self._kind_of_return(d.split(".")[-1], how[2], depth + 1)
            if tag == "elem" and inner[0] == "val" and isinstance(inner[1], (ast.Tuple, ast.List)) and how[2] < len(inner[1].elts):
                return self.kind(inner[1].elts[how[2]], fn, depth + 1)
            return self._kind_how(inner, fn, depth)
        if tag == "aug":
            return self.kind(how[1], fn, depth)
        return "unknown"

    # ---- provenance ---------------------------------------------------------
    def prov(self, e, fn, depth=0):
        if depth > 16:
            return {"UNK:depth"}
        if isinstance(e, ast.Constant):
            if e.value is None:
                return {"NONE"}
            if isinstance(e.value, str):
                return {"RESERVED_LIT"} if e.value.startswith("_hy_") else {"LIT:" + e.value}
            return {"UNK:const"}
        if isinstance(e, ast.JoinedStr):
            import re as _re

            first = e.values[0] if e.values else None
            if isinstance(first, ast.Constant) and isinstance(first.value, str) and first.value.startswith("_hy_"):
                return {"RESERVED_LIT"}
            out = set()
            for v in e.values:
                if isinstance(v, ast.Constant):
                    if _re.search(r"[A-Za-z0-9_]", str(v.value)):
                        return {"UNK:fstring"}
                else:
                    out |= self.prov(v.value, fn, depth + 1)
            return out or {"UNK:fstring"}
        if isinstance(e, ast.Call):
            d = dotted(e.func) or ""
            last = d.split(".")[-1]
            if last in MANGLERS:
                inner = self.prov(e.args[0], fn, depth + 1) if e.args else set()
                if inner and all(t in ("RESERVED", "RESERVED_LIT") or t.startswith("LIT:") for t in inner):
                    return set(inner)  # mangling a compiler-chosen name keeps it compiler-chosen
                return {"MANGLED"}
            if last in RESERVERS:
                return {"RESERVED"}
            if last in PASS_THROUGH and e.args:
                return self.prov(e.args[0], fn, depth + 1)
            if last == "str" and len(e.args) == 1:
                k = self.kind(e.args[0], fn)
                if k == "model":
                    return {"RAW:str() of a model"}
                return self.prov(e.args[0], fn, depth + 1)
            if last in ("list", "sorted", "tuple") and len(e.args) == 1:
                return self.prov(e.args[0], fn, depth + 1)
            if last == "finalize":
                return {"COPY"}
            if last == "add" and len(e.args) == 2 and isinstance(e.func, ast.Attribute) and "scope" in norm(e.func.value):
                return self.prov(e.args[1], fn, depth + 1)  # ScopeLet.add(name, new_name) returns new_name
            # repo function: look at its return value
            cands = self.w.by_name.get(last, [])
            if len(cands) == 1:
                m, f = cands[0]
                key = (id(f), "ret")
                if key in self._stack:
                    return {"UNK:recursion"}
                self._stack.add(key)
                try:
                    out = set()
                    cfn = self.w.fn(m, f)
                    for r in ast.walk(f):
                        if isinstance(r, ast.Return) and r.value is not None and m.enclosing_func(r) is f:
                            out |= self.prov(r.value, cfn, depth + 1)
                    return out or {"UNK:no return"}
                finally:
                    self._stack.discard(key)
            return {"UNK:call " + d}
        if isinstance(e, ast.Attribute):
            if e.attr in NODE_ID_ATTRS:
                k = self.kind(e.value, fn)
                if k == "model":
                    return {f"RAW:.{e.attr} of a model"}
                return {"COPY"}
            if e.attr == "name":
                k = self.kind(e.value, fn)
                if k == "model":
                    return {"RAW:.name of a model (Keyword.name is not mangled)"}
                if k == "node":
                    return {"COPY"}
                return {"UNK:.name of unknown"}
            if e.attr in ("nonlocal_vars", "defined", "iterators"):
                return {"COPY"}
            return {"UNK:attr " + e.attr}
        if isinstance(e, ast.IfExp):
            return self.prov(e.body, fn, depth + 1) | self.prov(e.orelse, fn, depth + 1)
        if isinstance(e, ast.BoolOp):
            out = set()
            for v in e.values:
                out |= self.prov(v, fn, depth + 1)
            return out
        if isinstance(e, (ast.ListComp, ast.GeneratorExp)):
            return self.prov(e.elt, fn, depth + 1)
        if isinstance(e, (ast.List, ast.Tuple)):
            out = set()
            for v in e.elts:
                out |= self.prov(v.value if isinstance(v, ast.Starred) else v, fn, depth + 1)
            return out or {"NONE"}
        if isinstance(e, ast.Subscript):
            k = self.kind(e.value, fn)
            if k == "model":
                return {"RAW:element of a model used as text"}
            if isinstance(e.value, ast.Attribute) and e.value.attr == "bindings":
                return {"RESERVED"}
            if k == "str":
                return self.prov(e.value, fn, depth + 1)  # a slice of a string keeps its provenance
            return {"UNK:subscript"}
        if isinstance(e, ast.Name):
            owner, defs = fn.lookup_node(e)
            if defs is None:
                return {"UNK:free name " + e.id}
            key = (id(owner.node), e.id, id(e))
            if key in self._stack:
                return set()
            self._stack.add(key)
            try:
                out = set()
                for how in defs:
                    out |= self._prov_how(how, owner, depth + 1, e.id)
                return out
            finally:
                self._stack.discard(key)
        if isinstance(e, ast.BinOp) and isinstance(e.op, ast.Add):
            l = self.prov(e.left, fn, depth + 1)
            if l and l <= {"RESERVED", "RESERVED_LIT"}:
                return {"RESERVED_LIT"}
            return {"UNK:concat"}
        return {"UNK:" + type(e).__name__}

    def _prov_how(self, how, fn, depth, name):
        tag = how[0]
        if tag == "val":
            v = how[1]
            # X = X-preserving self-update such as `name = name and "_" + name` is ignored
            k = self.kind(v, fn)
            if k == "model":
                return {"RAW:a model used as text"}
            return self.prov(v, fn, depth)
        if tag == "param":
            pname = how[1]
            if fn.node in self.w.macro_funcs:
                return {"RAW:pattern-macro parameter used as text"}
            out = set()
            sites = self.w.call_sites(fn.node.name)
            for m, f, call in sites:
                a = _arg_for_param(call, fn.node, pname)
                if a is None:
                    continue
                cf = self.w.fn(m, f)
                if self.kind(a, cf) == "model":
                    out.add("RAW:a model passed as text")
                else:
                    out |= self.prov(a, cf, depth + 1)
            if not out:
                # default value?
                return {"UNK:param " + pname}
            return out
        if tag == "iter":
            it = how[1]
            if self.kind(it, fn) == "model":
                return {"RAW:element of a model used as text"}
            return self.prov(it, fn, depth)
        if tag == "elem":
            inner, i = how[1], how[2]
            if inner[0] == "val" and isinstance(inner[1], ast.Call):
                d = dotted(inner[1].func) or ""
                cands = self.w.by_name.get(d.split(".")[-1], [])
                if len(cands) == 1:
                    m, f = cands[0]
                    cfn = self.w.fn(m, f)
                    out = set()
                    for r in ast.walk(f):
                        if isinstance(r, ast.Return) and isinstance(r.value, ast.Tuple) and m.enclosing_func(r) is f and i < len(r.value.elts):
                            out |= self.prov(r.value.elts[i], cfn, depth + 1)
                    if out:
                        return out
            if inner[0] == "val" and isinstance(inner[1], (ast.Tuple, ast.List)) and i < len(inner[1].elts):
                return self.prov(inner[1].elts[i], fn, depth)
            if inner[0] in ("val", "iter") and self.kind(inner[1], fn) == "model":
                return {"RAW:component of a model used as text"}
            if inner[0] == "elem":
                sub = self._prov_how(inner, fn, depth + 1, name)
                return sub
            if inner[0] == "iter":
                # e.g. for k, v in assignments  -> look at how the iterable was built
                return self.prov(inner[1], fn, depth)
            return {"UNK:unpack"}
        if tag == "with":
            return {"UNK:with"}
        if tag == "aug":
            out = self.prov(how[1], fn, depth)
            for h in how[2]:
                out |= self._prov_how(h, fn, depth + 1, name)
            return out
        return {"UNK:" + tag}


def sinks(mod):
    """Yield (call, cls_names, field, value_expr) for identifier-typed fields at node constructions in a module."""
    for n in ast.walk(mod.tree):
        if not isinstance(n, ast.Call):
            continue
        d = dotted(n.func)
        classes = None
        if d and (d.startswith("asty.") or d.startswith("ast.")) and d.count(".") == 1:
            classes = [d.split(".")[1]]
        elif isinstance(n.func, ast.Name):
            classes = _classes_of_var(mod, n)
        elif isinstance(n.func, ast.IfExp):
            cs = [dotted(n.func.body), dotted(n.func.orelse)]
            if all(c and (c.startswith("asty.") or c.startswith("ast.")) for c in cs):
                classes = [c.split(".")[1] for c in cs]
        if not classes:
            continue
        for kw in n.keywords:
            if kw.arg is None:
                continue
            if any(kw.arg in ID_FIELDS.get(c, ()) for c in classes):
                yield n, classes, kw.arg, kw.value
        # ast.alias("hy", None) positional
        if d == "ast.alias" and n.args:
            yield n, classes, "name", n.args[0]
    # OuterVar(expr, scope, names)
    for n in ast.walk(mod.tree):
        if isinstance(n, ast.Call) and dotted(n.func) == "OuterVar" and len(n.args) == 3:
            yield n, ["OuterVar"], "names", n.args[2]


def _class_alternatives(v):
    """asty.A | (asty.A if c else asty.B) | {k: asty.A, ...}[x] | lambda wrapping asty.A(...) -> class names, else None."""
    d = dotted(v) if isinstance(v, ast.Attribute) else None
    if d and d.startswith("asty.") and d.count(".") == 1 and d.split(".")[1][:1].isupper():
        return [d.split(".")[1]]
    if isinstance(v, ast.IfExp):
        a, b = _class_alternatives(v.body), _class_alternatives(v.orelse)
        return None if a is None or b is None else a + b
    if isinstance(v, ast.Subscript) and isinstance(v.value, ast.Dict):
        out = []
        for x in v.value.values:
            a = _class_alternatives(x)
            if a is None:
                return None
            out += a
        return out
    if isinstance(v, ast.Lambda) and isinstance(v.body, ast.Call):
        return _class_alternatives(v.body.func)
    return None


def _classes_of_var(mod, call):
    """A call through a local variable holding asty classes: node = asty.A if c else asty.B; node(...)."""
    f = mod.enclosing_func(call)
    if f is None:
        return None
    name = call.func.id
    out = []
    for n in ast.walk(f):
        if isinstance(n, ast.Assign) and any(isinstance(t, ast.Name) and t.id == name for t in n.targets):
            cs = _class_alternatives(n.value)
            if cs is None:
                return None  # the variable also holds something that is not a node class
            out.extend(cs)
    if out:
        return sorted(set(out))
    # parameter `node` of compile_function_node: resolved through its callers
    params = [a.arg for a in f.args.args]
    if name in params:
        res = []
        for m2f in [mod]:
            for c in ast.walk(m2f.tree):
                if isinstance(c, ast.Call) and dotted(c.func) == f.name:
                    a = _arg_for_param(c, f, name)
                    if isinstance(a, ast.Name):
                        cf = mod.enclosing_func(c)
                        for n in ast.walk(cf):
                            if isinstance(n, ast.Assign) and any(isinstance(t, ast.Name) and t.id == a.id for t in n.targets):
                                for x in ast.walk(n.value):
                                    d = dotted(x) if isinstance(x, ast.Attribute) else None
                                    if d and d.startswith("asty.") and d.split(".")[1][:1].isupper():
                                        res.append(d.split(".")[1])
        return sorted(set(res)) or None
    return None
