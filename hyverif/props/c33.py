"""C33 — unmangle inverts mangle (grammar agreement only): alphabets, replacement pairs, delimiter, regex call shape."""
CANON = True

import ast
import re

from .. import pm, pyq
from ..pysrc import dotted, fold, norm, flat

REL = "hy/reader/mangling.py"


def regex_facts(pattern):
    """Parse `X(U)?([class]+?)X` with re's parser: -> (literal prefix chars, class chars set, has optional U group)"""
    import re._parser as sp

    t = sp.parse(pattern)
    lits, classes, u_group = [], [], False
    for op, av in t:
        if op == sp.LITERAL:
            lits.append(chr(av))
        elif op == sp.MAX_REPEAT and av[2][0][0] == sp.SUBPATTERN:
            inner = av[2][0][1][3]
            if len(inner) == 1 and inner[0] == (sp.LITERAL, ord("U")):
                u_group = True
        elif op == sp.SUBPATTERN:
            inner = av[3]
            for op2, av2 in inner:
                if op2 in (sp.MIN_REPEAT, sp.MAX_REPEAT) and av2[2][0][0] == sp.IN:
                    cs = set()
                    for o3, a3 in av2[2][0][1]:
                        if o3 == sp.LITERAL:
                            cs.add(chr(a3))
                        elif o3 == sp.RANGE:
                            cs |= {chr(c) for c in range(a3[0], a3[1] + 1)}
                    classes.append(cs)
    return lits, classes, u_group


def check(ctx, src):
    ctx.rule("MANGLE-ALPHABET", "everything mangle can emit between two delimiters (lower-cased Unicode names with ' '->'_' and '-'->'H'; or 'U' + lower-case hex) is matched by unmangle's regular expression (parsed, not run)")
    ctx.rule("MANGLE-INVERSE", "the replacement pairs are mutual inverses (lower/upper, ' '<->'_', '-'<->'H'), hex is decoded with base 16, both sides use MANGLE_DELIM and the `hyx_` prefix")
    ctx.rule("MANGLE-CALL", "re.sub is called with pattern, replacement and string only (a fourth positional argument is `count`), so every escape is decoded")
    m = src.py(REL)
    mg, um = m.func("mangle"), m.func("unmangle")
    ctx.require(mg is not None and um is not None, "mangle / unmangle not found")
    delim = m.toplevel_assign("MANGLE_DELIM")
    ctx.require(isinstance(delim, ast.Constant), "MANGLE_DELIM not found")
    D = delim.value
    sub = next((c for c in pyq.calls(um) if dotted(c.func) == "re.sub"), None)
    ctx.need(sub is not None, "unmangle: re.sub not found")
    ctx.check(len(sub.args) == 3 and not sub.keywords, "MANGLE-CALL", f"{REL}|unmangle|re.sub arity", f"re.sub is called with {len(sub.args)} positional arguments and {[k.arg for k in sub.keywords]}: a fourth positional argument is `count`",
              REL, sub.lineno, witness='a name with more escapes than that number is only partly decoded: (hy.mangle (hy.unmangle (hy.mangle (* "+" 17)))) differs from the first mangling', detail="3 arguments")
    pat = sub.args[0]
    ctx.need(isinstance(pat, ast.Call) and isinstance(pat.func, ast.Attribute) and pat.func.attr == "format" and isinstance(pat.func.value, ast.Constant) and norm(pat.args[0]) == "MANGLE_DELIM", "unmangle: pattern is not '<…>'.format(MANGLE_DELIM)")
    regex = pat.func.value.value.format(D)
    lits, classes, u_group = regex_facts(regex)
    name_alphabet = set("abcdefghijklmnopqrstuvwxyz0123456789_H")  # unicodedata names are [A-Z0-9 -]: lower(), ' '->'_', '-'->'H'
    hex_alphabet = set("0123456789abcdef")
    ok = lits[:1] == [D] and lits[-1:] == [D] and len(classes) >= 1
    covers_names = any(name_alphabet <= c for c in classes)
    covers_hex = u_group and any(hex_alphabet <= c for c in classes)
    ctx.check(ok and covers_names, "MANGLE-ALPHABET", f"{REL}|unmangle|name alphabet", f"the escape regex {regex!r} does not accept every character of a mangled Unicode name (letters, digits, '_', 'H')", REL, sub.lineno,
              witness="a character whose Unicode name contains a digit (BRAILLE PATTERN DOTS-1) is not decoded by unmangle, and re-mangling differs", detail=regex)
    ctx.check(ok and covers_hex, "MANGLE-ALPHABET", f"{REL}|unmangle|hex alphabet", f"the escape regex {regex!r} does not accept 'U' + lower-case hex", REL, sub.lineno, detail=regex)
    # mangle's emission
    t = flat(mg)
    ctx.check("unicodedata.name(c, '').lower().replace('-', 'H').replace(' ', '_') or 'U{:x}'.format(ord(c))" in t, "MANGLE-INVERSE", f"{REL}|mangle|escape text", "mangle's escape text changed", REL, mg.lineno, detail="name.lower() -→H ␠→_ | U%x")
    ctx.check("'{0}{1}{0}'.format(MANGLE_DELIM," in t and "s = 'hyx_' + ''.join(" in t, "MANGLE-INVERSE", f"{REL}|mangle|delimiters", "escapes must be wrapped in MANGLE_DELIM and the result prefixed with hyx_", REL, mg.lineno, detail="X…X, hyx_")
    ctx.check(pm.find(mg, "c if c != MANGLE_DELIM and ('S' + c).isidentifier() else __") is not None, "MANGLE-INVERSE", f"{REL}|mangle|delimiter escaped", "a literal delimiter character must itself be escaped", REL, mg.lineno, witness="a name containing X does not round-trip", detail="c != MANGLE_DELIM")
    tu = flat(um)
    ctx.check("chr(int(mo.group(2), base=16)) if mo.group(1) else unicodedata.lookup(mo.group(2).replace('_', ' ').replace('H', '-').upper())" in tu, "MANGLE-INVERSE", f"{REL}|unmangle|decode", "unmangle's decoding is not the inverse of mangle's escape text",
              REL, um.lineno, detail="hex base 16 | '_'→' ', 'H'→'-', upper")
    ctx.check("if s.startswith('hyx_'):" in tu and "s[len('hyx_'):]" in tu, "MANGLE-INVERSE", f"{REL}|unmangle|prefix", "unmangle must strip exactly the hyx_ prefix", REL, um.lineno, detail="hyx_")
    ctx.check("re.fullmatch('(_+)(.*?)(_*)', s, re.DOTALL)" in tu and "return prefix + s + suffix" in tu, "MANGLE-INVERSE", f"{REL}|unmangle|underscores", "leading/trailing underscores must be kept outside the decoding", REL, um.lineno, detail="(_+)(.*?)(_*)")
    ctx.assume("the round trip on concrete names is value-level (Unicode tables) and is not decided")
    ctx.floor("MANGLE-INVERSE", 5)


SELFTESTS = [
    dict(name="digits dropped from names", file=REL, old='"{0}(U)?([_a-z0-9H]+?){0}".format(MANGLE_DELIM)', new='"{0}(U)?([_a-zH]+?){0}".format(MANGLE_DELIM)', rule="MANGLE-ALPHABET", key="alphabet"),
    dict(name="flags as count", file=REL, old="            s[len(\"hyx_\") :],\n        )", new="            s[len(\"hyx_\") :],\n            re.DOTALL,\n        )", rule="MANGLE-CALL", key="re.sub arity"),
    dict(name="H not restored", file=REL, old='mo.group(2).replace("_", " ").replace("H", "-").upper()', new='mo.group(2).replace("_", " ").upper()', rule="MANGLE-INVERSE", key="decode"),
]
