"""Core plumbing: source provider, rule context, evidence, known findings, exit protocol.

Nothing here imports or executes /repo; sources are only read and parsed.
"""
from __future__ import annotations

import ast
import hashlib
import json
import os
import sys
import time
from dataclasses import dataclass, field

REPO = os.environ.get("HYVERIF_REPO", "/repo")
VERIF = os.path.dirname(os.path.dirname(os.path.abspath(__file__)))


class AnalysisError(Exception):
    """The analysis itself is broken (vanished anchor, unparsable source...)."""


class Unresolved(Exception):
    """A construct the following rules build on was not recognised; the remaining rules of the check are undecided."""


# ---------------------------------------------------------------------------
# Source provider
# ---------------------------------------------------------------------------


class Src:
    """path -> text / parsed tree.  `overrides` lets the thorough tier analyse
    an in-memory variant of a file without touching the disk."""

    def __init__(self, root=REPO, overrides=None, canon=False):
        self.root = root
        self.canon = canon
        self.overrides = dict(overrides or {})
        self._py = {}
        self._hy = {}
        self.consulted = {}

    def with_override(self, rel, text):
        o = dict(self.overrides)
        o[rel] = text
        return Src(self.root, o, self.canon)

    def variant(self, canon):
        """The same sources with / without canonicalisation (shares nothing but the overrides)."""
        if canon == self.canon:
            return self
        v = Src(self.root, self.overrides, canon)
        v.consulted = self.consulted
        return v

    def exists(self, rel):
        return rel in self.overrides or os.path.exists(os.path.join(self.root, rel))

    def text(self, rel):
        if rel in self.overrides:
            t = self.overrides[rel]
        else:
            p = os.path.join(self.root, rel)
            try:
                with open(p, encoding="utf-8") as f:
                    t = f.read()
            except OSError as e:
                raise AnalysisError(f"cannot read {rel}: {e}")
        self.consulted[rel] = hashlib.sha256(t.encode()).hexdigest()[:16]
        return t

    def py(self, rel):
        if rel not in self._py:
            from . import pysrc

            try:
                tree = ast.parse(self.text(rel), filename=rel)
            except SyntaxError as e:
                raise AnalysisError(f"cannot parse {rel}: {e}")
            if self.canon:
                from . import canon

                tree = canon.canonical(tree, rel)
            self._py[rel] = pysrc.Module(rel, tree, self.text(rel), canon=self.canon)
        return self._py[rel]

    def hy(self, rel):
        if rel not in self._hy:
            from . import hysexp

            try:
                self._hy[rel] = hysexp.HyFile(rel, self.text(rel))
            except hysexp.SexpError as e:
                raise AnalysisError(f"cannot parse {rel}: {e}")
        return self._hy[rel]

    def py_files(self, sub="hy"):
        out = []
        base = os.path.join(self.root, sub)
        for d, _, fs in os.walk(base):
            for f in fs:
                if f.endswith(".py"):
                    out.append(os.path.relpath(os.path.join(d, f), self.root))
        return sorted(out)

    def hy_files(self, sub="hy"):
        out = []
        base = os.path.join(self.root, sub)
        for d, _, fs in os.walk(base):
            for f in fs:
                if f.endswith(".hy"):
                    out.append(os.path.relpath(os.path.join(d, f), self.root))
        return sorted(out)


# ---------------------------------------------------------------------------
# Rule context
# ---------------------------------------------------------------------------


@dataclass
class Finding:
    rule: str
    key: str
    message: str
    file: str = ""
    line: int = 0
    witness: str = ""
    facts: dict = field(default_factory=dict)

    def ident(self):
        return f"{self.rule}|{self.key}"


class Ctx:
    """Collector for one property run."""

    def __init__(self, prop, tier="quick", seed=0, lenient=False):
        self.lenient = lenient
        self.strict_rules = set()
        self.prop = prop
        self.tier = tier
        self.seed = seed
        self.instances = []  # (rule, key, verdict, detail)
        self.findings = []
        self.unresolved = []
        self.rules = {}
        self.notes = []
        self.assumptions = []
        self.functions = set()
        self.selftests = []

    # -- declaring rules ----------------------------------------------------
    def rule(self, rid, text):
        self.rules[rid] = text

    def assume(self, text):
        if text not in self.assumptions:
            self.assumptions.append(text)

    # -- recording instances --------------------------------------------------
    def ok(self, rule, key, detail="", nontrivial=True):
        from . import pm

        pm.take_log()
        self.instances.append(
            dict(rule=rule, key=key, verdict="held", detail=detail, nontrivial=nontrivial)
        )

    def bad(self, rule, key, message, file="", line=0, witness="", **facts):
        from . import pm

        robust = bool(facts.pop("robust", False))
        local = bool(facts.pop("local", False))    # the evidence is entirely inside the function reported: no recognition needed

        pm.take_log()
        # every violation is reported against code the analysis still recognises: the function (top-level form) the
        # finding is about must be nearly the reviewed one.  In a function rewritten at large the facts a rule extracts
        # can mean something else than they did when the rule was confirmed; the instance is then unresolved.
        if not os.environ.get("HYVERIF_EDIT_STATS") and not local and not self._recognised(file, line, loose=robust):
            self.unres(rule, key, f"not reported, the code is no longer recognised ({getattr(self, 'last_recognition', '')}): " + message[:200])
            return
        if os.environ.get("HYVERIF_EDIT_STATS"):
            message += f" [[edit={self._edit_size(file, line)}]]"
        self.instances.append(
            dict(rule=rule, key=key, verdict="VIOLATED", detail=message, nontrivial=True)
        )
        self.findings.append(Finding(rule, key, message, file, line, witness, facts))

    def _edit_size(self, file, line):
        """Largest number of changed statements (tokens for .hy) over the functions the finding is about."""
        src = getattr(self, "src", None)
        if src is None or not file:
            return "?"
        try:
            from . import fdiff
            if str(file).endswith(".hy"):
                ok, why = fdiff.hy_small_edit(src.hy(file), line or 0)
            elif str(file).endswith(".py"):
                mod = src.variant(True).py(file)
                ok, why = fdiff.small_edit(mod, line) if line else fdiff.file_small_edit(mod)
            else:
                return "?"
            return why
        except Exception as e:
            return f"? {e}"

    def unres(self, rule, key, why):
        from . import pm

        pm.take_log()
        self.unresolved.append(dict(rule=rule, key=key, why=why))

    def check(self, cond, rule, key, message, file="", line=0, witness="", detail="", strict=None, **facts):
        """Decide one rule instance.  A failed condition is a violation when the rule is *strict* (its facts were
        extracted from a construct the analysis fully recognised, so the deviation is semantic) or when one of the
        pattern comparisons made for it was a near miss (the construct is there and differs in a detail, which is named
        in the report).  Otherwise the construct was not recognised at all - restructured beyond what the rule
        understands - and the instance is recorded as unresolved, never as a violation."""
        from . import pm

        near = pm.take_log()
        if cond:
            self.ok(rule, key, detail or "held")
        elif strict or (strict is None and (not self.lenient or rule in self.strict_rules or (armed(rule, key) and self._recognised(file, line)))) or near:
            self.bad(rule, key, message + (f" — found {near[0]}" if near else ""), file, line, witness, **facts)
        else:
            self.unres(rule, key, "construct not recognised: " + message[:160])
        return cond

    def _recognised(self, file, line, loose=False):
        """An armed absence test is believed only where the function it looked at is (nearly) the reviewed function:
        see fdiff.  Files without a function-level reference (.hy sources) are taken as recognised."""
        src = getattr(self, "src", None)
        if src is None or not file or not str(file).endswith((".py", ".hy")) or os.environ.get("HYVERIF_NO_GATE"):
            return True
        try:
            from . import fdiff
            if str(file).endswith(".hy"):
                ok, why = fdiff.hy_small_edit(src.hy(file), line or 0, loose)
                self.last_recognition = why
                return ok
            mod = src.variant(True).py(file)
            ok, why = fdiff.small_edit(mod, line or 0, loose) if line else fdiff.file_small_edit(mod)
        except Exception:
            return False
        self.last_recognition = why
        return ok

    def decide(self, rule, key, verdict, message, file="", line=0, witness="", detail="", **facts):
        """verdict True: held; False: violated (the facts were extracted and contradict the rule); None: not recognised."""
        if verdict is None:
            self.unres(rule, key, "construct not recognised: " + message[:160])
            return None
        return self.check(bool(verdict), rule, key, message, file, line, witness, detail, strict=True, **facts)

    def decide_tt(self, rule, key, verdict, message, file="", line=0, witness="", detail="", **facts):
        """decide() for a verdict read off a complete path-condition truth table (boolfn): the counterexample is explicit,
        so the finding is believed in a function that was edited more heavily than the default gate allows."""
        return self.decide(rule, key, verdict, message, file, line, witness, detail, robust=True, **facts)

    def need(self, cond, what):
        """A construct inside an anchored function that the following rules build on.  When it is not recognisable the
        rest of the check cannot be decided: recorded as unresolved (not a violation, not an analysis error)."""
        if not cond:
            raise Unresolved(what)

    # -- analysis integrity ---------------------------------------------------
    def require(self, cond, what):
        """An anchor of the analysis: if it is gone the run is broken, not passed."""
        if not cond:
            raise AnalysisError(what)

    def floor(self, rule, minimum):
        """Instance floor: how many instances of the rule were confirmed by hand on the reviewed tree.  Finding fewer
        means part of the code is no longer seen by the rule: recorded as unresolved (the run is not a violation; a check
        that decides nothing at all is an analysis error, see run_property)."""
        n = sum(1 for i in self.instances if i["rule"] == rule) + sum(1 for u in self.unresolved if u["rule"] == rule)
        if n < minimum:
            self.unres(rule, f"floor:{rule}", f"only {n} instances of the rule were found; {minimum} were confirmed by hand on the reviewed tree")
        return n

    def count(self, rule):
        return sum(1 for i in self.instances if i["rule"] == rule)


def transfer(ctx, src, mod, rules, key_filter=None, rename=None):
    """Run another property's check in a scratch context and adopt the instances/findings of the given rules."""
    sub = Ctx(ctx.prop, ctx.tier, ctx.seed, lenient=bool(getattr(mod, "CANON", False)) and getattr(mod, "LENIENT", True))
    sub.strict_rules = set(getattr(mod, "STRICT", ()))
    sub.src = src
    try:
        run_check(mod, sub, src.variant(bool(getattr(mod, "CANON", False))))
    except Unresolved as e:
        sub.unres("NEED", f"{mod.__name__.split('.')[-1]}", str(e))
    keep = (lambda k: True) if key_filter is None else key_filter
    for i in sub.instances:
        if i["rule"] in rules and keep(i["key"]):
            i = dict(i)
            i["rule"] = (rename or {}).get(i["rule"], i["rule"])
            ctx.instances.append(i)
    for f in sub.findings:
        if f.rule in rules and keep(f.key):
            f.rule = (rename or {}).get(f.rule, f.rule)
            ctx.findings.append(f)
    for u in sub.unresolved:
        if u["rule"] in rules and keep(u["key"]):
            ctx.unresolved.append(u)
    for r in rules:
        if r in sub.rules:
            ctx.rules.setdefault((rename or {}).get(r, r), sub.rules[r])
    ctx.functions |= sub.functions


# ---------------------------------------------------------------------------
# Armed shape rules
# ---------------------------------------------------------------------------
# A shape rule (one that compares code with a required form) is lenient by default: when the form is not recognised
# it reports "unresolved", not a violation.  Instances listed in armed_instances.json are strict.  The list is frozen
# data: every instance decided on the reviewed tree that stayed silent, with strictness forced on, on every
# behaviour-preserving variant of the corpus (mechanical rewrites and independent refactorings; tools/arm_rules.py).

_ARMED = None


def armed(rule, key):
    global _ARMED
    if os.environ.get("HYVERIF_ALL_STRICT"):
        return True
    if os.environ.get("HYVERIF_NO_ARMED"):
        return False
    if _ARMED is None:
        try:
            with open(os.path.join(os.path.dirname(os.path.abspath(__file__)), "armed_instances.json")) as f:
                _ARMED = set(json.load(f))
        except OSError:
            _ARMED = set()
    return f"{rule}|{key}" in _ARMED


# ---------------------------------------------------------------------------
# Known findings
# ---------------------------------------------------------------------------


def load_known():
    p = os.path.join(VERIF, "known_findings.json")
    if not os.path.exists(p):
        return []
    with open(p) as f:
        return json.load(f).get("findings", [])


def known_for(prop):
    out = {}
    for e in load_known():
        if e.get("status", "known") != "known":
            continue  # "fixed" entries suppress nothing
        if prop in e.get("properties", []):
            out[e["ident"]] = e
    return out


# ---------------------------------------------------------------------------
# Running one property
# ---------------------------------------------------------------------------


def write_json(path, obj):
    os.makedirs(os.path.dirname(path), exist_ok=True)
    tmp = path + ".tmp%d" % os.getpid()
    with open(tmp, "w") as f:
        json.dump(obj, f, indent=1, sort_keys=False, default=str)
        f.write("\n")
    os.replace(tmp, path)



# ---------------------------------------------------------------------------
# Sliced execution of a check function
# ---------------------------------------------------------------------------
#
# A check is a straight-line sequence of rule blocks.  When a construct that a block builds on is not recognised
# (ctx.need), only the statements that depend on it are skipped - the statements reading a variable the failed block
# was about - and every other rule is still decided.  The body of check(ctx, src) is therefore executed statement by
# statement in one namespace; after a failed `need` the names its condition was about (and everything later computed
# from them) are poisoned, statements reading a poisoned name are recorded as unresolved, and an exception raised by a
# later statement (it met a half-built value) is treated the same way instead of aborting the run.

class _StopCheck(Exception):
    pass


_SLICED = {}


def _sliced(mod):
    import ast as _ast
    import inspect

    key = mod.__name__
    if key in _SLICED:
        return _SLICED[key]
    srctext = inspect.getsource(mod)
    tree = _ast.parse(srctext)
    fn = next(n for n in tree.body if isinstance(n, _ast.FunctionDef) and n.name == "check")

    class Ret(_ast.NodeTransformer):
        def visit_FunctionDef(self, node):
            return node

        visit_AsyncFunctionDef = visit_Lambda = visit_FunctionDef

        def visit_Return(self, node):
            return _ast.copy_location(_ast.Raise(exc=_ast.Call(func=_ast.Name(id="_StopCheck", ctx=_ast.Load()), args=[], keywords=[]), cause=None), node)

    stmts = []
    for st in fn.body:
        st = Ret().visit(st)
        _ast.fix_missing_locations(st)
        stores = {n.id for n in _ast.walk(st) if isinstance(n, _ast.Name) and isinstance(n.ctx, (_ast.Store, _ast.Del))}
        stores |= {n.name for n in _ast.walk(st) if isinstance(n, (_ast.FunctionDef, _ast.ClassDef))}
        stores |= {(a.asname or a.name).split(".")[0] for n in _ast.walk(st) if isinstance(n, (_ast.Import, _ast.ImportFrom)) for a in n.names}
        loads = {n.id for n in _ast.walk(st) if isinstance(n, _ast.Name) and isinstance(n.ctx, _ast.Load)}
        needs = []
        for n in _ast.walk(st):
            if isinstance(n, _ast.Call) and isinstance(n.func, _ast.Attribute) and n.func.attr == "need" and n.args:
                needs.append({x.id for x in _ast.walk(n.args[0]) if isinstance(x, _ast.Name)})
        code = compile(_ast.Module(body=[st], type_ignores=[]), mod.__file__, "exec")
        stmts.append((code, stores, loads, needs, st.lineno))
    _SLICED[key] = (stmts, [a.arg for a in fn.args.args])
    return _SLICED[key]


def run_check(mod, ctx, src):
    """Execute mod.check(ctx, src) with the slicing described above."""
    if os.environ.get("HYVERIF_NO_SLICE") or not hasattr(mod, "__file__"):
        return mod.check(ctx, src)
    try:
        stmts, params = _sliced(mod)
    except (OSError, SyntaxError, StopIteration):
        return mod.check(ctx, src)
    ns = dict(mod.__dict__)
    ns[params[0]] = ctx
    ns[params[1]] = src
    ns["_StopCheck"] = _StopCheck
    assigned_at = {}
    poisoned = set()
    degraded = False
    for i, (code, stores, loads, needs, lineno) in enumerate(stmts):
        hit = loads & poisoned
        if hit:
            ctx.unres("NEED", f"{mod.__name__.split('.')[-1]}:{lineno}", f"skipped: depends on `{sorted(hit)[0]}`, which was not recognised")
            poisoned |= stores
            continue
        try:
            exec(code, ns)
        except _StopCheck:
            break
        except Unresolved as e:
            degraded = True
            ctx.unres("NEED", f"{mod.__name__.split('.')[-1]}:{lineno}", str(e))
            cand = set().union(*needs) if needs else set()
            cand = {c for c in cand if c in assigned_at and c not in params}
            if cand:
                latest = max(assigned_at[c] for c in cand)
                poisoned |= {c for c in cand if assigned_at[c] == latest}
            poisoned |= {x for x in stores if x not in assigned_at}
        except AnalysisError:
            raise
        except Exception as e:
            if not degraded:
                raise
            ctx.unres("NEED", f"{mod.__name__.split('.')[-1]}:{lineno}", f"skipped after an unrecognised construct ({type(e).__name__}: {str(e)[:80]})")
            poisoned |= stores
        for x in stores:
            assigned_at[x] = i


def run_property(prop, fn, tier, seed, src=None, write=True, out=sys.stdout, mod=None):
    """Run check function `fn(ctx, src)`; returns exit status (0, 1, 2)."""
    t0 = time.time()
    src = src or Src()
    ctx = Ctx(prop, tier, seed, lenient=src.canon and getattr(mod, "LENIENT", True))
    ctx.strict_rules = set(getattr(mod, "STRICT", ()))
    ctx.src = src
    status = 0
    err = None
    try:
        if mod is not None and getattr(mod, "check", None) is fn:
            run_check(mod, ctx, src)
        else:
            fn(ctx, src)
    except Unresolved as e:
        ctx.unres("NEED", prop, str(e))
    except AnalysisError as e:
        err = f"{e}"
        status = 2
    except Exception as e:  # a bug in the checker is never a violation
        import traceback

        err = "checker exception: " + "".join(
            traceback.format_exception_only(type(e), e)
        ).strip() + " @ " + " <- ".join(
            f"{os.path.basename(fr.filename)}:{fr.lineno}"
            for fr in reversed(traceback.extract_tb(e.__traceback__)[-4:])
        )
        status = 2

    if status == 0 and not ctx.instances and not ctx.findings and not ctx.unresolved:
        err = "no rule instance was produced at all: the analysis no longer sees the code it was written for"
        status = 2
    known = known_for(prop)
    new, matched = [], []
    for f in ctx.findings:
        if f.ident() in known:
            matched.append(f)
        else:
            new.append(f)
    if status == 2 and new and not err.startswith("checker exception"):
        # violations already established by exact rules are reported even if a later
        # anchor is missing; the analysis error is kept in the evidence
        status = 0

    wall = time.time() - t0
    replay_paths = []
    if status != 2:
        for f in matched:
            print(
                f"KNOWN-FINDING: property={prop} {f.ident()} :: {f.message}"
                + (f" :: witness: {f.witness}" if f.witness else ""),
                file=out,
            )
        for f in new:
            rp = os.path.join(
                VERIF, "evidence", "replay",
                f"{prop}-{hashlib.sha1(f.ident().encode()).hexdigest()[:10]}.json",
            )
            if write:
                write_json(rp, dict(
                    property=prop, rule=f.rule, key=f.key, message=f.message,
                    file=f.file, line=f.line, witness=f.witness, facts=f.facts,
                    rule_text=ctx.rules.get(f.rule, ""),
                    replay_cmd=f"/venv/bin/python -m hyverif {prop} --tier {tier}",
                ))
            replay_paths.append(rp)
            print(
                f"{f.file}:{f.line}: [{f.rule}] {f.key}: {f.message}"
                + (f"  (witness: {f.witness})" if f.witness else ""),
                file=out,
            )
            print(f"VIOLATION property={prop} replay={rp}", file=out)
        if new:
            status = 1
    else:
        print(f"ANALYSIS-ERROR property={prop} {err}", file=out)

    if write:
        n_inst = len(ctx.instances)
        nontriv = len({(i["rule"], i["key"]) for i in ctx.instances if i["nontrivial"]})
        held = sum(1 for i in ctx.instances if i["verdict"] == "held")
        # rotate samples with the seed; always include violated ones
        samples = [i for i in ctx.instances if i["verdict"] != "held"][:10]
        pool = [i for i in ctx.instances if i["verdict"] == "held"]
        if pool:
            start = seed % len(pool)
            rot = pool[start:] + pool[:start]
            step = max(1, len(rot) // 14)
            samples += rot[::step][:14]
        ev = dict(
            property_id=prop,
            tier=tier,
            seed=seed,
            level="other",
            coverage=dict(
                explanation="static analysis of /repo sources (nothing imported or run). Rules: "
                + " || ".join(f"{k}: {v}" for k, v in ctx.rules.items()),
                obligations=n_inst,
                discharged=held,
                evaluations=n_inst,
                distinct_nontrivial=nontriv,
                rule="one evaluation = one rule instance (rule, construct key) found in the "
                "current sources; non-trivial = the instance needed a dataflow/structural "
                "argument rather than a literal-only site; distinct = distinct (rule, key)",
                samples=samples or [dict(note="no instances")],
                unresolved=ctx.unresolved[:40],
                unresolved_count=len(ctx.unresolved),
                per_rule={r: ctx.count(r) for r in ctx.rules},
                functions=sorted(ctx.functions)[:200],
                files=src.consulted,
                known_findings_matched=[f.ident() for f in matched],
                selftests=ctx.selftests,
                analysis_error=err,
                exhaustive=True,
            ),
            assumptions=ctx.assumptions
            or ["the Python files parse with the stdlib ast of /venv/bin/python"],
            wall_s=round(wall, 3),
            violations=len(new),
        )
        write_json(os.path.join(VERIF, "evidence", f"{prop}.json"), ev)
    if status == 0:
        print(
            f"OK property={prop} tier={tier} instances={len(ctx.instances)} "
            f"unresolved={len(ctx.unresolved)} known={len(matched)} wall={wall:.2f}s",
            file=out,
        )
    return status, ctx
