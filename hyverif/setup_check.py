"""setup_cmd: nothing to build (stdlib only); verify the parsers work on the current tree."""
import sys

from . import core


def main():
    src = core.Src()
    n = 0
    for rel in src.py_files("hy"):
        src.py(rel)
        n += 1
    for rel in src.hy_files("hy"):
        src.hy(rel)
        n += 1
    print(f"hyverif setup: parsed {n} source files of {core.REPO}/hy with {sys.version.split()[0]}")
    return 0


if __name__ == "__main__":
    try:
        sys.exit(main())
    except core.AnalysisError as e:
        print("ANALYSIS-ERROR setup:", e)
        sys.exit(2)
