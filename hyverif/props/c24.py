"""C24 — f-strings (error and table clauses only): conversions, `=` debugging, brace escapes, named escapes, compilation wiring."""
CANON = True

import ast

from .. import compq, pm, pyq, readerq
from ..pysrc import dotted, fold, norm, flat
from ..readerq import HR
from .c19 import check as _c19  # noqa: F401  (EOF clauses are decided under C19)


def _guarded(node, func, pats):
    """Every pattern occurs among the path conditions of node (in this order)."""
    gs = pyq.guard_texts(node, func)
    i = 0
    for g in gs:
        if i < len(pats) and g == pats[i]:
            i += 1
    return i == len(pats)


def check(ctx, src):
    ctx.rule("FS-CONV", "compile_fcomponent accepts exactly the conversions None s r a (else a Hy syntax error) and maps them to -1 / ord(c)")
    ctx.rule("FS-DEBUG", "`=` emits the verbatim field text before the value and adds conversion r exactly when there is no explicit conversion and no `:` format spec at all")
    ctx.rule("FS-BRACES", "`{{` and `}}` are literal braces, a single `}` is an error, `\\N{…}` is skipped as a named escape only in non-raw strings, a `{` otherwise starts a field")
    ctx.rule("FS-FIELD", "a field ends at `}` (after optional spaces, `=`, `!c`, `:spec`); the spec is read as nested f-string components; malformed endings raise reader errors (EOF cases: C19)")
    ctx.rule("FS-COMPILE", "FormattedValue gets the compiled value (force_expr), the conversion code and a JoinedStr of the spec components; adjacent literal strings of an FString are joined")
    rq = readerq.Reader(src)
    comp = compq.Compiler(src)
    cf = comp.cp.func("HyASTCompiler.compile_fcomponent")
    ctx.require(cf is not None, "compile_fcomponent not found")
    g = pyq.contains(cf, lambda n: isinstance(n, ast.If) and "fcomponent.conversion not in" in norm(n.test))
    ok = g is not None and set(fold(g.test.comparators[0])) == {None, "s", "r", "a"} and "_syntax_error" in norm(g.body[0])
    ctx.check(ok, "FS-CONV", f"{compq.CP}|compile_fcomponent|allowed", "the accepted conversion characters are not exactly None, s, r, a (or the rejection is not a Hy syntax error)", compq.CP, cf.lineno,
              witness='f"{x !z}" compiles with conversion 122 -> ValueError from compile()', detail="None s r a")
    node0 = pyq.contains(cf, lambda n: isinstance(n, ast.Call) and any(k.arg == "conversion" for k in n.keywords) and "FormattedValue" in flat(n.func))
    cvar = next((k.value.id for k in node0.keywords if k.arg == "conversion" and isinstance(k.value, ast.Name)), None) if node0 is not None else None
    cvs = [n for n in ast.walk(cf) if isinstance(n, ast.Assign) and isinstance(n.targets[0], ast.Name) and n.targets[0].id == cvar]
    by = {str(norm(n.value)): [str(g) for g in pyq.guard_texts(n, cf)] for n in cvs}
    ctx.check(set(by) == {"ord(fcomponent.conversion)", "-1"} and by["ord(fcomponent.conversion)"][-1:] == ["fcomponent.conversion"] and by["-1"][-1:] == ["not fcomponent.conversion"], "FS-CONV", f"{compq.CP}|compile_fcomponent|code", "conversion code must be ord(c) or -1", compq.CP, cf.lineno, detail="ord(c) / -1")
    node = pyq.contains(cf, lambda n: isinstance(n, ast.Call) and isinstance(n.func, ast.IfExp) and "asty.FormattedValue" in norm(n.func))
    kw = {k.arg: norm(k.value) for k in node.keywords if k.arg} if node is not None else {}
    CB = pm.Binder()
    CB.find(cf, "value = self.compile(root)")
    spec_ok = CB.find(cf, "if elts:\n    spec = asty.JoinedStr(fcomponent, values=elts)\nelse:\n    spec = None") is not None
    ctx.check(node is not None and set(kw) == {"value", "conversion", "format_spec"} and CB.eq(node.keywords[[k.arg for k in node.keywords].index("value")].value, "value.force_expr")
              and isinstance(kw["conversion"].node, ast.Name) and kw["conversion"].node.id == cvar and isinstance(kw["format_spec"].node, ast.Name) and kw["format_spec"].node.id == CB.name("spec"), "FS-COMPILE", f"{compq.CP}|compile_fcomponent|fields", f"FormattedValue fields are {kw}", compq.CP, cf.lineno, detail=str(kw))
    ctx.check(spec_ok, "FS-COMPILE", f"{compq.CP}|compile_fcomponent|spec", "the format spec must be a JoinedStr of the remaining components, or None", compq.CP, cf.lineno, detail="JoinedStr / None")
    fp = cf.args.args[1].arg if len(cf.args.args) > 1 else "fcomponent"
    texts_cf = str(flat(cf))
    split = (f"self.compile({fp}[0])" in texts_cf or pm.find(cf, f"__ = self.compile({fp}[0])") is not None) and f"{fp}[1:]" in texts_cf
    ctx.check(bool(split), "FS-COMPILE", f"{compq.CP}|compile_fcomponent|value-then-spec", "the first child is the value, the rest the spec", compq.CP, cf.lineno, detail="root, *rest")
    fs = src.py("hy/models.py").func("FString.__new__")
    ctx.require(fs is not None, "FString.__new__ not found")
    mo_ = src.py("hy/models.py")
    scope_fns = pyq.helpers_of(mo_, fs)
    grp = [c for f_ in scope_fns for c in pyq.calls(f_) if (dotted(c.func) or "").split(".")[-1] == "groupby" and "isinstance(" in norm(c) and "String" in norm(c)]
    red = [c for f_ in scope_fns for c in pyq.calls(f_) if ((dotted(c.func) or "").split(".")[-1] == "reduce" and c.args and norm(c.args[0]) == "operator.add") or
           (isinstance(c.func, ast.Attribute) and c.func.attr == "join" and isinstance(c.func.value, ast.Constant))]
    ctx.check(bool(grp) and bool(red), "FS-COMPILE", "hy/models.py|FString.__new__|join", "adjacent String components are no longer joined (no grouping by `isinstance(x, String)` followed by a concatenation was found)",
              "hy/models.py", fs.lineno, witness='(hy.models.FString [(String "a") (String "b")]) keeps two components', detail="groupby + reduce(add)")
    fcn = mo_.func("FComponent.__new__")
    ctx.require(fcn is not None, "FComponent.__new__ not found")
    sup = [c for c in pyq.calls(fcn) if isinstance(c.func, ast.Attribute) and c.func.attr == "__new__" and isinstance(c.func.value, ast.Call) and dotted(c.func.value.func) == "super"]
    p0 = fcn.args.args[1].arg if len(fcn.args.args) > 1 else None
    arg = sup[0].args[1] if sup and len(sup[0].args) > 1 else None
    verdict = None if arg is None or p0 is None else (True if isinstance(arg, ast.Name) and arg.id == p0 else (False if isinstance(arg, ast.Call) and any(isinstance(n, ast.Name) and n.id == p0 for n in ast.walk(arg)) else None))
    ctx.decide("FS-COMPILE", "hy/models.py|FComponent.__new__|children as given", verdict, f"FComponent must keep its children as given (the first is the value, the rest the format spec); it now stores `{norm(arg) if arg is not None else None}`",
               "hy/models.py", fcn.lineno, witness='f"{"a":b}": the value "a" and the spec text "b" are merged into one String', detail="super().__new__(cls, s)")
    # --- reader: field
    rf = rq.methods["read_fcomponent"][1]
    b = rf.body
    tx = [norm(s) for s in b]
    fmt = next((s for s in b if isinstance(s, ast.If) and norm(s.test) == "self.peek_and_getc(':')"), None)
    ctx.need(fmt is not None, "read_fcomponent: format-spec branch not found")
    B = pm.Binder()
    bang = B.find(rf, "if self.peek_and_getc('!'):\n    conversion = self.getc()")
    ctx.need(bang is not None, "read_fcomponent: conversion branch not found")
    cvar = B.name("conversion")
    dbg = B.findall(rf, "if has_debug and conversion is None:\n    conversion = 'r'")
    colon = "self.peek_and_getc(':')"
    ctx.check(len(dbg) == 1 and any(g == "not " + colon for g in pyq.guard_texts(dbg[0], rf)), "FS-DEBUG", f"{HR}|read_fcomponent|implicit r",
              "the implicit `!r` of `=` must be added exactly in the branch without any `:` (not merely when the spec is empty)", HR, fmt.lineno, witness='f"{s =:}" gives s=\'a\' instead of s=a', detail="else-branch of peek_and_getc(':')")
    if dbg:
        B.eq(dbg[0], "if has_debug and conversion is None:\n    conversion = 'r'")
    srcs = sorted(str(norm(n.value)) for n in ast.walk(rf) if isinstance(n, ast.Assign) and isinstance(n.targets[0], ast.Name) and n.targets[0].id == cvar)
    ctx.check(srcs == ["'r'", "None", "self.getc()"], "FS-DEBUG", f"{HR}|read_fcomponent|conversion sources", f"conversion is assigned from {srcs}", HR, rf.lineno, detail="None; getc() after '!'; 'r' for a bare `=`")
    dp = B.find(rf, "if self.peek_and_getc('='):\n    has_debug = True\n    ...")
    ctx.check(dp is not None and B.find(dp, "space_after = self.slurp_space()\ndbg_prefix = space_before + form_text + space_between + '=' + space_after\nvalues.append(self.fill_pos(String(dbg_prefix), start))") is not None, "FS-DEBUG",
              f"{HR}|read_fcomponent|verbatim text", "`=` must emit the field text verbatim (with its surrounding spaces) before the value", HR, rf.lineno, detail="space_before + form_text + space_between + '=' + space_after")
    sav = pyq.contains(rf, lambda n: isinstance(n, ast.With) and "self.saving_chars() as form_text" in norm(n) and norm(n.body[0]) == "model = self.parse_one_form()")
    ctx.check(sav is not None, "FS-FIELD", f"{HR}|read_fcomponent|one form", "a field holds exactly one form, read with its text saved", HR, rf.lineno, detail="with saving_chars(): parse_one_form()")
    ctx.check(pyq.contains(fmt.body, lambda n: isinstance(n, ast.Assign) and norm(n) == "format_components = self.read_fcomponents_until(__, prefix, 'f')") is not None, "FS-FIELD", f"{HR}|read_fcomponent|nested spec",
              "the format spec must be read as nested f-string components up to `}`", HR, fmt.lineno, detail="read_fcomponents_until(component_closing, prefix, 'f')")
    junk = pyq.contains(fmt.orelse, lambda n: isinstance(n, ast.Raise) and "trailing junk in field" in norm(n))
    ctx.check(junk is not None, "FS-FIELD", f"{HR}|read_fcomponent|junk", "anything but `}` after the field must be a LexException", HR, fmt.lineno, detail="trailing junk")
    fc = pyq.contains(rf, lambda n: isinstance(n, ast.Call) and dotted(n.func) == "FComponent")
    kw = {k.arg: norm(k.value) for k in fc.keywords} if fc is not None else {}
    B.find(rf, "with self.saving_chars() as form_text:\n    model = self.parse_one_form()")
    ctx.check(fc is not None and B.eq(fc, "FComponent((model, *format_components), conversion=conversion, expression=form_text, is_tstring=fstring_mode == 't')"), "FS-FIELD", f"{HR}|read_fcomponent|component",
              f"FComponent is built with {kw}", HR, rf.lineno, detail="(model, *spec), conversion, expression, is_tstring")
    # --- braces
    rc = rq.methods["read_chars_until"][1]
    t = flat(rc)
    esc_on = pm.find(rc, "in_named_escape = True")
    ctx.check(esc_on is not None and _guarded(esc_on, rc, ["c == '{'", "'r' not in prefix and s[-3:] == ['\\\\', 'N', '{']"]), "FS-BRACES", f"{HR}|read_chars_until|named escape", "`\\N{` starts a named escape only in non-raw strings", HR, rc.lineno,
              witness='rf"\\N{x}" keeps the text \\N{x} instead of evaluating x', detail="'r' not in prefix and s[-3:] == \\N{")
    brk = pm.find(rc, "s.pop()\nbreak")
    ctx.check(brk is not None and _guarded(brk, rc, ["c == '{'", "'r' in prefix or s[-3:] != ['\\\\', 'N', '{']", "not self.peek_and_getc('{')"]), "FS-BRACES", f"{HR}|read_chars_until|open brace", "`{{` is a literal brace; a single `{` ends the literal chunk and starts a field", HR, rc.lineno, detail="{{ vs {")
    err = pyq.contains(rc, lambda n: isinstance(n, ast.Raise) and "single '}}' is not allowed" in flat(n))
    esc_off = pm.find(rc, "in_named_escape = False")
    inner_off = [n for n in pm.findall(rc, "in_named_escape = False") if pyq.guards(n, rc)]
    ctx.check(err is not None and _guarded(err, rc, ["c == '}'", "not in_named_escape", "not self.peek_and_getc('}')"]) and any(_guarded(n, rc, ["c == '}'", esc_on.targets[0].id if esc_on is not None else "?"]) for n in inner_off), "FS-BRACES", f"{HR}|read_chars_until|close brace", "`}}` is a literal brace; a single `}` is an error unless it closes a named escape", HR, rc.lineno, detail="}} vs }")
    ru = rq.methods["read_fcomponents_until"][1]
    lp = next((s for s in ru.body if isinstance(s, ast.While)), None)
    tl = [norm(s) for s in lp.body] if lp else []
    ctx.check(tl == ["(s, closed) = self.read_chars_until(closing, prefix, fstring_mode=fstring_mode)", "if s: components.append(self.fill_pos(String(s), start))", "if closed: break", "components.extend(self.read_fcomponent(prefix, fstring_mode))"] or
              tl == ["s, closed = self.read_chars_until(closing, prefix, fstring_mode=fstring_mode)", "if s: components.append(self.fill_pos(String(s), start))", "if closed: break", "components.extend(self.read_fcomponent(prefix, fstring_mode))"],
              "FS-FIELD", f"{HR}|read_fcomponents_until|alternation", f"component loop is {tl}", HR, ru.lineno, detail="text chunk; stop if closed; else a field")
    ctx.assume("the evaluated string of an f-string is Python's FormattedValue/JoinedStr semantics and is not decided")
    ctx.floor("FS-FIELD", 4)


SELFTESTS = [
    dict(name="implicit r when spec empty", file=HR, rule="FS-DEBUG", key="implicit r", edits=[
        ("        else:\n            if has_debug and conversion is None:\n                conversion = \"r\"\n", "        else:\n"),
        ("        return values + [\n            self.fill_pos(FComponent(", "        if has_debug and conversion is None and not format_components:\n            conversion = \"r\"\n        return values + [\n            self.fill_pos(FComponent(")]),
    dict(name="named escape in raw", file=HR, old='                    if "r" not in prefix and s[-3:] == ["\\\\", "N", "{"]:', new='                    if s[-3:] == ["\\\\", "N", "{"]:', rule="FS-BRACES", key="named escape"),
    dict(name="conversion z allowed", file=compq.CP, old="if fcomponent.conversion not in (None, 's', 'r', 'a'):", new="if fcomponent.conversion not in (None, 's', 'r', 'a', 'z'):", rule="FS-CONV", key="allowed"),
    dict(name="spec dropped", file=compq.CP, old="            spec = asty.JoinedStr(fcomponent, values=elts)", new="            spec = None", rule="FS-COMPILE", key="spec"),
]
