"""C25 — hy.repr of models reads back: registration exhaustiveness, attribute and children coverage of the printers."""
CANON = True
LENIENT = True   # .hy rules: a failed test is believed only for armed instances in a nearly-unchanged form (fdiff.hy_small_edit)

from .. import hysexp
from .c28 import check as _c28  # noqa: F401
from .c20 import check as _c20  # noqa: F401

REL = "hy/core/hy_repr.hy"
MODELS = ["Tuple", "Dict", "Expression", "Symbol", "Keyword", "String", "Bytes", "Float", "Complex", "FComponent", "FString", "List", "Set"]
FALLBACK_OK = {"Integer": "the base int repr is valid Hy", "Lazy": "not produced as a form by the reader", "Object": "abstract", "Sequence": "abstract"}


def registrations(hf):
    """type name -> (register form, printer form)"""
    out = {}
    for f in hf.find("hy-repr-register"):
        if len(f.items) < 3:
            continue
        t = f.items[1]
        names = [x.val for x in (t.items if t.kind == "list" else [t]) if x.kind == "sym"]
        printer = next((x for x in f.items[2:] if x.kind == "expr" or x.kind == "sym"), None)
        if f.items[2].kind == "kw":
            printer = f.items[4] if len(f.items) > 4 else None
        for n in names:
            out[n] = (f, printer)
    # the loop at the end registers list/set/... with placeholders
    for f in hf.find("for"):
        if "hy-repr-register" in f.syms() and "mkrepr" in f.syms():
            for n in f.syms():
                if n.startswith("hy.models.") or n in ("list", "set", "frozenset"):
                    out.setdefault(n, (f, f))
    return out


def _mentions_attr(node, attr):
    """Does the printer read attribute `attr` of something (x.attr, (. x attr), (getattr x "attr" ...))?"""
    alts = {attr, attr.replace("_", "-"), attr.replace("-", "_")}
    for n in node.walk():
        if n.kind == "sym" and "." in n.val and n.val.split(".")[-1] in alts:
            return True
        if n.kind == "expr" and n.head() == "getattr" and len(n.items) > 2 and n.items[2].kind == "str" and n.items[2].val in alts:
            return True
        if n.kind == "expr" and n.head() == "." and any(i.kind == "sym" and i.val in alts for i in n.items[2:]):
            return True
    return False


def _has_text(node, piece):
    return any(n.kind in ("str", "fstr", "bstr") and piece in n.src() for n in node.walk()) or piece in node.src()


def check(ctx, src):
    ctx.rule("REPR-REG", "every model class the reader can produce has a registered printer, or falls back to a base repr that is valid Hy")
    ctx.rule("REPR-ATTRS", "every constructor attribute the reader sets (brackets, conversion, is_tstring) is consulted by the class's printer; `expression` is re-derived by the reader")
    ctx.rule("REPR-CHILDREN", "a printer of a sequence model whose length is unbounded prints all children (not fixed indices); bracket f-strings print their literal text raw")
    hf = src.hy(REL)
    regs = registrations(hf)
    mo = src.py("hy/models.py")
    classes = [c for c in mo.classes if c not in ("Object",)]
    for c in MODELS:
        ctx.check(f"hy.models.{c}" in regs, "REPR-REG", f"{REL}|hy.models.{c}", f"no hy.repr printer is registered for hy.models.{c}", REL, 0, witness=f"(hy.repr <a {c} model>) prints Python's repr, which does not read back", detail="registered")
    for c in classes:
        if c not in MODELS:
            ctx.check(c in FALLBACK_OK, "REPR-REG", f"{REL}|{c} fallback", f"model class {c} has neither a printer nor a reviewed fallback", REL, 0, detail=FALLBACK_OK.get(c, ""))
    # --- String / Bytes
    f, p = regs["hy.models.String"]
    t = p.src()
    ctx.check(_mentions_attr(p, "brackets") and _has_text(p, "#[") and _has_text(p, "]"), "REPR-ATTRS", f"{REL}|String|brackets", "the String printer does not reproduce bracket strings with their delimiter", REL, f.line,
              witness="(hy.repr '#[d[a\"b]d]) prints an ordinary literal (brackets lost)", detail="#[D[…]D]")
    ctx.check('(if (isinstance x bytes) "b" "")' in t, "REPR-ATTRS", f"{REL}|Bytes|prefix", "bytes are not printed with the b prefix", REL, f.line, detail="b prefix")
    # --- FComponent
    f, p = regs["hy.models.FComponent"]
    t = p.src()
    ctx.check(_mentions_attr(p, "conversion") and _has_text(p, "!"), "REPR-ATTRS", f"{REL}|FComponent|conversion", "the FComponent printer does not print the conversion", REL, f.line, detail="!c")
    ctx.check("(hy-repr (get x 0))" in t, "REPR-CHILDREN", f"{REL}|FComponent|value", "the FComponent printer does not print its value form", REL, f.line, detail="(get x 0)")
    ok_all = "(cut x 1 None)" in t and "(get x 1)" not in t
    ctx.check(ok_all, "REPR-CHILDREN", f"{REL}|FComponent|whole spec", "the FComponent printer prints only a fixed component of the format spec; the spec has any number of components", REL, f.line,
              witness='f"{x :{w}.{p}f}" prints as f"{x :{w}}"', detail="iterates (cut x 1 None)")
    ctx.check("(isinstance part hy.models.String)" in t or "hy.models.String" in t, "REPR-CHILDREN", f"{REL}|FComponent|spec text raw", "literal spec text must be printed as is", REL, f.line, detail="strings raw, fields via hy-repr")
    # --- FString
    f, p = regs["hy.models.FString"]
    t = p.src()
    ctx.check(_mentions_attr(p, "brackets") and _has_text(p, '"#["') and _has_text(p, '"]"'), "REPR-ATTRS", f"{REL}|FString|brackets", "the FString printer does not reproduce bracket f-strings", REL, f.line, detail="#[D[…]D]")
    ctx.check(_mentions_attr(p, "is_tstring") and _has_text(p, '"t"') and _has_text(p, '"f"'), "REPR-ATTRS", f"{REL}|FString|is_tstring", "the FString printer does not distinguish t-strings", REL, f.line, detail="t / f prefix")
    lf = [n for n in p.walk() if n.kind == "expr" and n.head() == "lfor"]
    ctx.check(len(lf) == 2 and all(n.items[1].is_sym("component") and n.items[2].is_sym("fstring") for n in lf), "REPR-CHILDREN", f"{REL}|FString|all components", "the FString printer must print every component", REL, f.line, detail="lfor component fstring")
    if len(lf) == 2:
        br = lf[0].src()
        ctx.check("(str component)" in br and "hy-repr component" in br.replace("(hy-repr component)", "hy-repr component") and "(cut" not in br, "REPR-CHILDREN", f"{REL}|FString|bracket text raw",
                  "in a bracket f-string the literal text must be printed raw (bracket strings have no escapes), with only braces doubled", REL, lf[0].line,
                  witness='#[f[say "hi" to {name}]f] prints with \\" and reads back as a different string', detail="(str component)")
        for n in lf:
            ctx.check('"{" "{{"' in n.src() and '"}" "}}"' in n.src(), "REPR-CHILDREN", f"{REL}|FString|braces doubled@{n.line - f.line}", "literal braces must be doubled", REL, n.line, detail="{{ }}")
    # --- containers print all children
    for c, must in (("Tuple", "(_cat x)"), ("Expression", "(_cat x)"), ("Dict", "(enumerate x)")):
        f, p = regs[f"hy.models.{c}"]
        ctx.check(must in p.src(), "REPR-CHILDREN", f"{REL}|{c}|all children", f"the {c} printer does not iterate over all children", REL, f.line, detail=must)
    cat = hf.defn("_cat")
    ctx.check(cat is not None and '(.join " " (map hy-repr obj))' in cat.src(), "REPR-CHILDREN", f"{REL}|_cat", "_cat must join the hy-repr of every element", REL, 0, detail="map hy-repr")
    f, p = regs["hy.models.Symbol"]
    ctx.check(p is not None and p.is_sym("str") and "hy.models.Keyword" in regs and regs["hy.models.Keyword"][0] is f, "REPR-REG", f"{REL}|Symbol/Keyword|str", "symbols and keywords print as their own text", REL, f.line, detail="str")
    # hy.repr of a model is only reproducible when the printer's global state is restored after every call (decided under C28)
    from . import c28 as _c28
    from .. import core as _core

    ctx.rule("REPR-PROTECT", "shared with C28: the quoting flag and the cycle set are restored in a finally around the printer call")
    _core.transfer(ctx, src, _c28, {"REPR-PROTECT", "REPR-NEST"})
    ctx.assume("quoting-prefix state is decided under C28 and the sugar table under C20; textual round-trip of concrete models is not decided")
    ctx.floor("REPR-CHILDREN", 9)


SELFTESTS = [
    dict(name="FComponent prints first spec part only", file=REL, old="""      (+ " :" #* (gfor
        part (cut x 1 None)
        (if (isinstance part hy.models.String)
          part
          (hy-repr part))))""", new="""      (+ " :" (if (isinstance (get x 1) hy.models.String)
        (get x 1)
        (hy-repr (get x 1))))""", rule="REPR-CHILDREN", key="whole spec"),
    dict(name="bracket f-string text escaped", file=REL, old="""                  (if (isinstance component hy.models.String)
                      (.replace (.replace (str component)
                        "{" "{{")
                        "}" "}}")
                      (hy-repr component)))
         "]" fstring.brackets "]")""", new="""                  (if (isinstance component hy.models.String)
                      (.replace (.replace (cut (hy-repr component) 1 -1)
                        "{" "{{")
                        "}" "}}")
                      (hy-repr component)))
         "]" fstring.brackets "]")""", rule="REPR-CHILDREN", key="bracket text raw"),
    dict(name="conversion not printed", file=REL, old='    (if x.conversion f" !{x.conversion}" "")\n', new="", rule="REPR-ATTRS", key="FComponent|conversion"),
    dict(name="Set unregistered", file=REL, old='    [[set hy.models.Set] "#{...}"]', new='    [[set] "#{...}"]', rule="REPR-REG", key="hy.models.Set"),
]
