#!/venv/bin/python
"""Compute hyverif/armed_instances.json: shape-rule instances that may be strict.

With HYVERIF_ALL_STRICT=1 every failed comparison is a violation.  All checks are run that way on every
behaviour-preserving variant (the mechanical rewrites of tools/neutral_mut.py and the refactorings under /verif/neutral).
An instance (rule|key) that is decided on the reviewed tree and never fires on any of those variants is armed."""
import concurrent.futures as cf, glob, json, os, re, shutil, subprocess, sys, tempfile
sys.path.insert(0, "/verif")
sys.path.insert(0, "/verif/tools")
import neutral_mut

def run(tmp):
    out = subprocess.run(["/venv/bin/python", "-m", "hyverif", "all", "--no-write", "--repo", tmp], capture_output=True, text=True, cwd="/verif",
                         env={**os.environ, "HYVERIF_ALL_STRICT": "1", "VERIF_TIER": ""}).stdout
    fired = set()
    for l in out.splitlines():
        m = re.match(r"\S+?:\d+: \[([^\]]+)\] (.*?): ", l)
        if m:
            fired.add((m.group(1), m.group(2)))
    return fired, out

def variant(job):
    kind, a, b = job
    tmp = tempfile.mkdtemp(prefix="hyarm-", dir="/tmp")
    try:
        subprocess.run(["rsync", "-a", "--exclude", ".git", "--exclude", "__pycache__", "/repo/", tmp + "/"], check=True)
        if kind == "mech":
            p = os.path.join(tmp, b)
            new = subprocess.run(["/venv/bin/python", "/verif/tools/neutral_mut.py", "emit", a, b], capture_output=True, text=True).stdout
            if not new.strip():
                return job, set()
            open(p, "w").write(new)
        else:
            r = subprocess.run(["git", "apply", a], cwd=tmp, capture_output=True)
            if r.returncode:
                return job, set()
        fired, _ = run(tmp)
        return job, fired
    finally:
        shutil.rmtree(tmp, ignore_errors=True)

jobs = [("mech", t, f) for t in neutral_mut.TRANSFORMS if t != "reformat" for f in neutral_mut.FILES]
EXCL = [a.split("=")[1] for a in sys.argv[1:] if a.startswith("--exclude-suffix=")]
jobs += [("diff", p, "") for p in sorted(glob.glob("/verif/neutral/*/patch.diff")) if not any(os.path.dirname(p).endswith(x) for x in EXCL)]
with cf.ThreadPoolExecutor(16) as ex:
    res = list(ex.map(variant, jobs))
fired_any = {}
for job, fired in res:
    for fk in fired:
        fired_any.setdefault(fk, []).append(job[1] if job[0] == "diff" else f"{job[1]}:{job[2]}")
# instances decided today
import importlib
from hyverif import core
decided = set()
for i in range(1, 42):
    p = f"c{i:02d}"
    try:
        m = importlib.import_module(f"hyverif.props.{p}")
    except ModuleNotFoundError:
        continue
    s = core.Src("/repo", canon=bool(getattr(m, "CANON", False)))
    ctx = core.Ctx(p.upper(), lenient=True)
    ctx.src = s
    try:
        core.run_check(m, ctx, s)
    except Exception as e:
        print("!!", p, e)
    for inst in ctx.instances:
        decided.add((inst["rule"], inst["key"]))
# fired keys may carry near-miss suffixes in the message only; keys are exact
armed = sorted(f"{r}|{k}" for r, k in decided if (r, k) not in fired_any)
json.dump(armed, open("/verif/hyverif/armed_instances.json", "w"), indent=0)
print("decided", len(decided), "fired on some variant", len([1 for x in decided if x in fired_any]), "armed", len(armed))
for (r, k), where in sorted(fired_any.items()):
    print("  lenient:", r, k[:90], "<-", ", ".join(sorted(set(where)))[:120])
