"""C08 — match: grammar/handler exhaustiveness and order, result-variable discipline, capture registration, placement."""
CANON = True
STRICT = {"MATCH-RESULT-INIT"}

import ast

from .. import compq, placement, pyq
from ..pysrc import dotted, norm
from .c01 import check_rtemp

# arm name -> predicate on the normalised test of the arm
ARMS = [
    ("singleton", lambda t: "str(value) in ('None', 'True', 'False')" in t),
    ("literal", lambda t: t.startswith("isinstance(value, (String, Integer, Float, Complex, Bytes))")),
    ("wildcard", lambda t: t == "value == Symbol('_')"),
    ("capture", lambda t: t == "isinstance(value, Symbol)"),
    ("or", lambda t: "value[0] == Symbol('|')" in t),
    ("value", lambda t: "value[0] == Symbol('.')" in t),
    ("sequence", lambda t: t in ("isinstance(value, (Tuple, List))", "isinstance(value, (List, Tuple))")),
    ("star", lambda t: t == "is_unpack('iterable', value)"),
    ("mapping", lambda t: t == "isinstance(value, Dict)"),
    ("class", lambda t: t == "isinstance(value, Expression)"),
    ("keyword", lambda t: t == "isinstance(value, Keyword)"),
]
# (earlier, later): the earlier arm's test is more specific and must come first
ORDER = [("singleton", "capture"), ("wildcard", "capture"), ("literal", "capture"), ("or", "class"), ("value", "class"), ("star", "class"), ("singleton", "literal")]
NODE_OF = {"singleton": "MatchSingleton", "literal": "MatchValue", "wildcard": "MatchAs", "capture": "MatchAs", "or": "MatchOr", "value": "MatchValue",
           "sequence": "MatchSequence", "star": "MatchStar", "mapping": "MatchMapping", "class": "MatchClass", "keyword": "MatchClass"}


def check(ctx, src):
    ctx.rule("PLACEMENT", "subject at top level before the Match, each case body in its match_case.body, guards in match_case.guard or in a lifted FunctionDef (frozen table re-derived by Result-flow)")
    ctx.rule("MATCH-ARMS", "every alternative of the pattern grammar has an arm in compile_pattern, more specific tests precede more general ones, each arm builds the pattern node "
             "its alternative denotes, and the chain ends in a syntax error")
    ctx.rule("MATCH-RESULT", "the result variable is set to None unconditionally before the Match and assigned at the end of every case body; lifted guard functions are emitted before the Match")
    ctx.rule("MATCH-BIND", "captures (:as, plain symbols, #* and #** names) are validated/mangled and registered with the scope; the singleton arm only fires for symbols")
    ctx.rule("R-TEMP", "renameable temporaries (shared with C01): match must not expose its result variable")
    comp = compq.Compiler(src)
    R = compq.RM
    placement.check_placement(ctx, src, ["compile_match_expression", "compile_pattern"], "PLACEMENT", comp)
    cp = comp.rm.func("compile_pattern")
    ctx.require(cp is not None, "compile_pattern not found")
    # --- collect the if/elif chain on `value`
    # the arms: every `if` of compile_pattern (if/elif chain or guard clauses - the canonical form flattens them) that
    # tests `value`, in source order; what follows the last arm is the tail
    chain = sorted((n for n in pyq.walk_no_nested(cp) if isinstance(n, ast.If) and any(isinstance(x, ast.Name) and x.id == "value" for x in ast.walk(n.test))
                    and "assignment" not in norm(n.test)), key=lambda n: (n.lineno, n.col_offset))
    ctx.need(len(chain) >= 8, "compile_pattern: arm chain not found")
    last = chain[-1]
    tail = list(last.orelse)
    par = getattr(last, "_parent", None)
    sibs = getattr(par, "body", []) if par is not None else []
    if any(last is x for x in sibs):
        tail += sibs[[id(x) for x in sibs].index(id(last)) + 1:]
    pos = {}
    for i, arm in enumerate(chain):
        t = norm(arm.test)
        for name, pred in ARMS:
            if pred(t) and name not in pos:
                pos[name] = (i, arm)
    for name, _ in ARMS:
        ctx.check(name in pos, "MATCH-ARMS", f"{R}|compile_pattern|arm {name}", f"no arm for the `{name}` alternative of the pattern grammar was found", R, cp.lineno,
                  witness=f"a `{name}` pattern falls into a more general arm or is reported as unsupported", detail=norm(pos[name][1].test) if name in pos else "")
    for a, b in ORDER:
        if a in pos and b in pos:
            ctx.check(pos[a][0] < pos[b][0], "MATCH-ARMS", f"{R}|compile_pattern|{a} before {b}", f"the `{a}` arm comes after the more general `{b}` arm and is shadowed by it", R, pos[a][1].lineno,
                      witness=f"a `{a}` pattern is compiled as `{b}`", detail=f"{pos[a][0]} < {pos[b][0]}")
    for name, (i, arm) in pos.items():
        want = NODE_OF[name]
        built = pyq.contains(arm.body, lambda x: isinstance(x, ast.Call) and dotted(x.func) == f"asty.{want}")
        ctx.check(built is not None, "MATCH-ARMS", f"{R}|compile_pattern|arm {name} builds {want}", f"the `{name}` arm no longer builds asty.{want}", R, arm.lineno, detail=want)
    ctx.check(bool(tail) and pyq.contains(tail, lambda x: isinstance(x, ast.Call) and (dotted(x.func) or "").endswith("_syntax_error")) is not None, "MATCH-ARMS",
              f"{R}|compile_pattern|final else", "the arm chain does not end in a syntax error", R, cp.lineno, detail="_syntax_error")
    if "singleton" in pos:
        t = norm(pos["singleton"][1].test)
        ctx.check("isinstance(value, Symbol)" in t, "MATCH-BIND", f"{R}|compile_pattern|singleton only for symbols",
                  "the singleton arm tests str(value) without checking that the model is a Symbol: the string literal \"None\" becomes MatchSingleton('None')", R, pos["singleton"][1].lineno,
                  witness="(match x \"None\" 1) -> ValueError from compile()", detail=t)
    if "wildcard" in pos:
        c = pyq.contains(pos["wildcard"][1].body, lambda x: isinstance(x, ast.Call) and dotted(x.func) == "asty.MatchAs")
        ctx.check(c is not None and not c.keywords, "MATCH-BIND", f"{R}|compile_pattern|wildcard binds nothing", "`_` must compile to a MatchAs without name", R, pos["wildcard"][1].lineno, detail="MatchAs()")
    # captures registered with the scope
    for name, field in (("capture", "name"), ("star", "name"), ("mapping", "rest")):
        if name in pos:
            arm = pos[name][1]
            reg = pyq.contains(arm.body, lambda x: isinstance(x, ast.Call) and dotted(x.func) == "compiler.scope.assign" and x.args and isinstance(x.args[0], ast.Call)
                               and dotted(x.args[0].func) == f"asty.{NODE_OF[name]}")
            ctx.check(reg is not None, "MATCH-BIND", f"{R}|compile_pattern|{name} registered", f"the name bound by the `{name}` arm is not passed to compiler.scope.assign (let / nonlocal tracking misses it)",
                      R, arm.lineno, witness="(let [x 1] (match v y (setv x y)))-style programs resolve the capture to the wrong variable", detail="scope.assign(…)")
    asg = pyq.contains(cp, lambda x: isinstance(x, ast.If) and norm(x.test) == "assignment is not None")
    ctx.need(asg is not None, "compile_pattern: the :as arm was not found")
    reg = pyq.contains(asg.body, lambda x: isinstance(x, ast.Call) and dotted(x.func) == "compiler.scope.assign" and "asty.MatchAs" in norm(x))
    ctx.check(reg is not None, "MATCH-BIND", f"{R}|compile_pattern|:as registered", "the :as capture is not registered with the scope", R, asg.lineno, detail="scope.assign(MatchAs)")
    # parallel lists
    for name, a, b in (("mapping", "keys", "patterns"), ("class", "kwd_attrs", "kwd_patterns")):
        if name in pos:
            arm = pos[name][1]
            z = pyq.contains(arm.body, lambda x: isinstance(x, ast.Assign) and isinstance(x.targets[0], ast.Tuple) and "zip(*" in norm(x.value))
            ctx.check(z is not None, "MATCH-ARMS", f"{R}|compile_pattern|{name} parallel lists", f"{a}/{b} are no longer split from one list of pairs (their lengths can differ)", R, arm.lineno,
                      detail=norm(z) if z is not None else "")

    # --- compile_match_expression --------------------------------------------------------------
    m = comp.rm.func("compile_match_expression")
    ctx.require(m is not None, "compile_match_expression not found")
    rvdef = pyq.contains(m, lambda n: isinstance(n, ast.Assign) and isinstance(n.targets[0], ast.Name) and isinstance(n.value, ast.Call) and dotted(n.value.func) == "asty.Name" and "get_anon_var" in norm(n.value))
    ctx.need(rvdef is not None, "compile_match_expression: result variable not found")
    rv = rvdef.targets[0].id

    def assigns_rv(c):
        return isinstance(c, ast.Call) and dotted(c.func) == "asty.Assign" and any(k.arg == "targets" and isinstance(k.value, ast.List) and len(k.value.elts) == 1 and isinstance(k.value.elts[0], ast.Name)
                                                                                   and k.value.elts[0].id == rv for k in c.keywords)

    inits = [c for c in ast.walk(m) if assigns_rv(c) and any(k.arg == "value" and isinstance(k.value, ast.Call) and dotted(k.value.func) == "asty.Constant"
                                                             and any(kk.arg == "value" and isinstance(kk.value, ast.Constant) and kk.value.value is None for kk in k.value.keywords) for k in c.keywords)]
    mt = [st for st in ast.walk(m) if isinstance(st, ast.Call) and dotted(st.func) == "asty.Match"]
    ctx.need(len(mt) == 1, "compile_match_expression: the Match construction was not found")
    uncond = [c for c in inits if not pyq.guards(c, m, siblings=False)]
    ctx.decide("MATCH-RESULT", f"{R}|compile_match_expression|init-none", None if not inits else bool(uncond) and all((c.lineno, c.col_offset) < (mt[0].lineno, mt[0].col_offset) for c in uncond),
               "the result variable is not set to None unconditionally before the Match (when no case matches, the form must return None)" + (f"; it is initialised only under `{[str(a) for a in pyq.atoms(inits[0], m)]}`" if inits and not uncond else ""), R, m.lineno,
               witness="(match 5 None 1) raises NameError; (setv r 0) (setv r (match 5 None 1)) keeps 0", detail="ret += Assign(return_var, None) at top level before Match")
    subj = pyq.contains(mt[0], lambda x: isinstance(x, ast.keyword) and x.arg == "subject")
    ctx.check(subj is not None and norm(subj.value) == "subject.force_expr", "MATCH-RESULT", f"{R}|compile_match_expression|subject", "Match.subject is not the compiled subject", R, mt[0].lineno, detail="subject.force_expr")
    loop = next((st for st in m.body if isinstance(st, ast.For) and norm(st.iter) == "clauses"), None)
    ctx.need(loop is not None, "compile_match_expression: clause loop not found")
    ca = [st for st in loop.body if isinstance(st, ast.AugAssign) and norm(st.target) == "body" and "asty.Assign" in norm(st.value) and "targets=[return_var]" in norm(st.value)]
    ctx.check(len(ca) == 1 and "value=body.force_expr" in norm(ca[0].value), "MATCH-RESULT", f"{R}|compile_match_expression|case-assign",
              "a case body no longer ends by storing its value in the result variable (unconditionally, as a direct statement of the clause loop)", R, loop.lineno,
              witness="(setv r (match v 1 (if a (do (f) 1) 2))) gives None", detail="body += Assign(return_var, body.force_expr)")
    lift = [st for st in m.body if isinstance(st, ast.For) and norm(st.iter) == "lifted_if_defs"]
    ctx.check(len(lift) == 1 and lift[0].lineno < mt[0].lineno, "MATCH-RESULT", f"{R}|compile_match_expression|guards-before-match",
              "lifted guard functions are not emitted before the Match statement", R, m.lineno, witness="(match x 1 :if (do (f) True) 2) -> NameError for the guard function", detail="before Match")
    g = pyq.contains(loop, lambda x: isinstance(x, ast.Call) and dotted(x.func) == "ast.match_case")
    ctx.need(g is not None, "match_case construction not found")
    kw = {k.arg: norm(k.value) for k in g.keywords}
    ctx.check(kw.get("pattern") == "pattern" and kw.get("body") == "body" and kw.get("guard") == "guard.force_expr if guard else None", "MATCH-RESULT", f"{R}|compile_match_expression|case-fields",
              f"match_case fields are {kw}", R, g.lineno, detail=str(kw))
    check_rtemp(ctx, comp)
    ctx.floor("MATCH-ARMS", 25)


_R = compq.RM
SELFTESTS = [
    dict(name="init None skipped for trailing symbol", file=_R,
         old="    ret += asty.Assign(\n        expr, targets=[return_var], value=asty.Constant(expr, value=None)\n    )\n    if not match_cases:",
         new="    if not clauses or not isinstance(clauses[-1][0], Symbol):\n        ret += asty.Assign(\n            expr, targets=[return_var], value=asty.Constant(expr, value=None)\n        )\n    if not match_cases:",
         rule="MATCH-RESULT", key="init-none"),
    dict(name="case renames instead of assigning", file=_R, old="        body += asty.Assign(pattern[0], targets=[return_var], value=body.force_expr)\n",
         new="        if body.temp_variables:\n            body.rename(compiler, return_var.id)\n        else:\n            body += asty.Assign(pattern[0], targets=[return_var], value=body.force_expr)\n",
         rule="MATCH-RESULT", key="case-assign"),
    dict(name="capture arm before wildcard", file=_R, old="    elif value == Symbol(\"_\"):\n        return asty.MatchAs(value)\n    elif isinstance(value, Symbol):\n        return compiler.scope.assign(asty.MatchAs(value, name=mangle(value)))",
         new="    elif isinstance(value, Symbol):\n        return compiler.scope.assign(asty.MatchAs(value, name=mangle(value)))\n    elif value == Symbol(\"_\"):\n        return asty.MatchAs(value)",
         rule="MATCH-ARMS", key="wildcard before capture"),
    dict(name="match exposes result var", file=_R, old="    returnable = Result(\n        expr=asty.Name(expr, id=return_var.id, ctx=ast.Load()),\n    )\n    ret = Result() + subject",
         new="    returnable = Result(\n        expr=asty.Name(expr, id=return_var.id, ctx=ast.Load()),\n        temp_variables=[return_var],\n    )\n    ret = Result() + subject", rule="R-TEMP", key="compile_match_expression"),
    dict(name="singleton for any model", file=_R, old='    if isinstance(value, Symbol) and str(value) in ("None", "True", "False"):', new='    if str(value) in ("None", "True", "False"):', rule="MATCH-BIND", key="singleton"),
]
