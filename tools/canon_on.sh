#!/bin/bash
# usage: canon_on.sh cNN  -- insert CANON = True into the property module if missing
f=/verif/hyverif/props/$1.py
grep -q "^CANON = True" $f || /venv/bin/python - $f <<'PY'
import sys
p=sys.argv[1]
lines=open(p).read().split("\n")
for i,l in enumerate(lines):
    if l.startswith("import ") or l.startswith("from "):
        lines.insert(i,"CANON = True\n"); break
open(p,'w').write("\n".join(lines))
PY
