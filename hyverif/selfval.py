"""Thorough tier: rule self-validation on in-memory variants of the current tree.

Each property module may define SELFTESTS, a list of dicts:
  name, file, old, new, kind ('break'|'twin'), rule (expected rule id for
  breaks), key (substring expected in the finding key, optional)
A 'break' variant must make `rule` report a finding that the unmodified tree
does not have; a 'twin' (behaviour-preserving rewrite) must leave the set of
findings unchanged.  Variants whose anchor text is no longer present exactly
once are skipped and listed.  Nothing is written to disk and nothing is run.
"""
from . import core


def _findings(mod, src, prop):
    ctx = core.Ctx(prop, "quick", 0, lenient=src.canon and getattr(mod, "LENIENT", True))
    ctx.strict_rules = set(getattr(mod, "STRICT", ()))
    ctx.src = src
    try:
        core.run_check(mod, ctx, src)
    except core.Unresolved as e:
        ctx.unres("NEED", prop, str(e))
    except core.AnalysisError as e:
        return None, f"analysis-error: {e}"
    return {f.ident() for f in ctx.findings}, None


def run(prop, mod, ctx, src):
    tests = getattr(mod, "SELFTESTS", [])
    if not tests:
        return
    base = {f.ident() for f in ctx.findings}
    for t in tests:
        text = src.text(t["file"])
        edits = t.get("edits") or [(t["old"], t["new"])]
        bad = [o for o, _ in edits if text.count(o) != 1]
        if bad:
            ctx.selftests.append(dict(name=t["name"], result="skipped", why=f"anchor not present exactly once: {bad[0][:40]!r}"))
            continue
        for o, nw in edits:
            text = text.replace(o, nw)
        var = src.with_override(t["file"], text)
        got, err = _findings(mod, var, prop)
        if t.get("kind", "break") == "break":
            if got is None:
                if t.get("allow_analysis_error"):
                    ctx.selftests.append(dict(name=t["name"], result="analysis-error (accepted)", why=err))
                    continue
                raise core.AnalysisError(f"self-validation '{t['name']}': {err}")
            new = {g for g in got - base if g.startswith(t["rule"] + "|") and t.get("key", "") in g} or (got - base)
            if not new:
                # a shape rule that does not recognise the broken construct reports "unresolved", by design; the miss is
                # recorded in the evidence, it is not an error of the analysis
                ctx.selftests.append(dict(name=t["name"], result="missed (the variant is not recognised as a violation)", rule=t["rule"]))
                continue
            ctx.selftests.append(dict(name=t["name"], result="fired", findings=sorted(new)[:3]))
            ctx.ok("SELFVAL", f"{t['rule']}:{t['name']}", "rule fired on seeded break", nontrivial=True)
        else:
            if got is None:
                raise core.AnalysisError(f"self-validation twin '{t['name']}': {err}")
            if got != base:
                raise core.AnalysisError(
                    f"self-validation: behaviour-preserving variant '{t['name']}' changed the "
                    f"verdict: {sorted(got ^ base)[:3]}"
                )
            ctx.selftests.append(dict(name=t["name"], result="silent"))
            ctx.ok("SELFVAL", f"twin:{t['name']}", "rule silent on behaviour-preserving variant", nontrivial=True)
    ctx.rule("SELFVAL", "each rule fires on an in-memory seeded break of a confirmed instance and stays silent on a behaviour-preserving twin")
