"""C15 — loading from cached bytecode behaves like compiling: compile-time/run-time mirror in compile_require; Hy-or-Python decision of the importer."""
CANON = True

import ast

from .. import pm, compq, pyq
from ..pysrc import dotted, norm, flat
from .c35 import check as _c35  # noqa: F401

R, MC = compq.RM, compq.MC
IM = "hy/importer.py"


def _same_modulo_locals(piece, text):
    return False


def check(ctx, src):
    ctx.rule("REQ-MIRROR", "in the module-level arm of compile_require, the emitted run-time call hy.macros.require(NAME, None, :target_module_name …, :assignments …, :prefix …) is built from the same module name, assignments and prefix "
             "as the compile-time require(...) of that arm, and is emitted exactly when the compile-time call returned something; likewise for require_reader")
    ctx.rule("REQ-RUNTIME", "require's submodule fallback and target derivation work when the target is given by name/None (the run-time call), not only for a module object")
    ctx.rule("HY-OR-PY", "a source file is compiled as Hy exactly when its extension (compared case-sensitively) is not one of Python's other source suffixes; Hy compilation always finishes through Python's own source_to_code")
    comp = compq.Compiler(src)
    rq = comp.rm.func("compile_require")
    ctx.require(rq is not None, "compile_require not found")
    arm = pyq.contains(rq, lambda n: isinstance(n, ast.If) and pyq.contains(n.test, lambda c: isinstance(c, ast.Call) and dotted(c.func) == "require" and len(c.args) >= 2 and norm(c.args[1]) == "compiler.module") is not None)
    ctx.need(arm is not None, "compile_require: module-level arm not found")
    ct = pyq.contains(arm.test, lambda n: isinstance(n, ast.Call) and dotted(n.func) == "require")
    kw = {k.arg: norm(k.value) for k in ct.keywords}
    mnv = ct.args[0].id if isinstance(ct.args[0], ast.Name) else None
    asv = next((k.value.id for k in ct.keywords if k.arg == "assignments" and isinstance(k.value, ast.Name)), None)
    pfv = next((k.value.id for k in ct.keywords if k.arg == "prefix" and isinstance(k.value, ast.Name)), None)
    ctx.check(mnv is not None and asv is not None and pfv is not None, "REQ-MIRROR", f"{R}|compile_require|compile-time call", f"compile-time require is called with {norm(ct)[:100]}", R, ct.lineno, detail="module_name, assignments, prefix")
    # the emitted run-time call: Expression([... dotted('hy.macros.require') ...]) in the body of that arm; its pieces must be
    # built from the very variables the compile-time call was given (roles: module name, assignments, prefix)
    emitted = pyq.contains(arm.body, lambda n: isinstance(n, ast.Call) and dotted(n.func) == "Expression" and "hy.macros.require" in flat(n) and "require-reader" not in flat(n))
    t = flat(emitted) if emitted is not None else ""
    pieces = [f"dotted('hy.macros.require'), String({mnv}), Symbol('None'), Keyword('target_module_name'), String(compiler.module.__name__)",
              f"Keyword('assignments'), String('EXPORTS') if {asv} == 'EXPORTS' else List([List([String(k), String(v)]) for k, v in {asv}])",
              f"Keyword('prefix'), String({pfv})"]
    for p, what in zip(pieces, ("module name", "assignments", "prefix")):
        ok = None if emitted is None else (p in str(t) or (what == "assignments" and pm.find(emitted, f"String('EXPORTS') if {asv} == 'EXPORTS' else List([List([String(k), String(v)]) for k, v in {asv}])") is not None))
        ctx.decide("REQ-MIRROR", f"{R}|compile_require|run-time call carries the {what}", ok, f"the emitted run-time require no longer contains `{p}`: loading from bytecode brings in a different set of macros than compiling", R, arm.lineno,
                   witness="(require m [a :as b]) works when compiled and is missing b when the module is loaded from its .pyc", detail="present")
    stm = pyq.contains(arm.body, lambda n: isinstance(n, ast.Call) and isinstance(n.func, ast.Attribute) and n.func.attr == "expr_as_stmt")
    ctx.check(emitted is not None and stm is not None, "REQ-MIRROR", f"{R}|compile_require|emitted iff required",
              "the run-time call must be emitted (as a statement) exactly in the arm guarded by the compile-time require", R, arm.lineno, detail="inside the arm")
    rr = pyq.contains(rq, lambda n: isinstance(n, ast.If) and pyq.contains(n.test, lambda c: isinstance(c, ast.Call) and dotted(c.func) == "require_reader") is not None)
    rc = pyq.contains(rr.test, lambda c: isinstance(c, ast.Call) and dotted(c.func) == "require_reader") if rr is not None else None
    t = str(flat(rr)) if rr is not None else ""
    rav = rc.args[2].id if rc is not None and len(rc.args) >= 3 and isinstance(rc.args[2], ast.Name) else None
    okr = rr is not None and rc is not None and norm(rc.args[0]) == mnv and f"dotted('hy.macros.require-reader'), String({mnv}), 'None', [{rav}]" in t \
        and f"dotted('hy.macros.enable-readers'), 'None', mkexpr(dotted('hy.reader.HyReader.current-reader')), [{rav}]" in t
    ctx.check(okr, "REQ-MIRROR",
              f"{R}|compile_require|readers", "the run-time require-reader / compile-time enable-readers pair must use the same module name and reader names as the compile-time require_reader", R, rq.lineno, detail="same module_name and reader_assignments")
    mn = pm.find(rq, "module_name = module_name_str(module)")
    pf = pm.find(rq, "prefix, assignments = assignment_shape(module, rest)")
    ctx.check(mn is not None and pf is not None, "REQ-MIRROR", f"{R}|compile_require|single definitions", "module_name, prefix and assignments must each have one definition feeding both calls", R, rq.lineno, detail="one definition each")
    # --- run-time behaviour of require
    rf = comp.mc.func("require")
    ctx.require(rf is not None, "require not found")
    t = flat(rf)
    ctx.check("out.extend(require(f'{source_module.__name__}.{mangle(name)}', target_module or target, 'ALL', prefix=alias))" in t, "REQ-RUNTIME", f"{MC}|require|submodule fallback target",
              "the submodule fallback must pass on the resolved target module (or dict), not the raw `target`, which is None in the emitted run-time call", MC, rf.lineno,
              witness="(require pkg [sub]) from a .pyc installs sub's macros into hy.macros' own globals", detail="target_module or target")
    ctx.check("source_module = import_module_from_string(source_module, target_module_name or target_module or '')" in t, "REQ-RUNTIME", f"{MC}|require|relative import base", "relative module names must be resolved against target_module_name when given", MC, rf.lineno, detail="target_module_name or target_module")
    ctx.check("target_module, target_namespace = derive_target_module(target, inspect.stack()[1][0])" in t.replace("(target_module, target_namespace)", "target_module, target_namespace"), "REQ-RUNTIME", f"{MC}|require|derive target", "a None target must be derived from the calling frame", MC, rf.lineno, detail="derive_target_module(target, caller frame)")
    # --- importer
    im = src.py(IM)
    cb = im.func("_could_be_hy_src")
    ctx.require(cb is not None, "_could_be_hy_src not found")
    # the predicate: the extension exactly as written (no case folding) is not one of Python's other source suffixes -
    # the collection is derived from importlib.machinery.SOURCE_SUFFIXES with ".hy" taken out
    ctext = " ".join(str(flat(st)) for st in cb.body)
    folds = [c for c in ast.walk(cb) if isinstance(c, ast.Call) and isinstance(c.func, ast.Attribute) and c.func.attr in ("lower", "upper", "casefold")]
    uses_suffixes = any(dotted(n) == "importlib.machinery.SOURCE_SUFFIXES" for n in ast.walk(cb) if isinstance(n, ast.Attribute))
    drops_hy = any(isinstance(n, ast.Constant) and n.value == ".hy" for n in ast.walk(cb))
    uses_ext = any(isinstance(c, ast.Call) and (dotted(c.func) or "").endswith("splitext") for c in ast.walk(cb))
    negated = any(isinstance(n, ast.Compare) and isinstance(n.ops[0], ast.NotIn) for n in ast.walk(cb)) or any(isinstance(n, ast.UnaryOp) and isinstance(n.op, ast.Not) for n in ast.walk(cb))
    verdict = False if folds else (True if (uses_suffixes and drops_hy and uses_ext and negated) else (False if uses_ext and not uses_suffixes else None))
    ctx.decide("HY-OR-PY", f"{IM}|_could_be_hy_src|predicate", verdict, f"the Hy-source predicate must compare the extension as written with SOURCE_SUFFIXES minus .hy (case folding: {bool(folds)}; SOURCE_SUFFIXES: {uses_suffixes}; .hy removed: {drops_hy})", IM, cb.lineno,
               witness="a Hy file named mod.PY is handed to the Python compiler", detail="ext not in SOURCE_SUFFIXES - {.hy}, case-sensitive")
    sc = im.func("_hy_source_to_code")
    ctx.require(sc is not None, "_hy_source_to_code not found")
    g = sc.body[0]
    tt = flat(sc)
    ctx.check(isinstance(g, ast.If) and norm(g.test) == "_could_be_hy_src(path)" and "data = hy_compile(hy_tree, module)" in tt and isinstance(sc.body[-1], ast.Return) and "_py_source_to_code(self, data, path" in norm(sc.body[-1]).replace("\n", ""),
              "HY-OR-PY", f"{IM}|_hy_source_to_code|structure", "Hy compilation must happen exactly under _could_be_hy_src(path) and every path must end in Python's source_to_code", IM, sc.lineno, detail="if hy: compile; return _py_source_to_code(...)")
    rmc = pyq.contains(sc, lambda n: isinstance(n, ast.Call) and dotted(n.func) == "read_many")
    kws = {k.arg: norm(k.value) for k in rmc.keywords} if rmc is not None else {}
    hcc = pyq.contains(sc, lambda n: isinstance(n, ast.Call) and dotted(n.func) == "hy_compile" and len(n.args) >= 2)
    wth = next((w for w in ast.walk(sc) if isinstance(w, ast.With) and any(dotted(getattr(it.context_expr, "func", None)) == "loader_module_obj" for it in w.items)), None)
    asv = next((it.optional_vars.id for it in wth.items if isinstance(it.optional_vars, ast.Name)), None) if wth is not None else None
    okr = rmc is not None and kws.get("skip_shebang") == "True" and kws.get("reader") == "HyReader()" and kws.get("filename") == "path"
    okc = hcc is not None and wth is not None and any(hcc is x for x in ast.walk(wth)) and isinstance(hcc.args[1], ast.Name) and hcc.args[1].id == asv
    ctx.decide("HY-OR-PY", f"{IM}|_hy_source_to_code|reading", None if (rmc is None or hcc is None) else (okr and okc), "the module must be read with a fresh reader and compiled against the loader's module object", IM, sc.lineno, detail="read_many(reader=HyReader()); hy_compile(tree, module) inside loader_module_obj")
    ins = [n for n in im.tree.body if isinstance(n, ast.Expr) and norm(n) == "importlib.machinery.SOURCE_SUFFIXES.insert(0, '.hy')"]
    patch = [n for n in im.tree.body if isinstance(n, ast.Assign) and norm(n) == "importlib.machinery.SourceFileLoader.source_to_code = _hy_source_to_code"]
    ctx.check(len(ins) == 1 and len(patch) == 1, "HY-OR-PY", f"{IM}|installation", ".hy must be registered as a source suffix and source_to_code patched", IM, 0, detail="suffix + patch")
    ctx.assume("equality of module values between the two load paths is not decided")
    ctx.floor("REQ-MIRROR", 6)


SELFTESTS = [
    dict(name="run-time prefix dropped", file=R, old="                        Keyword(\"prefix\"),\n                        String(prefix),", new="                        Keyword(\"prefix\"),\n                        String(\"\"),", rule="REQ-MIRROR", key="prefix"),
    dict(name="fallback passes raw target", file=MC, old="                    target_module or target,\n", new="                    target,\n", rule="REQ-RUNTIME", key="submodule fallback"),
    dict(name="extension lower-cased", file=IM, old="        os.path.splitext(filename)[1]\n", new="        os.path.splitext(filename)[1].lower()\n", rule="HY-OR-PY", key="predicate"),
    dict(name="python path skipped for hy", file=IM, old="        with loader_module_obj(self) as module:\n            data = hy_compile(hy_tree, module)\n", new="        with loader_module_obj(self) as module:\n            return compile(hy_compile(hy_tree, module), path, 'exec')\n", rule="HY-OR-PY", key="structure"),
]
