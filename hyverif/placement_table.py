"""Frozen placement table: for every compile function, where the statements ('stmts') and the value ('value') of each
sub-form slot end up (node class.field, or 'top' = hoisted to the level of the construct itself).

Seeded from the tree by tools/gen_placement_table.py and then reviewed entry by entry against docs/semantics.rst and
docs/api.rst.  Role labels are `<slot index>:<parameter name>`; only the index is compared, so renaming a parameter is
harmless.  KNOWN_BAD lists reviewed entries that are defects (reported, and listed in known_findings.json)."""

TABLE = {
    '_compile_branch': [
        ('0:exprs', 'stmts', 'top'),
    ],
    '_compile_collect': [
        ('0:exprs', 'stmts', 'top'),
        ('0:exprs', 'value', 'keyword.value'),
    ],
    'compile_arguments_set': [
        ('0:decls', 'stmts', 'top'),
        ('0:decls', 'value', 'arg.annotation'),
    ],
    'compile_assert_expression': [
        ('0:test', 'stmts', 'If.body'),
        ('0:test', 'value', 'Assert.test'),
        ('0:test', 'value', 'If.test'),
        ('0:test', 'value', 'UnaryOp.operand'),
        ('0:test', 'value', 'top'),
        ('1:msg', 'stmts', 'If.body'),
        ('1:msg', 'value', 'Assert.msg'),
        ('1:msg', 'value', 'top'),
    ],
    'compile_assign': [
        ('0:ann', 'stmts', 'top'),
        ('0:ann', 'value', 'AnnAssign.annotation'),
        ('0:ann', 'value', 'AnnAssign.value'),
        ('0:ann', 'value', 'Assign.value'),
        ('0:ann', 'value', 'NamedExpr.value'),
        ('2:value', 'stmts', 'top'),
        ('2:value', 'value', 'AnnAssign.value'),
        ('2:value', 'value', 'Assign.value'),
        ('2:value', 'value', 'NamedExpr.value'),
    ],
    'compile_attribute_access': [
        ('0:invocant', 'stmts', 'top'),
        ('0:invocant', 'value', 'Attribute.value'),
        ('0:invocant', 'value', 'Call.func'),
        ('0:invocant', 'value', 'Subscript.value'),
        ('1:keys', 'stmts', 'top'),
        ('1:keys', 'value', 'Attribute.value'),
        ('1:keys', 'value', 'Call.func'),
        ('1:keys', 'value', 'Index.value'),
        ('1:keys', 'value', 'Subscript.value'),
    ],
    'compile_augassign_expression': [
        ('0:target', 'stmts', 'top'),
        ('1:values', 'stmts', 'top'),
        ('1:values', 'value', 'AugAssign.value'),
    ],
    'compile_basic_annotation': [
        ('1:ann', 'stmts', 'top'),
        ('1:ann', 'value', 'AnnAssign.annotation'),
        ('1:ann', 'value', 'AnnAssign.value'),
        ('1:ann', 'value', 'Assign.value'),
        ('1:ann', 'value', 'NamedExpr.value'),
    ],
    'compile_break_or_continue_expression': [
    ],
    'compile_chained_comparison': [
        ('0:arg1', 'stmts', 'top'),
        ('0:arg1', 'value', 'Compare.left'),
        ('1:args', 'stmts', 'top'),
    ],
    'compile_class_expression': [
        ('0:decorators', 'stmts', 'top'),
        ('1:tp', 'value', 'TypeVar.bound'),
        ('3:rest', 'stmts', 'ClassDef.body'),
        ('3:rest', 'stmts', 'top'),
    ],
    'compile_compare_op_expression': [
        ('0:args', 'stmts', 'top'),
    ],
    'compile_comprehension': [
        ('0:parts', 'stmts', 'AsyncFor.body'),
        ('0:parts', 'stmts', 'For.body'),
        ('0:parts', 'stmts', 'If.body'),
        ('0:parts', 'value', 'Assign.value'),
        ('0:parts', 'value', 'AsyncFor.iter'),
        ('0:parts', 'value', 'Attribute.value'),
        ('0:parts', 'value', 'Call.func'),
        ('0:parts', 'value', 'DictComp.elt'),
        ('0:parts', 'value', 'DictComp.key'),
        ('0:parts', 'value', 'DictComp.value'),
        ('0:parts', 'value', 'Expr.value'),
        ('0:parts', 'value', 'For.elt'),
        ('0:parts', 'value', 'For.iter'),
        ('0:parts', 'value', 'GeneratorExp.elt'),
        ('0:parts', 'value', 'If.test'),
        ('0:parts', 'value', 'ListComp.elt'),
        ('0:parts', 'value', 'SetComp.elt'),
        ('0:parts', 'value', 'Tuple.elts'),
        ('0:parts', 'value', 'Yield.value'),
        ('0:parts', 'value', 'top'),
        ('1:final', 'value', 'Attribute.value'),
        ('1:final', 'value', 'Call.func'),
        ('1:final', 'value', 'DictComp.elt'),
        ('1:final', 'value', 'DictComp.key'),
        ('1:final', 'value', 'DictComp.value'),
        ('1:final', 'value', 'Expr.value'),
        ('1:final', 'value', 'For.elt'),
        ('1:final', 'value', 'GeneratorExp.elt'),
        ('1:final', 'value', 'ListComp.elt'),
        ('1:final', 'value', 'SetComp.elt'),
        ('1:final', 'value', 'Tuple.elts'),
        ('1:final', 'value', 'Yield.value'),
        ('1:final', 'value', 'top'),
    ],
    'compile_cut_expression': [
    ],
    'compile_def_expression': [
        ('0:decls', 'stmts', 'top'),
        ('0:decls', 'value', 'AnnAssign.annotation'),
        ('0:decls', 'value', 'AnnAssign.value'),
        ('0:decls', 'value', 'Assign.value'),
        ('0:decls', 'value', 'NamedExpr.value'),
    ],
    'compile_deftype': [
        ('0:tp', 'value', 'TypeVar.bound'),
        ('2:value', 'stmts', 'top'),
        ('2:value', 'value', 'TypeAlias.value'),
    ],
    'compile_del_expression': [
        ('0:args', 'stmts', 'top'),
    ],
    'compile_dict': [
        ('0:m', 'stmts', 'top'),
    ],
    'compile_do': [
        ('0:body', 'stmts', 'top'),
    ],
    'compile_eval_foo_compile': [
        ('0:body', 'stmts', 'top'),
    ],
    'compile_expression': [
        ('0:expr', 'stmts', 'top'),
        ('0:expr', 'value', 'Call.func'),
    ],
    'compile_fcomponent': [
        ('0:fcomponent', 'stmts', 'top'),
        ('0:fcomponent', 'value', 'FormattedValue.value'),
    ],
    'compile_fstring': [
        ('0:fstring', 'stmts', 'top'),
    ],
    'compile_function_def': [
        ('1:decorators', 'stmts', 'top'),
        ('2:tp', 'value', 'TypeVar.bound'),
        ('3:name', 'stmts', 'top'),
        ('3:name', 'value', 'AsyncFunctionDef.returns'),
        ('3:name', 'value', 'FunctionDef.returns'),
        ('4:params', 'stmts', 'top'),
        ('4:params', 'value', 'arg.annotation'),
        ('5:body', 'stmts', 'AsyncFunctionDef.body'),
        ('5:body', 'stmts', 'FunctionDef.body'),
        ('5:body', 'value', 'Expr.value'),
        ('5:body', 'value', 'Return.value'),
    ],
    'compile_function_lambda': [
        ('1:tp', 'value', 'TypeVar.bound'),
        ('2:params', 'stmts', 'top'),
        ('2:params', 'value', 'AsyncFunctionDef.returns'),
        ('2:params', 'value', 'FunctionDef.returns'),
        ('2:params', 'value', 'arg.annotation'),
        ('3:body', 'stmts', 'AsyncFunctionDef.body'),
        ('3:body', 'stmts', 'FunctionDef.body'),
        ('3:body', 'value', 'Expr.value'),
        ('3:body', 'value', 'Lambda.body'),
        ('3:body', 'value', 'Return.value'),
    ],
    'compile_function_node': [
        ('1:tp', 'value', 'TypeVar.bound'),
        ('3:returns', 'stmts', 'top'),
        ('3:returns', 'value', 'AsyncFunctionDef.returns'),
        ('3:returns', 'value', 'FunctionDef.returns'),
        ('4:body', 'stmts', 'AsyncFunctionDef.body'),
        ('4:body', 'stmts', 'FunctionDef.body'),
        ('4:body', 'value', 'Expr.value'),
        ('4:body', 'value', 'Return.value'),
    ],
    'compile_global_or_nonlocal': [
    ],
    'compile_if': [
        ('0:cond', 'stmts', 'top'),
        ('0:cond', 'value', 'If.test'),
        ('0:cond', 'value', 'IfExp.test'),
        ('1:body', 'stmts', 'If.body'),
        ('1:body', 'stmts', 'top'),
        ('1:body', 'value', 'Assign.value'),
        ('1:body', 'value', 'IfExp.body'),
        ('2:orel_expr', 'stmts', 'If.orelse'),
        ('2:orel_expr', 'stmts', 'top'),
        ('2:orel_expr', 'value', 'Assign.value'),
        ('2:orel_expr', 'value', 'IfExp.orelse'),
    ],
    'compile_import': [
    ],
    'compile_index_expression': [
        ('0:obj', 'stmts', 'top'),
        ('0:obj', 'value', 'Subscript.value'),
        ('1:indices', 'stmts', 'top'),
        ('1:indices', 'value', 'Subscript.value'),
    ],
    'compile_inline_python': [
    ],
    'compile_lambda_list': [
        ('0:params', 'stmts', 'top'),
        ('0:params', 'value', 'arg.annotation'),
    ],
    'compile_let': [
        ('0:bindings', 'stmts', 'top'),
        ('0:bindings', 'value', 'AnnAssign.annotation'),
        ('0:bindings', 'value', 'AnnAssign.value'),
        ('0:bindings', 'value', 'Assign.value'),
        ('0:bindings', 'value', 'NamedExpr.value'),
        ('1:body', 'stmts', 'top'),
    ],
    'compile_list': [
        ('0:expression', 'stmts', 'top'),
    ],
    'compile_logical_or_and_and_operator': [
        ('0:args', 'stmts', 'If.body'),
        ('0:args', 'stmts', 'top'),
        ('0:args', 'value', 'BoolOp.values'),
    ],
    'compile_macro_def': [
        ('0:name', 'stmts', 'top'),
        ('2:body', 'stmts', 'top'),
    ],
    'compile_match_expression': [
        ('0:subject', 'stmts', 'top'),
        ('0:subject', 'value', 'Match.subject'),
        ('1:clauses', 'stmts', 'FunctionDef.body'),
        ('1:clauses', 'stmts', 'match_case.body'),
        ('1:clauses', 'value', 'Assign.value'),
        ('1:clauses', 'value', 'MatchClass.cls'),
        ('1:clauses', 'value', 'MatchValue.value'),
        ('1:clauses', 'value', 'Return.value'),
        ('1:clauses', 'value', 'match_case.guard'),
    ],
    'compile_maths_expression': [
        ('0:args', 'stmts', 'top'),
        ('0:args', 'value', 'BinOp.left'),
        ('0:args', 'value', 'BinOp.right'),
        ('0:args', 'value', 'UnaryOp.operand'),
    ],
    'compile_pattern': [
        ('0:pattern', 'value', 'MatchClass.cls'),
        ('0:pattern', 'value', 'MatchValue.value'),
        ('0:pattern', 'value', 'top'),
    ],
    'compile_placeholder': [
    ],
    'compile_pragma': [
    ],
    'compile_quote': [
        ('0:arg', 'stmts', 'top'),
    ],
    'compile_raise_expression': [
        ('0:exc', 'stmts', 'top'),
        ('0:exc', 'value', 'Raise.exc'),
        ('1:cause', 'stmts', 'top'),
        ('1:cause', 'value', 'Raise.cause'),
    ],
    'compile_require': [
    ],
    'compile_return': [
        ('0:arg', 'stmts', 'top'),
        ('0:arg', 'value', 'Return.value'),
    ],
    'compile_try_expression': [
        ('0:body', 'stmts', 'Try.body'),
        ('0:body', 'stmts', 'TryStar.body'),
        ('0:body', 'stmts', 'top'),
        ('0:body', 'value', 'Assign.value'),
        ('1:catchers', 'stmts', 'ExceptHandler.body'),
        ('1:catchers', 'stmts', 'top'),
        ('1:catchers', 'value', 'Assign.value'),
        ('1:catchers', 'value', 'ExceptHandler.type'),
        ('2:orelse', 'stmts', 'Try.body'),
        ('2:orelse', 'stmts', 'Try.orelse'),
        ('2:orelse', 'stmts', 'TryStar.body'),
        ('2:orelse', 'stmts', 'TryStar.orelse'),
        ('2:orelse', 'stmts', 'top'),
        ('2:orelse', 'value', 'Assign.value'),
        ('3:finalbody', 'stmts', 'Try.finalbody'),
        ('3:finalbody', 'stmts', 'TryStar.finalbody'),
    ],
    'compile_tuple': [
        ('0:expression', 'stmts', 'top'),
    ],
    'compile_unary_operator': [
        ('0:arg', 'stmts', 'top'),
        ('0:arg', 'value', 'UnaryOp.operand'),
    ],
    'compile_unpack_iterable': [
        ('0:arg', 'stmts', 'top'),
        ('0:arg', 'value', 'Starred.value'),
    ],
    'compile_while_expression': [
        ('0:cond', 'stmts', 'While.body'),
        ('0:cond', 'stmts', 'top'),
        ('0:cond', 'value', 'Assign.value'),
        ('0:cond', 'value', 'While.test'),
        ('1:body', 'stmts', 'If.body'),
        ('1:body', 'stmts', 'While.body'),
        ('2:else_expr', 'stmts', 'While.orelse'),
    ],
    'compile_with_expression': [
        ('0:args', 'stmts', 'AsyncWith.body'),
        ('0:args', 'stmts', 'With.body'),
        ('0:args', 'stmts', 'top'),
        ('0:args', 'value', 'Assign.value'),
        ('0:args', 'value', 'withitem.context_expr'),
        ('1:body', 'stmts', 'AsyncWith.body'),
        ('1:body', 'stmts', 'With.body'),
        ('1:body', 'value', 'Assign.value'),
    ],
    'compile_yield_expression': [
        ('0:args', 'stmts', 'top'),
        ('0:args', 'value', 'Yield.value'),
        ('0:args', 'value', 'YieldFrom.value'),
    ],
    'compile_yield_from_or_await_expression': [
        ('0:arg', 'stmts', 'top'),
        ('0:arg', 'value', 'Await.value'),
    ],
}


# (function, (role, kind, sink)) -> what is wrong
KNOWN_BAD = {
    ("compile_try_expression", ("1:catchers", "stmts", "top")):
        "statements that an `except` type expression compiles to are emitted before the `try`, so they run unconditionally, "
        "even when no exception is raised (Python evaluates the expression only when an exception reaches the clause)",
}
