"""C29 — hy.as-model: cycle guard pairing, wrapper coverage, idempotence precondition."""
CANON = True

import ast

from .. import pyq
from ..pysrc import dotted, norm

REL = "hy/models.py"

# value type (as written in the source) -> model class the wrapper must build
EXPECT = {
    "str": "String", "bytes": "Bytes", "int": "Integer", "float": "Float", "complex": "Complex",
    "list": "List", "tuple": "Tuple", "set": "Set", "dict": "Dict",
    "List": "List", "Tuple": "Tuple", "Set": "Set", "Dict": "Dict", "Expression": "Expression",
    "FComponent": "FComponent", "FString": "FString",
}
MUST_TRACK = ["list", "dict", "set", "tuple", "List", "Dict", "Set", "Tuple", "Expression", "FComponent"]
REQUIRED_TYPES = ["str", "bytes", "int", "float", "complex", "bool", "type(None)", "list", "tuple", "set", "dict"]


def _seen_add_sites(mod):
    for f in mod.funcs.values():
        for c in pyq.calls(f):
            if dotted(c.func) == "_seen.add" and mod.enclosing_func(c) is f:
                yield f, c


def _tracking_funcs(ctx, mod):
    """Functions that add id(v) to _seen: check the pairing and return the set of names that are 'tracking'."""
    tracking = set()
    for f, add in _seen_add_sites(mod):
        q = f._qual
        ctx.functions.add(f"{REL}:{q}")
        key = f"{REL}|{q}|_seen.add"
        arg = add.args[0] if add.args else None
        add_stmt = add
        while not isinstance(add_stmt, ast.stmt):
            add_stmt = add_stmt._parent
        sibs = add_stmt._parent.body if hasattr(add_stmt._parent, "body") else []
        i = next((k for k, s in enumerate(sibs) if s is add_stmt), None)
        nxt = sibs[i + 1] if i is not None and i + 1 < len(sibs) else None
        # The pairing is decided inside the function that does the add, wherever that function is (a new helper included):
        # the evidence is local to it, so the finding does not depend on the function being one of the reviewed tree.
        is_cm = any(isinstance(n, (ast.Yield, ast.YieldFrom)) for n in ast.walk(f))
        removes = [n for n in ast.walk(f) if isinstance(n, ast.Call) and dotted(n.func) in ("_seen.remove", "_seen.discard", "_seen.clear", "_seen.pop", "_seen.difference_update")]
        if not isinstance(nxt, pyq.TRY) or not nxt.finalbody:
            # a removal exists but is not in a finally after the add -> the id leaks on an exception; no removal at all in
            # a shape we do not know -> not recognised
            verdict_msg = "`_seen.add(id(..))` is not immediately followed by a try/finally"
            if removes or not is_cm:
                ctx.bad("WRAP-PAIR", key, verdict_msg, REL, add.lineno, local=True,
                        witness="as_model of a container holding an unwrappable object (e.g. a function) raises and leaves the id in _seen; "
                                "promoting the same container again then reports a bogus self-reference")
            else:
                ctx.unres("WRAP-PAIR", key, verdict_msg)
            continue
        rem = pyq.contains(nxt.finalbody, lambda n: isinstance(n, ast.Call) and dotted(n.func) in ("_seen.remove", "_seen.discard")
                           and n.args and arg is not None and pyq.same_src(n.args[0], arg))
        other = pyq.contains(nxt.finalbody, lambda n: isinstance(n, ast.Call) and dotted(n.func) in ("_seen.clear", "_seen.pop", "_seen.difference_update", "_seen.remove", "_seen.discard")
                             and not (n.args and arg is not None and pyq.same_src(n.args[0], arg)))
        if rem is None or other is not None:
            ctx.bad("WRAP-PAIR", key, f"the finally after `_seen.add` does not remove exactly the same id (`{norm(other) if other is not None else 'nothing'}`)", REL, nxt.lineno, local=True,
                    witness="after a promotion the ids of the enclosing containers are forgotten (a later back-reference recurses without bound), or the container stays marked")
            continue
        # every recursive promotion in this function is inside the try body; a context-manager helper yields there instead
        rec = [c for c in pyq.calls(f) if dotted(c.func) == "as_model"]
        outside = [c for c in rec if not any(t is nxt for t in pyq.protecting_tries(c, None)) and not _in_lambda_or_gen_inside(c, nxt)]
        if not rec:
            ys = [n for n in ast.walk(f) if isinstance(n, (ast.Yield, ast.YieldFrom))]
            if ys and all(any(t is nxt and part == "body" for t, part in pyq.enclosing_try_parts(y)) for y in ys):
                ctx.ok("WRAP-PAIR", key, f"context manager: add; try: yield finally: remove ({norm(arg)})")
                tracking.add(f.name)
                continue
            if ys:
                ctx.bad("WRAP-PAIR", key, "the context manager yields outside the try that un-marks the id", REL, add.lineno, local=True)
            else:
                ctx.unres("WRAP-PAIR", key, "no recursive as_model call found in a function that marks ids as seen")
            continue
        if outside:
            ctx.bad("WRAP-PAIR", key, "a recursive as_model call lies outside the try that un-marks the id", REL, outside[0].lineno,
                    witness="an exception in that call leaves the id marked")
            continue
        # generator laziness: the generator handed to the constructor must be consumed inside the try
        ctx.ok("WRAP-PAIR", key, f"add; try: …as_model… finally: remove ({norm(arg)})")
        tracking.add(f.name)
        # a closure factory (recwrap) makes its *outer* function tracking, too
        par = mod.enclosing_func(f)
        if par is not None and any(isinstance(s, ast.Return) and isinstance(s.value, ast.Name) and s.value.id == f.name for s in par.body):
            tracking.add(par.name)
    return tracking


def _in_lambda_or_gen_inside(call, tr):
    n = call
    while n is not None:
        if n is tr:
            return True
        n = getattr(n, "_parent", None)
    return False


def check(ctx, src):
    ctx.rule("WRAP-GUARD", "as_model tests `id(x) in _seen` and raises HyWrapperError before it dispatches to a wrapper")
    ctx.rule("WRAP-PAIR", "every function that adds an id to _seen removes the same id in a finally that protects all recursive as_model calls")
    ctx.rule("WRAP-COVER", "_wrappers has an entry for every model-representable type, and every container type that can take part in a cycle "
             "is wrapped by a function that follows WRAP-PAIR")
    ctx.rule("WRAP-TYPE", "each wrapper builds the model class that corresponds to its source type (model types map to themselves: idempotence precondition)")
    mod = src.py(REL)
    am = mod.func("as_model")
    ctx.need(am is not None, "as_model not found in hy/models.py")
    ctx.functions.add(f"{REL}:as_model")
    body = pyq.body_without_doc(am)

    # --- guard first ------------------------------------------------------------
    guard_i = disp_i = None
    for i, st in enumerate(body):
        if isinstance(st, ast.If) and guard_i is None:
            t = st.test
            is_test = (isinstance(t, ast.Compare) and len(t.ops) == 1 and isinstance(t.ops[0], ast.In)
                       and dotted(t.comparators[0]) == "_seen" and isinstance(t.left, ast.Call) and dotted(t.left.func) == "id")
            raises = any(isinstance(s, ast.Raise) and s.exc is not None and "HyWrapperError" in ast.dump(s.exc) for s in st.body)
            if is_test and raises:
                guard_i = i
        if disp_i is None and pyq.contains(st, lambda n: isinstance(n, ast.Name) and n.id == "_wrappers"):
            disp_i = i
    ctx.need(disp_i is not None, "as_model no longer dispatches through _wrappers (anchor vanished)")
    ctx.check(guard_i is not None and guard_i < disp_i, "WRAP-GUARD", f"{REL}|as_model|guard-before-dispatch",
              "as_model does not test `id(x) in _seen` (raising HyWrapperError) before dispatching to the wrapper", REL, am.lineno,
              witness="(setv l []) (.append l l) (hy.as-model l) recurses until RecursionError instead of HyWrapperError",
              detail="guard is statement %s, dispatch is statement %s" % (guard_i, disp_i))
    # non-Object result -> HyWrapperError
    post = any(isinstance(st, ast.If) and "isinstance" in ast.dump(st.test) and "Object" in ast.dump(st.test)
               and any(isinstance(s, ast.Raise) for s in st.body) for st in body)
    ctx.check(post, "WRAP-GUARD", f"{REL}|as_model|result-is-model", "as_model no longer rejects results that are not models", REL, am.lineno,
              witness="(hy.as-model (fn [])) returns a function", detail="non-model result raises HyWrapperError")

    tracking = _tracking_funcs(ctx, mod)
    ctx.floor("WRAP-PAIR", 2)

    # --- registrations ------------------------------------------------------------
    regs = {}
    for n in ast.walk(mod.tree):
        if isinstance(n, ast.Assign) and len(n.targets) == 1 and isinstance(n.targets[0], ast.Subscript) and dotted(n.targets[0].value) == "_wrappers":
            k = norm(n.targets[0].slice)
            regs[k] = n
    for t in REQUIRED_TYPES:
        ctx.check(t in regs, "WRAP-COVER", f"{REL}|_wrappers[{t}]", f"no wrapper is registered for `{t}`", REL, 0,
                  witness=f"(hy.as-model <a {t}>) raises HyWrapperError", detail="registered")
    for k, n in regs.items():
        v = n.value
        key = f"{REL}|_wrappers[{k}]"
        # which model does it build, and is it tracking?
        built = None
        track = False
        if isinstance(v, ast.Name):
            built = v.id if v.id in EXPECT.values() else None
            if v.id in tracking:
                track = True
                f = mod.func(v.id)
                c = pyq.contains(f, lambda x: isinstance(x, ast.Call) and isinstance(x.func, ast.Name) and x.func.id in EXPECT.values()) if f else None
                built = c.func.id if c is not None else None
        elif isinstance(v, ast.Call) and isinstance(v.func, ast.Name) and v.func.id in tracking and v.args:
            track = True
            a = v.args[0]
            if isinstance(a, ast.Name):
                built = a.id
            elif isinstance(a, ast.Lambda):
                c = pyq.contains(a.body, lambda x: isinstance(x, ast.Call) and isinstance(x.func, ast.Name) and x.func.id in EXPECT.values())
                built = c.func.id if c is not None else None
        elif isinstance(v, ast.Lambda):
            c = pyq.contains(v.body, lambda x: isinstance(x, ast.Call) and isinstance(x.func, ast.Name) and x.func.id in set(EXPECT.values()) | {"Symbol"})
            built = c.func.id if c is not None else None
        if k in MUST_TRACK:
            ctx.check(track, "WRAP-COVER", key + "|tracked", f"the wrapper for `{k}` does not mark the container in _seen while recursing "
                      f"({norm(v)})", REL, n.lineno,
                      witness=f"a self-referential {k} recurses without bound instead of raising HyWrapperError", detail=f"{norm(v)} follows WRAP-PAIR")
        if k in EXPECT:
            if built is None:
                ctx.unres("WRAP-TYPE", key, f"cannot tell which model {norm(v)} builds")
            else:
                ctx.check(built == EXPECT[k], "WRAP-TYPE", key + "|builds", f"the wrapper for `{k}` builds `{built}`, expected `{EXPECT[k]}`", REL, n.lineno,
                          witness=f"(hy.as-model <{k}>) has the wrong model type; for model types as-model is no longer idempotent",
                          detail=f"builds {built}")
    ctx.floor("WRAP-COVER", 15)


SELFTESTS = [
    dict(name="recwrap without finally", file=REL,
         old="        _seen.add(id(l))\n        try:\n            return f(as_model(x) for x in l)\n        finally:\n            _seen.remove(id(l))",
         new="        _seen.add(id(l))\n        r = f(as_model(x) for x in l)\n        _seen.remove(id(l))\n        return r",
         rule="WRAP-PAIR", key="lambda_to_return"),
    dict(name="list wrapper untracked", file=REL, old="_wrappers[list] = recwrap(List)", new="_wrappers[list] = lambda l: List(as_model(x) for x in l)",
         rule="WRAP-COVER", key="_wrappers[list]"),
    dict(name="tuple -> List", file=REL, old="_wrappers[tuple] = recwrap(Tuple)", new="_wrappers[tuple] = recwrap(List)", rule="WRAP-TYPE", key="_wrappers[tuple]"),
    dict(name="guard after dispatch", file=REL,
         old='    if id(x) in _seen:\n        raise HyWrapperError("Self-referential structure detected in {!r}".format(x))\n\n    new = _wrappers.get(type(x), lambda y: y)(x)',
         new='    new = _wrappers.get(type(x), lambda y: y)(x)\n    if id(x) in _seen:\n        raise HyWrapperError("Self-referential structure detected in {!r}".format(x))',
         rule="WRAP-GUARD", key="guard-before-dispatch"),
    dict(name="rename loop var twin", file=REL, old="            return f(as_model(x) for x in l)", new="            return f(as_model(el) for el in l)", kind="twin"),
]
