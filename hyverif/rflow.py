"""E4: Result-flow.  Which compiled sub-form (role = pattern-slot parameter of the macro
function) ends up where in the emitted AST: its statements in which statement-list field
(or at top level of the returned Result), its value in which expression field."""
from __future__ import annotations

import ast

from . import compq
from .pyflow import Reach
from .pysrc import FUNC, dotted, norm

PRODUCERS = {"compile", "_compile_branch", "compile_atom", "compile_assign", "compile_with_expression", "compile_function_node",
             "_compile_collect", "compile_lambda_list", "compile_arguments_set", "compile_pattern"}


def is_producer_call(e):
    if not isinstance(e, ast.Call):
        return False
    d = dotted(e.func) or ""
    last = d.split(".")[-1]
    if last in ("compile", "_compile_branch", "compile_atom", "_compile_collect"):
        return d.split(".")[0] in ("compiler", "self")
    return last in PRODUCERS


class Roles:
    """role_of(expr) -> set of role labels.  A role label is the name of the pattern-slot parameter
    (or local derived from it) that the Result was compiled from, e.g. 'body', 'cond', 'orel_expr'."""

    def __init__(self, mod, func, slot_params=None, world=None):
        self.world = world
        self.mod = mod
        self.func = func
        self.reach = Reach(func)
        self.params = [a.arg for a in func.args.args]
        self.slots = slot_params if slot_params is not None else self.params[3:]
        self.rvars = compq.result_vars(func)

    # -- which slot does a *model* expression come from -----------------------------
    def model_slot(self, e, depth=0):
        if depth > 10:
            return set()
        if isinstance(e, ast.Name):
            defs = self.reach.at.get(id(e))
            if not defs:
                return {e.id} if e.id in self.slots else set()
            out = set()
            for h in defs:
                out |= self._how_slot(h, depth + 1, e.id)
            return out
        if isinstance(e, (ast.Subscript, ast.Starred, ast.Attribute)):
            return self.model_slot(e.value, depth + 1)
        if isinstance(e, ast.Call):
            out = set()
            for a in list(e.args) + [k.value for k in e.keywords]:
                out |= self.model_slot(a, depth + 1)
            if isinstance(e.func, ast.Attribute):
                out |= self.model_slot(e.func.value, depth + 1)
            return out
        if isinstance(e, (ast.List, ast.Tuple)):
            out = set()
            for a in e.elts:
                out |= self.model_slot(a, depth + 1)
            return out
        if isinstance(e, ast.BinOp):
            return self.model_slot(e.left, depth + 1) | self.model_slot(e.right, depth + 1)
        if isinstance(e, ast.IfExp):
            return self.model_slot(e.body, depth + 1) | self.model_slot(e.orelse, depth + 1)
        if isinstance(e, ast.BoolOp):
            out = set()
            for v in e.values:
                out |= self.model_slot(v, depth + 1)
            return out
        if isinstance(e, (ast.ListComp, ast.GeneratorExp)):
            out = self.model_slot(e.elt, depth + 1)
            for g in e.generators:
                out |= self.model_slot(g.iter, depth + 1)
            return out
        return set()

    def _how_slot(self, h, depth, name):
        if depth > 10:
            return set()
        t = h[0]
        if t == "param":
            return {h[1]} if h[1] in self.slots else set()
        if t in ("val", "iter", "with"):
            v = h[1]
            if self.is_result_expr(v):
                return set()
            return self.model_slot(v, depth + 1)
        if t in ("elem", "rest"):
            return self._how_slot(h[1], depth + 1, name)
        if t == "aug":
            out = self.model_slot(h[1], depth + 1)
            for p in h[2]:
                out |= self._how_slot(p, depth + 1, name)
            return out
        return set()

    # -- Result typing ---------------------------------------------------------------------
    def is_result_expr(self, e):
        if is_producer_call(e):
            return True
        if isinstance(e, ast.Call):
            d = dotted(e.func) or ""
            if d.split(".")[-1] in ("Result", "expr_as_stmt"):
                return True
            if d.startswith("asty."):
                return False
        if isinstance(e, ast.BinOp) and isinstance(e.op, ast.Add):
            return self.is_result_expr(e.left) or self.is_result_expr(e.right)
        if isinstance(e, ast.Name):
            return e.id in self.rvars
        return False

    # -- roles of a Result-valued expression ---------------------------------------------------
    def role_of(self, e, depth=0):
        """Roles whose *statements* are contained in the Result-valued expression e."""
        if depth > 12:
            return set()
        if isinstance(e, ast.Call):
            d = dotted(e.func) or ""
            last = d.split(".")[-1]
            if is_producer_call(e):
                summ = self.world.summary(last) if self.world is not None else None
                out = set()
                if summ is not None:
                    # only arguments bound to callee parameters whose statements the callee returns at top level
                    for pname, a in summ.bind(e):
                        if (pname, "stmts", "top") in summ.facts:
                            out |= self.model_slot(a)
                            if self.is_result_expr(a):
                                out |= self.role_of(a, depth + 1)
                    return out
                for a in e.args:
                    out |= self.model_slot(a)
                for k in e.keywords:
                    out |= self.model_slot(k.value)
                    out |= self.role_of(k.value, depth + 1)
                for a in e.args:
                    out |= self.role_of(a, depth + 1) if self.is_result_expr(a) else set()
                return out
            if last == "expr_as_stmt" and isinstance(e.func, ast.Attribute):
                return {r + "#value" for r in self.role_of(e.func.value, depth + 1)}
            if last == "Result":
                out = set()
                for k in e.keywords:
                    if k.arg == "stmts":
                        out |= self.stmts_roles(k.value, depth + 1)
                return out
            if last in ("map",) and len(e.args) == 2:
                return self.model_slot(e.args[1])
            if d == "f" or last in ("c",):
                out = set()
                for a in e.args:
                    out |= self.model_slot(a) | (self.role_of(a, depth + 1))
                return out
            return set()
        if isinstance(e, ast.BinOp) and isinstance(e.op, ast.Add):
            return self.role_of(e.left, depth + 1) | self.role_of(e.right, depth + 1)
        if isinstance(e, ast.IfExp):
            return self.role_of(e.body, depth + 1) | self.role_of(e.orelse, depth + 1)
        if isinstance(e, ast.Subscript):
            return self.role_of(e.value, depth + 1)
        if isinstance(e, ast.Name):
            defs = self.reach.at.get(id(e))
            if not defs:
                return set()
            out = set()
            for h in defs:
                out |= self._how_roles(h, depth + 1)
            return out
        if isinstance(e, ast.Attribute) and e.attr in ("stmts", "expr", "force_expr"):
            return self.role_of(e.value, depth + 1)
        if isinstance(e, (ast.List, ast.Tuple)):
            out = set()
            for a in e.elts:
                out |= self.role_of(a, depth + 1)
            return out
        return set()

    def _how_roles(self, h, depth):
        t = h[0]
        if t == "param":
            return {h[1]} if h[1] in self.slots else set()
        if t == "val":
            return self.role_of(h[1], depth)
        if t == "aug":
            out = self.role_of(h[1], depth)
            for p in h[2]:
                out |= self._how_roles(p, depth + 1)
            return out
        if t in ("elem", "rest"):
            inner = h[1]
            if inner[0] in ("val", "iter"):
                return self.role_of(inner[1], depth)
            return self._how_roles(inner, depth + 1)
        if t == "iter":
            return self.role_of(h[1], depth)
        return set()

    def stmts_roles(self, e, depth=0):
        """Roles whose statements are in the statement-list expression e (X.stmts, X.stmts or [...], A + B, names)."""
        if depth > 12:
            return set()
        if isinstance(e, ast.Attribute) and e.attr == "stmts":
            return self.role_of(e.value, depth + 1)
        if isinstance(e, ast.BoolOp):
            out = set()
            for v in e.values:
                out |= self.stmts_roles(v, depth + 1)
            return out
        if isinstance(e, ast.BinOp) and isinstance(e.op, ast.Add):
            return self.stmts_roles(e.left, depth + 1) | self.stmts_roles(e.right, depth + 1)
        if isinstance(e, ast.IfExp):
            return self.stmts_roles(e.body, depth + 1) | self.stmts_roles(e.orelse, depth + 1)
        if isinstance(e, ast.List):
            out = set()
            for a in e.elts:
                out |= self.node_roles(a, depth + 1)
            return out
        if isinstance(e, ast.Name):
            defs = self.reach.at.get(id(e))
            out = set()
            for h in defs or []:
                if h[0] == "val":
                    out |= self.stmts_roles(h[1], depth + 1) if not self.is_result_expr(h[1]) else self.role_of(h[1], depth + 1)
                elif h[0] == "aug":
                    out |= self.stmts_roles(h[1], depth + 1)
                    for p in h[2]:
                        if p[0] == "val":
                            out |= self.stmts_roles(p[1], depth + 1)
            return out
        if isinstance(e, ast.Call) and isinstance(e.func, ast.Attribute) and e.func.attr == "pop":
            return self.role_of(e.func.value, depth + 1)
        if isinstance(e, ast.Call):
            return self.role_of(e, depth + 1)
        return set()

    def node_roles(self, e, depth=0):
        """Roles contained anywhere inside an AST-node-building expression (nested constructions)."""
        out = set()
        if isinstance(e, ast.Call):
            for k in e.keywords:
                out |= self.stmts_roles(k.value, depth + 1) | self.value_roles(k.value, depth + 1)
        elif isinstance(e, ast.Name):
            defs = self.reach.at.get(id(e))
            for h in defs or []:
                if h[0] == "val":
                    out |= self.node_roles(h[1], depth + 1)
        return out

    def value_roles(self, e, depth=0):
        """Roles whose *value* (expression) is e: X.expr / X.force_expr, or names bound to those."""
        if depth > 12:
            return set()
        if isinstance(e, ast.Attribute) and e.attr in ("expr", "force_expr"):
            return self.role_of(e.value, depth + 1)
        if isinstance(e, ast.Name):
            defs = self.reach.at.get(id(e))
            out = set()
            for h in defs or []:
                if h[0] == "val" and not self.is_result_expr(h[1]):
                    out |= self.value_roles(h[1], depth + 1)
            return out
        if isinstance(e, (ast.IfExp,)):
            return self.value_roles(e.body, depth + 1) | self.value_roles(e.orelse, depth + 1)
        if isinstance(e, ast.BoolOp):
            out = set()
            for v in e.values:
                out |= self.value_roles(v, depth + 1)
            return out
        if isinstance(e, ast.Call):
            d = dotted(e.func) or ""
            if d.startswith("asty.") or d in ("make_not",):
                out = set()
                for k in e.keywords:
                    out |= self.value_roles(k.value, depth + 1)
                for a in e.args[1:] if d.startswith("asty.") else e.args:
                    out |= self.value_roles(a, depth + 1)
                return out
        if isinstance(e, (ast.List, ast.Tuple)):
            out = set()
            for a in e.elts:
                out |= self.value_roles(a, depth + 1)
            return out
        return set()


def placements(roles):
    """Yield (call, cls_names, field, kind, role_set) for every field of every asty construction in the function
    whose value carries statements ('stmts') or a value ('value') of some role."""
    from .astoblig import constructions

    mod, func = roles.mod, roles.func
    for call, classes, kwargs, splats, pos, via in constructions(mod):
        f = mod.enclosing_func(call)
        top = f
        while top is not None and mod.enclosing_func(top) is not None:
            top = mod.enclosing_func(top)
        if top is not func:
            continue
        for fld, val in kwargs.items():
            sr = roles.stmts_roles(val)
            if sr and fld in ("body", "orelse", "finalbody", "handlers", "cases"):
                yield call, classes, fld, "stmts", sr
            vr = roles.value_roles(val)
            if vr:
                yield call, classes, fld, "value", vr


SUMMARISED = ("compile_function_node", "compile_assign", "compile_with_expression", "compile_lambda_list", "compile_arguments_set",
              "compile_pattern", "digest_type_params")
NON_SLOT = ("self", "compiler", "expr", "root", "ret", "scope", "node", "name", "level", "is_kwonly", "with_kwargs", "dict_display",
            "is_assignment_expr", "chained", "let_scope")


class Summary:
    def __init__(self, mod, func, facts):
        self.mod, self.func, self.facts = mod, func, facts
        self.params = [a.arg for a in func.args.args] + [a.arg for a in func.args.kwonlyargs]

    def bind(self, call):
        out = []
        pos = [a.arg for a in self.func.args.args]
        for i, a in enumerate(call.args):
            if isinstance(a, ast.Starred):
                break
            if i < len(pos):
                out.append((pos[i], a))
        for k in call.keywords:
            if k.arg:
                out.append((k.arg, k.value))
        return out


class FlowWorld:
    def __init__(self, comp):
        self.comp = comp
        self._sum = {}
        self._busy = set()

    def facts_of(self, mod, func, slots=None):
        R = Roles(mod, func, slots, world=self)
        facts = {}
        for call, classes, fld, kind, rs in placements(R):
            for c in classes:
                for r in rs:
                    facts.setdefault((r.split("#")[0], kind, f"{c}.{fld}"), call.lineno)
        for n in ast.walk(func):
            if isinstance(n, ast.Return) and n.value is not None and mod.enclosing_func(n) is func:
                tag = "top"
                p = n._parent
                if isinstance(p, ast.If) and not any(p is st for st in func.body):
                    tag = "top"
                for r in R.role_of(n.value):
                    facts.setdefault((r.split("#")[0], "stmts", tag), n.lineno)
                for r in R.value_roles(n.value):
                    facts.setdefault((r.split("#")[0], "value", tag), n.lineno)
        # facts inherited from summarised callees
        for c in ast.walk(func):
            if isinstance(c, ast.Call):
                last = (dotted(c.func) or "").split(".")[-1]
                summ = self.summary(last)
                if summ is None or summ.func is func:
                    continue
                for pname, a in summ.bind(c):
                    rs = R.model_slot(a) | (R.role_of(a) if R.is_result_expr(a) else set())
                    for (p2, kind, sink), ln in summ.facts.items():
                        if p2 == pname and sink != "top":
                            for r in rs:
                                facts.setdefault((r.split("#")[0], kind, sink), c.lineno)
        return R, facts

    def summary(self, fname):
        if fname not in SUMMARISED:
            return None
        if fname in self._sum:
            return self._sum[fname]
        if fname in self._busy:
            return None
        f = self.comp.rm.func(fname)
        if f is None:
            return None
        self._busy.add(fname)
        try:
            slots = [a.arg for a in f.args.args + f.args.kwonlyargs if a.arg not in NON_SLOT]
            R, facts = self.facts_of(self.comp.rm, f, slots)
            self._sum[fname] = Summary(self.comp.rm, f, facts)
        finally:
            self._busy.discard(fname)
        return self._sum[fname]


def top_level_adds(roles):
    """Roles whose statements are added to a Result that the function returns (hoisted to the construct's own level)."""
    func, mod = roles.func, roles.mod
    out = {}
    returned = set()
    for n in ast.walk(func):
        if isinstance(n, ast.Return) and n.value is not None and mod.enclosing_func(n) is func:
            returned.add(n)
    # names that are returned (accumulators)
    acc = set()
    for r in returned:
        for x in ast.walk(r.value):
            if isinstance(x, ast.Name) and x.id in roles.rvars:
                acc.add(x.id)
        for role in roles.role_of(r.value):
            out.setdefault(role, []).append(r.lineno)
    return out, acc
