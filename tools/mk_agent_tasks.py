#!/venv/bin/python
"""Create one scratch worktree of /repo per property under /tmp/wt/<ID> and write TASK.md into it:
the text of the property only (nothing from /verif's machinery), asking for two breaking changes
(numbered A and B = argv[1], argv[2]) and one behaviour-preserving refactoring (numbered argv[3]).
usage: mk_agent_tasks.py A B NEUTRAL [ID ...]"""
import json
import os
import subprocess
import sys

A, B, NEU = sys.argv[1:4]
only = sys.argv[4:]
props = [json.loads(l) for l in open("/verif/properties.jsonl")]
os.makedirs("/tmp/wt", exist_ok=True)
subprocess.run(["git", "-C", "/repo", "worktree", "prune"])
for p in props:
    pid = p["id"]
    if only and pid not in only:
        continue
    wt = f"/tmp/wt/{pid}"
    if not os.path.isdir(wt):
        subprocess.run(["git", "-C", "/repo", "worktree", "add", "-q", "--detach", wt, "HEAD"], check=True)
    os.makedirs(f"{wt}/_seed", exist_ok=True)
    anchors = json.dumps(p["anchors"], indent=1)
    task = f"""# Task

You are working in a scratch git worktree of the hylang/hy repository (Hy: a Lisp dialect whose reader parses
Lisp source into model trees and whose compiler lowers them to Python AST) at `{wt}`.

Rules of the sandbox:
* Work ONLY inside `{wt}`. Never modify `/repo`. Never read or write anything under `/verif`.
* There is no network. The interpreter is `/venv/bin/python` (3.12). Always run with
  `PYTHONPATH={wt} PYTHONDONTWRITEBYTECODE=1` so that this worktree's `hy` package is imported, not the installed one.
  (`hy FILE` on the command line is broken on this image; use `/venv/bin/python script.py` that does `import hy` and
  `hy.eval(hy.read_many(src))`, `hy.read`, `hy.compiler.hy_compile`, etc.)
* The existing test suite: `cd {wt} && PYTHONPATH={wt} PYTHONDONTWRITEBYTECODE=1 /venv/bin/python -m pytest -q -p no:cacheprovider --timeout=900 -rf`.
  On the unchanged tree, 584 tests pass and 54 fail (all the `tests/test_bin.py` CLI tests etc. fail on this image for
  unrelated reasons). Record the baseline set of FAILED test ids first; "passes the existing tests" below means:
  the set of FAILED test ids is identical to the baseline and the passed count is still 584.

## The property

**{pid} — {p['title']}**

{p['statement']}

Quantified over: {p['quantifier']['text']}

Why the test suite cannot settle it: {p['why_tests_cant']}

Where it lives in the code (anchors):
```json
{anchors}
```

## What to produce

### Two breaking changes (numbers {A} and {B})

Two *independent* changes to the source of hylang/hy (files under `hy/`), each of which **breaks the property above**
while the package still imports and **still passes the existing tests** (as defined above). Requirements:

* Realistic: the kind of mistake a maintainer could plausibly make in a refactoring, an optimisation, a clean-up or a
  small feature addition. Not sabotage: no special-casing of magic inputs, no random constants, no dead code whose
  only purpose is the break.
* Subtle: the break must need something specific to manifest — a particular nesting or combination of forms, an unusual
  input, a multi-step sequence of operations, a crash/exception at a particular point, a particular interleaving, or two
  cooperating sites that each look fine alone. Ordinary use must not expose it at once.
* The two changes should differ in kind and, where possible, touch different functions / mechanisms of the anchored code.
* Each change is small to moderate (typically 1-40 changed lines), only under `hy/` (never tests, docs).

For each N in {{{A}, {B}}} write into `{wt}/_seed/`:
* `patchN.diff` — `git diff` against HEAD for that change alone (must apply with `git apply` on a clean checkout of HEAD);
* `demoN.py` — a standalone Python script (run as `/venv/bin/python _seed/demoN.py` from `{wt}` with the PYTHONPATH above)
  that exits 0 on the unchanged tree and exits non-zero with the change applied, printing what went wrong; it should
  exercise the public behaviour the property talks about, not internal identifiers;
* `metaN.json` — `{{"property": "{pid}", "summary": "<what the change does>", "needs": "<what is needed for it to manifest>",
  "files": [...], "ran": ["<commands you ran and their outcomes>"]}}`.

You must actually verify, for each change: demo exits 0 without it, non-zero with it; the test suite outcome with the
change equals the baseline (run the whole suite). If a candidate change makes any previously passing test fail, discard
or refine it.

### One behaviour-preserving refactoring (number {NEU})

Independently of the above: one refactoring of the code that implements this property (the anchored functions) that
**preserves behaviour exactly** — what a maintainer would do as a clean-up: rename local variables, restructure or invert
conditionals, split or merge statements, introduce a local or a small helper function, reorder independent statements,
replace an idiom by an equivalent one, add comments/docstrings. Moderate size (about 10-60 changed lines), under `hy/` only.
It must pass the existing tests exactly as the baseline does, and the property must still hold.
Write it as `{wt}/_seed/neutral{NEU}.diff` (git diff against clean HEAD, this refactoring alone) and
`{wt}/_seed/neutral{NEU}.json` — `{{"property": "{pid}", "summary": "<what was refactored and why behaviour is unchanged>", "files": [...], "ran": [...]}}`.

### Finally

Leave the worktree's tracked files unchanged at the end (`git -C {wt} checkout -- .`), keeping only the untracked
`_seed/` directory. Reply with a short summary: for each deliverable, one line saying what it is and that you verified it.
"""
    with open(f"{wt}/TASK.md", "w") as f:
        f.write(task)
    print(wt)
