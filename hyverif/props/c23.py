"""C23 — string and bracket-string literals: escape table, prefix predicate, newline normalisation, raw handling."""
import ast

from .. import pm, pyq, readerq
from ..pysrc import dotted, fold, norm
from ..readerq import HR

# Python language reference, "String and Bytes literals": recognised escape sequences (first character after the backslash)
CANON = True

PY_ESCAPES_COMMON = set("\n\\'\"abfnrtv01234567x")
PY_ESCAPES_STR_ONLY = set("NuU")


def check(ctx, src):
    ctx.rule("STR-ESCAPES", "the characters accepted after a backslash are exactly Python's recognised escapes (plus CR for CRLF line continuations): common ones for every prefix, \\N \\u \\U only without `b`; "
             "anything else is a LexException; none of this applies under `r`")
    ctx.rule("STR-PREFIX", "a prefix is valid iff its characters are distinct, drawn from bfrt, with at most one of b/f/t")
    ctx.rule("STR-RAW", "a backslash toggles the escaping state for every prefix (so \\\" never closes a literal, raw or not); escape decoding happens only without `r`")
    ctx.rule("STR-NEWLINE", "CR LF and CR are normalised to LF unconditionally, before bytes encoding and escape decoding")
    ctx.rule("STR-BRACKET", "bracket strings are read raw, drop one leading newline (CR then LF), and use the delimiter between #[ and [")
    ctx.rule("STR-ROUTE", "prefixed, bracketed and f-string text all go through read_chars_until")
    rq = readerq.Reader(src)
    ps = rq.methods["prefixed_string"][1]
    # Python's escape grammar is ASCII: the validation of the character after a backslash must not use a Unicode
    # character-class predicate (str.isdigit etc. accept e.g. superscript and fullwidth digits)
    uni = [c for c in ast.walk(ps) if isinstance(c, ast.Call) and isinstance(c.func, ast.Attribute) and c.func.attr in ("isdigit", "isdecimal", "isnumeric", "isalpha", "isalnum", "isspace", "isprintable", "isidentifier")]
    ctx.decide("STR-ESCAPES", f"{HR}|prefixed_string|ascii table", not uni, f"the escape validation of prefixed_string uses a Unicode class predicate (`{norm(uni[0]) if uni else ''}`): characters outside Python's escape table are accepted",
               HR, uni[0].lineno if uni else ps.lineno, witness='"\\²" is accepted and decoded differently from Python', detail="membership in literal tables only")
    qc = next((n for n in ast.walk(ps) if isinstance(n, ast.FunctionDef) and n.name == "quote_closing"), None)
    ctx.need(qc is not None, "quote_closing not found")
    chk = pyq.contains(qc, lambda n: isinstance(n, ast.If) and pyq.contains(n.body, lambda x: isinstance(x, ast.Raise) and "invalid escape sequence" in norm(x)) is not None)
    ctx.need(chk is not None, "escape check not found")
    conj = [norm(v) for v in chk.test.values] if isinstance(chk.test, ast.BoolOp) and isinstance(chk.test.op, ast.And) else []
    toggle = pm.find(qc, "esc = not esc")
    esc = toggle.targets[0].id if toggle is not None else None
    ctx.check(len(conj) == 3 and esc is not None and str(conj[0]) == esc and conj[1] == "'r' not in prefix", "STR-ESCAPES", f"{HR}|quote_closing|conditions", f"the escape check runs under {conj[:2]}", HR, chk.lineno,
              witness='r"\\d" is rejected / "\\d" is accepted', detail="escaping and 'r' not in prefix")
    cmpn = chk.test.values[2] if len(conj) == 3 else None
    ok = False
    if isinstance(cmpn, ast.Compare) and isinstance(cmpn.ops[0], ast.NotIn) and norm(cmpn.left) == "c":
        e = cmpn.comparators[0]
        if isinstance(e, ast.BinOp) and isinstance(e.right, ast.IfExp) and norm(e.right.test) == "'b' in prefix":
            common = set(fold(e.left))
            with_b, without_b = set(fold(e.right.body)), set(fold(e.right.orelse))
            ok = common == PY_ESCAPES_COMMON | {"\r"} and with_b == set() and without_b == PY_ESCAPES_STR_ONLY
            detail = f"common={''.join(sorted(common))!r} str-only={''.join(sorted(without_b))!r}"
    ctx.check(ok, "STR-ESCAPES", f"{HR}|quote_closing|table", "the set of accepted escape characters differs from Python's table", HR, chk.lineno,
              witness='"\\q" is accepted, or "\\N{DASH}" is rejected, or b"\\u0041" is accepted', detail=detail if ok else norm(cmpn) if cmpn is not None else "")
    # backslash toggling for all prefixes
    first = qc.body[1] if isinstance(qc.body[0], ast.Nonlocal) else qc.body[0]
    ctx.check(isinstance(first, ast.If) and norm(first.test) == "c == '\\\\'" and [norm(s) for s in first.body] == ["escaping = not escaping", "return 0"], "STR-RAW", f"{HR}|quote_closing|backslash",
              f"the backslash branch is `{norm(first)[:80]}`: a backslash must toggle `escaping` whatever the prefix", HR, qc.lineno, witness='r"\\"" ends at the escaped quote', detail="if c == '\\\\': toggle; return 0")
    close = qc.body[2] if isinstance(qc.body[0], ast.Nonlocal) else qc.body[1]
    ctx.check(isinstance(close, ast.If) and norm(close.test) == "c == '\"' and (not escaping)" and norm(close.body[0]) == "return 1", "STR-RAW", f"{HR}|quote_closing|close", "an unescaped quote closes the literal (consuming one character)", HR, qc.lineno, detail='c == \'"\' and not escaping')
    ctx.check(norm(qc.body[-2]) == "escaping = False" and norm(qc.body[-1]) == "return 0", "STR-RAW", f"{HR}|quote_closing|reset", "escaping must be reset after any other character", HR, qc.lineno, detail="escaping = False")
    # prefix predicate
    pp = pyq.contains(ps, lambda n: isinstance(n, ast.If) and pyq.contains(n.body, lambda x: isinstance(x, ast.Raise) and "invalid string prefix" in norm(x)) is not None)
    ctx.check(pp is not None and norm(pp.test) == "len(prefix_chars) != len(prefix) or not prefix_chars < set('bfrt') or len(prefix_chars - set('r')) > 1", "STR-PREFIX", f"{HR}|prefixed_string|prefix",
              f"prefix predicate is `{norm(pp.test) if pp else None}`", HR, ps.lineno, witness='bf"x" or rr"x" is accepted', detail="distinct, ⊂ bfrt, at most one non-r")
    fm = pyq.contains(ps, lambda n: isinstance(n, ast.Return) and "read_string_until(quote_closing, prefix" in norm(n))
    ctx.check(fm is not None, "STR-ROUTE", f"{HR}|prefixed_string|route", "prefixed strings are not read by read_string_until(quote_closing, prefix, …)", HR, ps.lineno, detail="read_string_until")
    # read_chars_until
    rc = rq.methods["read_chars_until"][1]
    stmts = rc.body
    texts = [norm(s) for s in stmts]
    i_norm = next((i for i, t in enumerate(texts) if t == "res = ''.join(s).replace('\\r\\n', '\\n').replace('\\r', '\\n')"), None)
    i_b = next((i for i, s in enumerate(stmts) if isinstance(s, ast.If) and norm(s.test) == "'b' in prefix"), None)
    i_r = next((i for i, s in enumerate(stmts) if isinstance(s, ast.If) and norm(s.test) == "'r' not in prefix"), None)
    ctx.check(i_norm is not None and i_b is not None and i_r is not None and i_norm < i_b < i_r, "STR-NEWLINE", f"{HR}|read_chars_until|normalise first",
              "CR/CRLF normalisation must be an unconditional top-level statement that precedes bytes encoding and escape decoding", HR, rc.lineno,
              witness='a literal containing CR LF keeps the CR, or "\\\\\\r\\n" decodes differently from Python', detail="normalise; encode; decode")
    if i_r is not None:
        ctx.check(pm.find(stmts[i_r], "codecs.escape_decode(res)[0]") is not None and pm.find(stmts[i_r], "res.encode('ISO-8859-1', errors='backslashreplace').decode('unicode_escape')") is not None, "STR-RAW", f"{HR}|read_chars_until|decode",
                  "escape decoding must use escape_decode for bytes and unicode_escape (via Latin-1/backslashreplace) for str, only without `r`", HR, rc.lineno, detail="decode unless raw")
    if i_b is not None:
        ctx.check(pm.find(stmts[i_b], "res = res.encode('ascii')") is not None and pyq.contains(stmts[i_b], lambda x: isinstance(x, ast.Raise)) is not None, "STR-RAW", f"{HR}|read_chars_until|bytes ascii", "bytes literals must be ASCII-only", HR, rc.lineno, detail="encode('ascii')")
    loop = next((s for s in stmts if isinstance(s, ast.For)), None)
    ctx.check(loop is not None and norm(loop.iter) == "self.chars()" and pm.find(loop, "n = closing(c)\nif n:\n    s = s[:-n]\n    break") is not None, "STR-ROUTE", f"{HR}|read_chars_until|loop", "characters are read with chars() and the closing delimiter is cut off", HR, rc.lineno, detail="chars(); strip closer")
    # bracket strings
    bs = rq.methods["bracketed_string"][1]
    t = [norm(s) for s in bs.body]
    i1 = next((i for i, x in enumerate(t) if x == "self.peek_and_getc('\\r')"), None)
    i2 = next((i for i, x in enumerate(t) if x == "self.peek_and_getc('\\n')"), None)
    ctx.check(i1 is not None and i2 == i1 + 1, "STR-BRACKET", f"{HR}|bracketed_string|leading newline", "one leading newline (CR, LF or CR LF) must be dropped, CR first", HR, bs.lineno, witness="#[[\\r\\nx]] keeps a newline", detail="peek_and_getc('\\r'); peek_and_getc('\\n')")
    ctx.check(norm(bs.body[-1]) == "return self.read_string_until(delim_closing, 'r', fstring_mode, brackets=delim)", "STR-BRACKET", f"{HR}|bracketed_string|raw", "bracket strings must be read raw with their delimiter recorded", HR, bs.lineno,
              witness="#[[a\\nb]] decodes the backslash escape", detail="prefix 'r', brackets=delim")
    dl = next((s for s in bs.body if isinstance(s, ast.For)), None)
    ctx.check(dl is not None and norm(dl.iter) == "self.chars()" and pm.find(dl, "if c == '[':\n    break") is not None, "STR-BRACKET", f"{HR}|bracketed_string|delimiter", "the delimiter is the text up to the next `[`", HR, bs.lineno, detail="until '['")
    ctx.assume("the closing-delimiter matcher `delim_closing` is a small state machine whose equivalence to `find ]DELIM]` is value-level and not decided here")
    ctx.floor("STR-RAW", 5)


SELFTESTS = [
    dict(name="raw ignores backslash", file=HR, old='            if c == "\\\\":\n                escaping = not escaping\n                return 0', new='            if c == "\\\\" and "r" not in prefix:\n                escaping = not escaping\n                return 0', rule="STR-RAW", key="backslash"),
    dict(name="escape \\q accepted", file=HR, old='not in ("\\n\\r\\\\\'\\"abfnrtv01234567x"', new='not in ("\\n\\r\\\\\'\\"abfnqrtv01234567x"', rule="STR-ESCAPES", key="table"),
    dict(name="normalise after decode", file=HR, rule="STR-NEWLINE", key="normalise first", edits=[
        ('        res = "".join(s).replace("\\x0d\\x0a", "\\x0a").replace("\\x0d", "\\x0a")\n', '        res = "".join(s)\n'),
        ("        if fstring_mode:\n            return res, n_closing_chars\n        return res", '        res = res.replace("\\x0d\\x0a", "\\x0a").replace("\\x0d", "\\x0a") if isinstance(res, str) else res\n        if fstring_mode:\n            return res, n_closing_chars\n        return res')]),
    dict(name="prefix allows bf", file=HR, old='            or len(prefix_chars - set("r")) > 1', new='            or len(prefix_chars - set("r")) > 2', rule="STR-PREFIX", key="prefix"),
    dict(name="bracket not raw", file=HR, old='return self.read_string_until(delim_closing, "r", fstring_mode, brackets=delim)', new='return self.read_string_until(delim_closing, "", fstring_mode, brackets=delim)', rule="STR-BRACKET", key="raw"),
]
