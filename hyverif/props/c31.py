"""C31 — quasiquote level tracking (thin: level constants and their propagation in render_quoted_form)."""
CANON = True

import ast

from .. import pm, compq, pyq
from ..pysrc import dotted, norm, flat, stmt_of

R = compq.RM


def check(ctx, src):
    ctx.rule("QQ-ENTRY", "quote enters render_quoted_form with level Inf (nothing can be unquoted), quasiquote with level 0")
    ctx.rule("QQ-HEAD", "the head is recognised through mangling (so unquote_splice == unquote-splice), only when it is a symbol")
    ctx.rule("QQ-LEVEL", "at level 0 unquote / unquote-splice substitute their single argument; otherwise nested quasiquote raises the level by one and unquote forms lower it by one; children are rendered at the updated level")
    ctx.rule("QQ-SPLICE", "a spliced child becomes (unpack-iterable (or X [])) inside the rebuilt sequence")
    comp = compq.Compiler(src)
    cq = comp.rm.func("compile_quote")
    f = comp.rm.func("render_quoted_form")
    ctx.require(cq is not None and f is not None, "compile_quote / render_quoted_form not found")
    call = pyq.contains(cq, lambda n: isinstance(n, ast.Call) and dotted(n.func) == "render_quoted_form")
    lv = next((k.value for k in call.keywords if k.arg == "level"), None) if call is not None else None
    if lv is None and call is not None and len(call.args) >= 3:
        lv = call.args[2]
    # the values the entry level can take, each with the condition it is chosen under
    alts = {}
    if isinstance(lv, ast.IfExp):
        alts = {str(norm(lv.body)): str(norm(lv.test)), str(norm(lv.orelse)): "else"}
    elif isinstance(lv, ast.Name):
        for n in ast.walk(cq):
            if isinstance(n, ast.Assign) and len(n.targets) == 1 and isinstance(n.targets[0], ast.Name) and n.targets[0].id == lv.id:
                if isinstance(n.value, ast.IfExp):
                    alts.update({str(norm(n.value.body)): str(norm(n.value.test)), str(norm(n.value.orelse)): "else"})
                else:
                    at = [str(a) for a in pyq.atoms(n, cq)]
                    alts[str(norm(n.value))] = at[0] if len(at) == 1 else ("else" if not at else " and ".join(at))
    elif lv is not None:
        alts = {str(norm(lv)): "always"}
    good = alts in ({"Inf": "root == 'quote'", "0": "else"}, {"Inf": "root == 'quote'", "0": "root != 'quote'"}, {"0": "root == 'quasiquote'", "Inf": "else"},
                    {"0": "root == 'quasiquote'", "Inf": "root != 'quasiquote'"}, {"0": "root != 'quote'", "Inf": "else"})
    ctx.decide("QQ-ENTRY", f"{R}|compile_quote|level", None if not alts else good, f"the entry level is chosen as {alts}", R, cq.lineno, witness="'(a ~b) substitutes b / `(a ~b) does not", detail="Inf for quote, 0 for quasiquote")
    ctx.check(norm(pyq.walk_no_nested(cq).__next__()) is not None and "[0]" in norm(cq.body[-1]), "QQ-ENTRY", f"{R}|compile_quote|takes form", "compile_quote must compile the rendered form (element 0 of the pair)", R, cq.lineno, detail="[0]")
    inf = comp.rm.toplevel_assign("Inf")
    ctx.check(inf is not None and norm(inf) == "float('inf')", "QQ-ENTRY", f"{R}|Inf", "Inf is no longer float('inf')", R, 0, detail="float('inf')")
    g = next((s for s in f.body if isinstance(s, ast.If) and "isinstance(form[0], Symbol)" in norm(s.test)), None)
    ctx.need(g is not None, "head recognition not found")
    ctx.check(norm(g.test) == "isinstance(form, Expression) and form and isinstance(form[0], Symbol)", "QQ-HEAD", f"{R}|render_quoted_form|head guard", f"head guard is `{norm(g.test)}`", R, g.lineno, detail="non-empty Expression with Symbol head")
    ctx.check(norm(g.body[0]) == "op = mangle(form[0]).replace('_', '-')", "QQ-HEAD", f"{R}|render_quoted_form|head normalisation", f"the head is computed as `{norm(g.body[0])}`: names that mangle equally (unquote_splice) must be treated alike",
              R, g.lineno, witness="`[1 (unquote_splice xs)] leaves the form literal", detail="mangle(...).replace('_', '-')")
    inner = g.body[1] if len(g.body) > 1 and isinstance(g.body[1], ast.If) else None
    ctx.need(inner is not None, "level arm not found")
    ctx.check(norm(inner.test) == "op in ('unquote', 'unquote-splice', 'quasiquote')", "QQ-LEVEL", f"{R}|render_quoted_form|special heads", f"special heads are `{norm(inner.test)}`", R, inner.lineno, detail="unquote, unquote-splice, quasiquote")
    sub = inner.body[0] if isinstance(inner.body[0], ast.If) else None
    ok = sub is not None and norm(sub.test) == "level == 0 and op != 'quasiquote'" and norm(sub.body[-1]) == "return (form[1], op == 'unquote-splice')"
    ctx.check(ok, "QQ-LEVEL", f"{R}|render_quoted_form|substitute at level 0", "substitution must happen exactly at level 0 for unquote forms, returning the argument and the splice flag", R, inner.lineno,
              witness="`(a ~b) keeps (unquote b) / ``(a ~b) substitutes too early", detail="level == 0 and op != 'quasiquote' -> (form[1], splice?)")
    ar = pyq.contains(sub, lambda n: isinstance(n, ast.If) and norm(n.test) == "len(form) != 2") if sub is not None else None
    ctx.check(ar is not None and isinstance(ar.body[0], ast.Raise), "QQ-LEVEL", f"{R}|render_quoted_form|arity", "unquote forms with a wrong number of arguments must be rejected", R, inner.lineno, detail="raise")
    ctx.check(norm(inner.body[-1]) == "level += 1 if op == 'quasiquote' else -1", "QQ-LEVEL", f"{R}|render_quoted_form|level step", f"level step is `{norm(inner.body[-1])}`", R, inner.lineno,
              witness="``(a ~~b) substitutes at the wrong depth", detail="+1 for quasiquote, -1 for unquote forms")
    rec = [c for c in pyq.calls(f) if dotted(c.func) == "render_quoted_form"]
    lvp = f.args.args[2].arg if len(f.args.args) > 2 else None
    for rc_ in rec:
        a = rc_.args[2] if len(rc_.args) >= 3 else next((k.value for k in rc_.keywords if k.arg == lvp), None)
        ctx.decide("QQ-LEVEL", f"{R}|render_quoted_form|children level", None if a is None or lvp is None else (isinstance(a, ast.Name) and a.id == lvp),
                   f"children are rendered at `{norm(a) if a is not None else None}`; every child of a sequence (the format spec of an f-string field included) must be rendered at the current level", R, rc_.lineno,
                   witness="an unquote inside a nested replacement field of a format spec is left as a literal (unquote …) form", detail="level")
    # every child's splice flag is taken: the pair returned by the recursive call is unpacked, never indexed with [0]
    dropped = [rc_ for rc_ in rec if isinstance(getattr(rc_, "_parent", None), ast.Subscript) and isinstance(rc_._parent.slice, ast.Constant) and rc_._parent.slice.value == 0]
    ctx.decide("QQ-SPLICE", f"{R}|render_quoted_form|splice flag of every child", None if not rec else not dropped,
               "a child is rendered with `render_quoted_form(...)[0]`: its splice flag is dropped, so a `~@` directly in that position is inserted as one element instead of being spliced", R,
               dropped[0].lineno if dropped else f.lineno, witness='`f"{~@xs}" nests the list instead of splicing it', detail="(contents, splice) unpacked for every child", local=True)
    ctx.need(rec, "the recursive rendering of the children was not recognised")
    lp = rec[0]
    while lp is not None and not isinstance(lp, ast.For):
        lp = lp._parent
    ctx.check(lp is not None and norm(lp.iter) == "form", "QQ-LEVEL", f"{R}|render_quoted_form|children loop", "the recursion must visit every child of the form", R, f.lineno, detail="for x in form")
    # the splice flag is the second element of the recursive call's result
    rc_st = stmt_of(rec[0]) if rec else None
    flag = rc_st.targets[0].elts[1].id if isinstance(rc_st, ast.Assign) and isinstance(rc_st.targets[0], ast.Tuple) and len(rc_st.targets[0].elts) == 2 and isinstance(rc_st.targets[0].elts[1], ast.Name) else None
    sp = pyq.contains(f, lambda n: isinstance(n, ast.If) and isinstance(n.test, ast.Name) and n.test.id == flag)
    t = flat(sp) if sp is not None else ""
    ctx.check("f_contents = Expression([Symbol('unpack-iterable'), Expression([Symbol('or'), f_contents, List()])])" in t, "QQ-SPLICE", f"{R}|render_quoted_form|splice", "a splice must become (unpack-iterable (or X []))", R, f.lineno,
              witness="`[1 ~@None] raises TypeError instead of splicing nothing", detail="(unpack-iterable (or X []))")
    ctx.check(sp is not None and pm.find(sp, "if is_unpack('iterable', f_contents):\n    compiler._syntax_error(f_contents, __)") is not None, "QQ-SPLICE", f"{R}|render_quoted_form|splice of unpack", "splicing an unpack form must be a syntax error", R, f.lineno, detail="syntax error")
    ctx.assume("the result of evaluating a concrete template is not decided; an unrecognisable rewrite of render_quoted_form is reported against the named sub-rule")
    ctx.floor("QQ-LEVEL", 6)


SELFTESTS = [
    dict(name="spec children at Inf", file=R, old="        for x in form:\n            f_contents, splice = render_quoted_form(compiler, x, level)",
         new="        for i, x in enumerate(form):\n            f_contents, splice = render_quoted_form(compiler, x, Inf if isinstance(form, FComponent) and i else level)", rule="QQ-LEVEL", key="children level"),
    dict(name="head not normalised", file=R, old="        op = mangle(form[0]).replace('_', '-')", new="        op = str(form[0])", rule="QQ-HEAD", key="head normalisation"),
    dict(name="quote enters at 0", file=R, old='level = Inf if root == "quote" else 0)[0])', new='level = 0)[0])', rule="QQ-ENTRY", key="level"),
    dict(name="level step inverted", file=R, old='            level += 1 if op == "quasiquote" else -1', new='            level -= 1 if op == "quasiquote" else -1', rule="QQ-LEVEL", key="level step"),
]
