"""C28 — hy.repr: quoting / cycle state is restored on every exit of hy-repr."""
CANON = True
LENIENT = True   # .hy rules: a failed test is believed only for armed instances in a nearly-unchanged form (fdiff.hy_small_edit)

import re

REL = "hy/core/hy_repr.hy"


def _inside(node, anc):
    while node is not None:
        if node is anc:
            return True
        node = node._parent
    return False


def _fn_of(n):
    while n is not None:
        if n.kind == "expr" and n.head() in ("defn", "defmacro") and len(n.items) > 1 and n.items[1].kind == "sym":
            return n.items[1].val
        n = n._parent
    return "<module>"


def _setv_targets(f):
    its = f.items[1:]
    return list(zip(its[::2], its[1::2]))


def check(ctx, src):
    ctx.rule("REPR-PROTECT", "the call of the registered printer (the only call in hy-repr that runs arbitrary code after "
             "_seen/_quoting are modified) is inside a try whose finally discards the object's id from _seen and "
             "resets _quoting under the started-quoting flag")
    ctx.rule("REPR-ORDER", "the `in _seen` test precedes `.add _seen`, both precede the try, and nothing that can run "
             "arbitrary code or leave the function sits between a state write and the try (except the documented "
             "cycle-placeholder return, which is infeasible with started-quoting true)")
    ctx.rule("REPR-NEST", "_quoting is set only under a condition containing (not _quoting), together with started-quoting := True, "
             "and started-quoting is initialised False on entry, so nested and failed calls never reset an outer call's flag")
    ctx.rule("REPR-OWNER", "no function other than hy-repr writes _quoting or mutates _seen")
    hf = src.hy(REL)
    g = hf.defn("hy-repr")
    ctx.need(g is not None, "defn hy-repr not found")
    ctx.functions.add(f"{REL}:hy-repr")
    body = [b for b in g.items[3:]]
    if body and body[0].kind == "str":
        body = body[1:]

    # the printer variable: (setv [f placeholder] (.get _registry ...))
    printer = None
    for st in body:
        if st.head() == "setv":
            for t, v in _setv_targets(st):
                if t.kind == "list" and v.kind == "expr" and "_registry" in v.syms():
                    printer = t.items[0].val
    ctx.need(printer is not None, "hy-repr no longer looks its printer up in _registry (anchor vanished)")
    calls = [n for n in g.walk() if n.kind == "expr" and n.items and n.items[0].is_sym(printer) and n is not None and len(n.items) >= 2]
    ctx.need(len(calls) >= 1, f"no call of the registered printer `{printer}` found in hy-repr")

    tries = [st for st in body if st.head() == "try"]
    # the owner flag: the local that is true exactly in the call that switched _quoting on.  Either it is set to True
    # next to the write of _quoting (under a test containing (not _quoting)), or the write is guarded by it and it is
    # defined as a conjunction containing (not _quoting)
    flag = None
    flag_def_ok = False
    for st in body:
        if st.head() in ("when", "if"):
            writes = [(t, v) for n in st.walk() if n.kind == "expr" and n.head() == "setv" for t, v in _setv_targets(n)]
            if any(t.is_sym("_quoting") and v.is_sym("True") for t, v in writes):
                cond = st.items[1]
                others = [t.val for t, v in writes if t.kind == "sym" and not t.is_sym("_quoting") and v.is_sym("True")]
                if cond.kind == "sym":
                    flag = cond.val
                    for st2 in body:
                        if st2.head() == "setv":
                            for t, v in _setv_targets(st2):
                                if t.is_sym(flag) and "(not _quoting)" in v.src() and v.kind == "expr" and v.head() == "and":
                                    flag_def_ok = True
                elif others:
                    flag = others[0]
                    flag_def_ok = "(not _quoting)" in cond.src()
    ctx.need(flag is not None, "hy-repr: the flag that records which call switched _quoting on was not recognised")
    for c in calls:
        key = f"{REL}|hy-repr|({printer} obj)"
        tr = next((t for t in tries if _inside(c, t)), None)
        if tr is None:
            ctx.bad("REPR-PROTECT", key, "the printer call is not inside a top-level try of hy-repr", REL, c.line,
                    witness="a printer that raises leaves the object's id in _seen and _quoting set: the next hy.repr of that object prints '...' / lacks the quote")
            continue
        fin = [x for x in tr.items[1:] if x.kind == "expr" and x.head() == "finally"]
        in_body = not any(_inside(c, x) for x in tr.items[1:] if x.kind == "expr" and x.head() in ("finally", "except", "else"))
        if not fin or not in_body:
            ctx.bad("REPR-PROTECT", key, "the try around the printer call has no finally", REL, c.line,
                    witness="a printer that raises leaves state behind")
            continue
        fin = fin[0]
        disc = [n for n in fin.walk() if n.kind == "expr" and n.head() in (".discard", ".remove") and len(n.items) > 2 and n.items[1].is_sym("_seen")]
        ctx.check(bool(disc), "REPR-PROTECT", key + "|discard", "the finally does not remove the object's id from _seen", REL, fin.line,
                  witness="after a printer raises, hy.repr of the same object prints the cycle placeholder", detail="finally discards oid")
        resets = []
        for n in fin.walk():
            if n.kind == "expr" and n.head() == "setv":
                for t, v in _setv_targets(n):
                    if t.is_sym("_quoting") and v.is_sym("False"):
                        resets.append(n)
        guarded = [r for r in resets if r._parent is not None and r._parent.head() in ("when", "if") and r._parent.items[1].is_sym(flag)]
        ctx.check(bool(guarded), "REPR-PROTECT", key + "|reset", f"the finally does not reset _quoting under `{flag}` (the flag of the call that switched it on)", REL, fin.line,
                  witness="after a model's printer raises, the next hy.repr of a model lacks its leading quote", detail="finally resets _quoting when started-quoting")
        unguarded = [r for r in resets if r not in guarded]
        ctx.check(not unguarded, "REPR-NEST", key + "|unguarded-reset", "_quoting is reset unconditionally, so a nested call resets the outer call's flag",
                  REL, fin.line, witness="(hy.repr '[a [b] c]) quotes inner elements again", detail="no unconditional reset")
        rets = [n for n in fin.walk() if n.kind == "expr" and n.head() == "return"]
        ctx.check(not rets, "REPR-PROTECT", key + "|finally-return", "a return inside the finally swallows the printer's exception", REL, fin.line, detail="no return in finally")

    # --- order of the state writes before the try -----------------------------------
    idx = {id(st): i for i, st in enumerate(body)}
    try_i = idx[id(tries[0])] if tries else len(body)
    add_i = test_i = write_i = init_i = None
    for i, st in enumerate(body):
        srcs = st.src()
        if st.head() == ".add" and st.items[1].is_sym("_seen"):
            add_i = i
        if "(in oid _seen)" in srcs or re.search(r"\(in \S+ _seen\)", srcs):
            if test_i is None:
                test_i = i
        if st.head() in ("when", "if") and any(n.head() == "setv" and any(t.is_sym("_quoting") for t, _ in _setv_targets(n)) for n in st.walk() if n.kind == "expr"):
            write_i = i
        if st.head() == "setv" and any(t.is_sym(flag) for t, v in _setv_targets(st)):
            if init_i is None:
                init_i = i
    ctx.need(add_i is not None and test_i is not None, "hy-repr no longer tests/adds ids in _seen at top level (anchor vanished)")
    ctx.check(test_i < add_i < try_i, "REPR-ORDER", f"{REL}|hy-repr|test<add<try",
              "the cycle test must precede `.add _seen`, and both must precede the try", REL, body[add_i].line,
              witness="a self-referential list recurses for ever / an id is added that the finally never sees", detail="test, add, try in order")
    def _inert(v):
        """A value whose evaluation cannot run user code or raise: literals, locals, and (if FLAG a b) on the owner flag."""
        if v.kind in ("sym", "str", "num", "kw"):
            return True
        if v.kind == "expr" and v.head() == "if" and len(v.items) == 4 and v.items[1].is_sym(flag):
            return all(_inert(x) for x in v.items[2:])
        return False

    def _inert_stmt(st):
        return st.head() == "setv" and all(t.kind == "sym" and not t.is_sym("_quoting") and not t.is_sym("_seen") and _inert(v) for t, v in _setv_targets(st))

    ctx.check(all(_inert_stmt(st) for st in body[add_i + 1:try_i]), "REPR-ORDER", f"{REL}|hy-repr|add-adjacent-try",
              "there is code between `.add _seen` and the protecting try", REL, body[add_i].line,
              witness="an exception between the add and the try leaves the id in _seen", detail="add immediately precedes try")
    if write_i is not None:
        # forms between the flag write and the try: only id(), the guarded placeholder return, the add
        for st in body[write_i + 1 : try_i]:
            key = f"{REL}|hy-repr|between-write-and-try|{st.src()[:50]}"
            s = st.src()
            if st.head() == "setv" and all(v.kind == "expr" and v.head() == "id" for _, v in _setv_targets(st)):
                ctx.ok("REPR-ORDER", key, "(id obj) cannot run user code")
            elif st.head() == ".add" and st.items[1].is_sym("_seen"):
                ctx.ok("REPR-ORDER", key, "set.add of an int")
            elif _inert_stmt(st):
                ctx.ok("REPR-ORDER", key, "binds a local to a literal / local: cannot raise")
            elif st.head() in ("when", "if") and re.search(r"\(in \S+ _seen\)", st.items[1].src()) and "return" in s:
                # allow-list: infeasible with started-quoting true (object already in _seen and a model => _quoting already true)
                bad_inner = [n for n in st.walk() if n.kind == "expr" and n.items and n.items[0].kind == "sym"
                             and n.items[0].val not in ("when", "if", "in", "return", "is", "is-not", "not", "=")]
                ctx.check(not bad_inner, "REPR-ORDER", key, "the cycle-placeholder return runs other code: " + (bad_inner[0].src() if bad_inner else ""),
                          REL, st.line, detail="placeholder return guarded by (in oid _seen); infeasible when started-quoting")
            else:
                ctx.bad("REPR-ORDER", key, "code between the _quoting write and the protecting try can leave hy-repr with _quoting still set",
                        REL, st.line, witness="a model for which this form raises/returns leaves _quoting True; later reprs of models lose their quote")
        w = body[write_i]
        cond = w.items[1]
        ctx.check(flag_def_ok, "REPR-NEST", f"{REL}|hy-repr|write-guard",
                  "_quoting is set without testing (not _quoting): nested calls claim ownership of the flag", REL, w.line,
                  witness="(hy.repr '[a b]) prints ''[''a ''b]' style nested quotes or resets early", detail="guarded by (not _quoting)")
        sets = {t.val: v for n in w.walk() if n.kind == "expr" and n.head() == "setv" for t, v in _setv_targets(n) if t.kind == "sym"}
        ctx.check(sets.get("_quoting") is not None and sets["_quoting"].is_sym("True") and (cond.is_sym(flag) or (sets.get(flag) is not None
                  and sets[flag].is_sym("True"))), "REPR-NEST", f"{REL}|hy-repr|write-pair",
                  "_quoting := True and started-quoting := True must be set together", REL, w.line, detail="set together")
        ctx.check(init_i is not None and init_i < write_i, "REPR-NEST", f"{REL}|hy-repr|flag-init",
                  f"{flag} is not given a value before the conditional write", REL, w.line, detail="initialised False")
    else:
        ctx.need(False, "hy-repr no longer sets _quoting conditionally at top level (anchor vanished)")

    # --- ownership -------------------------------------------------------------
    n_w = 0
    for n in hf.walk():
        if n.kind != "expr":
            continue
        fn = _fn_of(n)
        if n.head() == "setv":
            for t, v in _setv_targets(n):
                if t.is_sym("_quoting") or t.is_sym("_seen"):
                    if n in hf.forms:
                        continue
                    n_w += 1
                    ctx.check(fn == "hy-repr", "REPR-OWNER", f"{REL}|{fn}|setv {t.val}", f"`{t.val}` is written in `{fn}`, outside hy-repr's try/finally discipline",
                              REL, n.line, detail="written in hy-repr")
        if n.head() in (".add", ".discard", ".remove", ".clear", ".update", ".pop") and len(n.items) > 1 and n.items[1].is_sym("_seen"):
            n_w += 1
            ctx.check(fn == "hy-repr", "REPR-OWNER", f"{REL}|{fn}|{n.head()} _seen", f"_seen is mutated in `{fn}`, outside hy-repr", REL, n.line, detail="mutated in hy-repr")
    for rel in src.hy_files("hy") + src.py_files("hy"):
        if rel == REL:
            continue
        t = src.text(rel)
        if re.search(r"hy_repr\._(quoting|seen)|hy-repr\._(quoting|seen)|hy\.core\.hy.repr\)? *_(quoting|seen)", t):
            ctx.bad("REPR-OWNER", f"{rel}|external", "another module reaches into hy_repr's private state", rel, 0)
    ctx.floor("REPR-OWNER", 4)
    ctx.floor("REPR-ORDER", 4)


_TRY = """  (try
    (+ (if started-quoting "'" "") (f obj))
    (finally
      (.discard _seen oid)
      (when started-quoting
        (setv _quoting False)))))"""
SELFTESTS = [
    dict(name="no finally", file=REL, old=_TRY,
         new="""  (setv r (+ (if started-quoting "'" "") (f obj)))
  (.discard _seen oid)
  (when started-quoting
    (setv _quoting False))
  r)""", rule="REPR-PROTECT", key="(f obj)"),
    dict(name="reset dropped from finally", file=REL, old=_TRY,
         new="""  (try
    (+ (if started-quoting "'" "") (f obj))
    (finally
      (.discard _seen oid))))""", rule="REPR-PROTECT", key="reset"),
    dict(name="unguarded reset", file=REL, old="      (when started-quoting\n        (setv _quoting False)))))", new="      (setv _quoting False))))",
         rule="REPR-PROTECT", key="reset"),
    dict(name="add before test", file=REL, old="""  (when (in oid _seen)
    (return (if (is placeholder None) "..." placeholder)))
  (.add _seen oid)""", new="""  (.add _seen oid)
  (when (in oid _seen)
    (return (if (is placeholder None) "..." placeholder)))""", rule="REPR-ORDER", key="test<add<try"),
    dict(name="rename oid twin", file=REL, old="(.discard _seen oid)", new="(.remove _seen oid)", kind="twin"),
]
