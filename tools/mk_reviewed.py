#!/venv/bin/python
"""Regenerate hyverif/reviewed_functions.json from /repo's current (reviewed) tree: per function of hy/*.py, the digests of
its canonical statements.  Run only after the tree has been reviewed (it is the reference for `small edit`)."""
import glob, json, os, sys
sys.path.insert(0, "/verif")
from hyverif import core, fdiff
root = sys.argv[1] if len(sys.argv) > 1 else "/repo"
src = core.Src(root, canon=True)
out = {}
for p in sorted(glob.glob(os.path.join(root, "hy/**/*.py"), recursive=True)):
    rel = os.path.relpath(p, root)
    m = src.py(rel)
    out[rel] = {q: fdiff.statements(f) for q, f in sorted(m.funcs.items())}
for rel in src.hy_files():
    out[rel] = {k: fdiff.hy_tokens(f) for k, f in fdiff.hy_forms(src.hy(rel)).items()}
json.dump(out, open("/verif/hyverif/reviewed_functions.json", "w"), indent=0, sort_keys=True)
print(sum(len(v) for v in out.values()), "functions")
